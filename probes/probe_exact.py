#!/venv/bin/python
"""Design-phase probe (NOT part of the machinery): exact GP posterior / MLL / LOO against dense
float64 formulas over the prediction-relevant settings grid.  Calibrates tolerances for C01/C02."""
import itertools
import math
import sys
import warnings

import torch

warnings.filterwarnings("ignore")
import gpytorch  # noqa: E402
from gpytorch import settings as S  # noqa: E402

torch.set_default_dtype(torch.float64)
seed = int(sys.argv[1]) if len(sys.argv) > 1 else 0
torch.manual_seed(seed)


class GP(gpytorch.models.ExactGP):
    def __init__(self, x, y, lik, batch=torch.Size()):
        super().__init__(x, y, lik)
        self.mean_module = gpytorch.means.ConstantMean(batch_shape=batch)
        self.covar_module = gpytorch.kernels.ScaleKernel(
            gpytorch.kernels.MaternKernel(nu=2.5, ard_num_dims=x.shape[-1], batch_shape=batch), batch_shape=batch
        )

    def forward(self, x):
        return gpytorch.distributions.MultivariateNormal(self.mean_module(x), self.covar_module(x))


def dense_posterior(model, lik, X, y, Xs, noise_diag):
    with S.lazily_evaluate_kernels(False):
        full = torch.cat([X.expand(*Xs.shape[:-2], *X.shape[-2:]) if Xs.dim() > X.dim() else X, Xs], -2)
        Kf = model.covar_module(full).to_dense()
        mf = model.mean_module(full)
    n = X.shape[-2]
    Kxx, Kxs, Kss = Kf[..., :n, :n], Kf[..., :n, n:], Kf[..., n:, n:]
    A = Kxx + torch.diag_embed(noise_diag.expand(Kxx.shape[:-1]))
    r = (y - mf[..., :n]).unsqueeze(-1)
    mean = mf[..., n:] + (Kxs.transpose(-1, -2) @ torch.linalg.solve(A, r)).squeeze(-1)
    cov = Kss - Kxs.transpose(-1, -2) @ torch.linalg.solve(A, Kxs)
    return mean, cov, A, mf[..., :n]


worst = {}
for batch in [(), (2,)]:
    n, ns, d = 6, 4, 2
    X = torch.randn(*batch, n, d)
    y = torch.randn(*batch, n)
    Xs = torch.randn(*batch, ns, d)
    lik = gpytorch.likelihoods.GaussianLikelihood(batch_shape=torch.Size(batch))
    lik.noise = torch.rand(*batch, 1) * 0.3 + 0.05
    model = GP(X, y, lik, torch.Size(batch))
    model.covar_module.base_kernel.lengthscale = torch.rand(*batch, 1, d) + 0.5
    model.covar_module.outputscale = torch.rand(batch) + 0.5
    model.mean_module.constant = torch.randn(batch)
    with torch.no_grad():
        em, ec, A, mx = dense_posterior(model, lik, X, y, Xs, lik.noise.expand(*batch, 1).expand(*batch, n))
    grid = itertools.product(
        [True, False],  # lazily evaluate
        [0, 512],  # max eager size
        [True, False],  # fast solves (with max_cholesky 0 -> CG)
        [0, 800],  # max_cholesky_size
        [True, False],  # fast_pred_var
        [True, False],  # detach
    )
    for lazy, eager, fsolve, mcs, fpv, det in grid:
        model.train(); model.eval()
        with S.lazily_evaluate_kernels(lazy), S.max_eager_kernel_size(eager), S.fast_computations(
            covar_root_decomposition=fsolve, log_prob=fsolve, solves=fsolve
        ), S.max_cholesky_size(mcs), S.fast_pred_var(fpv), S.detach_test_caches(det), S.eval_cg_tolerance(
            1e-12
        ), S.cg_tolerance(1e-12), S.max_cg_iterations(500), S.max_root_decomposition_size(100), torch.no_grad():
            try:
                out = model(Xs)
                gm, gc = out.mean, out.covariance_matrix
                pred = lik(out)
                nz = pred.covariance_matrix - gc
            except Exception as e:  # noqa: BLE001
                print("EXC", batch, lazy, eager, fsolve, mcs, fpv, det, type(e).__name__, str(e)[:100])
                continue
        em_err = (gm - em).abs().max().item()
        ec_err = (gc - ec).abs().max().item()
        nz_err = (nz - torch.diag_embed(lik.noise.expand(*batch, 1).expand(*batch, ns))).abs().max().item()
        key = ("CG" if (fsolve and mcs == 0) else "chol", "fpv" if fpv else "std")
        w = worst.setdefault(key, [0, 0, 0])
        w[0] = max(w[0], em_err); w[1] = max(w[1], ec_err); w[2] = max(w[2], nz_err)
        if em_err > 1e-6 or ec_err > 1e-6:
            print("BAD", batch, dict(lazy=lazy, eager=eager, fsolve=fsolve, mcs=mcs, fpv=fpv, det=det), em_err, ec_err)
    # MLL + LOO
    model.train()
    for mcs in (800,):
        with S.max_cholesky_size(mcs):
            mll = gpytorch.mlls.ExactMarginalLogLikelihood(lik, model)
            val = mll(model(X), y)
            r = (y - mx)
            ref = -0.5 * ((r.unsqueeze(-2) @ torch.linalg.solve(A, r.unsqueeze(-1))).squeeze(-1).squeeze(-1)
                          + torch.logdet(A) + n * math.log(2 * math.pi)) / n
            print("MLL err", batch, (val - ref).abs().max().item())
            loo = gpytorch.mlls.LeaveOneOutPseudoLikelihood(lik, model)(model(X), y)
            acc = torch.zeros(batch)
            for i in range(n):
                idx = [j for j in range(n) if j != i]
                Ai = A[..., idx, :][..., :, idx]
                ki = A[..., idx, i]
                mu_i = mx[..., i] + (ki.unsqueeze(-2) @ torch.linalg.solve(Ai, (y - mx)[..., idx].unsqueeze(-1))).squeeze(-1).squeeze(-1)
                var_i = A[..., i, i] - (ki.unsqueeze(-2) @ torch.linalg.solve(Ai, ki.unsqueeze(-1))).squeeze(-1).squeeze(-1)
                acc = acc + (-0.5 * math.log(2 * math.pi) - 0.5 * var_i.log() - 0.5 * (y[..., i] - mu_i) ** 2 / var_i)
            print("LOO err", batch, (loo - acc / n).abs().max().item())
print({k: ["%.1e" % v for v in w] for k, w in worst.items()})

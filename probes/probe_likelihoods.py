#!/venv/bin/python
"""Design-phase probe (NOT part of the machinery): Gaussian-family noise structure, Gauss-Hermite
exactness, Bernoulli marginal, log_normal_cdf accuracy.  Calibrates C12/C13."""
import math
import sys
import warnings

import numpy as np
import scipy.integrate
import scipy.special
import scipy.stats
import torch

warnings.filterwarnings("ignore")
import gpytorch  # noqa: E402
from gpytorch.distributions import MultitaskMultivariateNormal as MT, MultivariateNormal as MVN  # noqa: E402
from gpytorch.likelihoods import (  # noqa: E402
    BernoulliLikelihood,
    BetaLikelihood,
    GaussianLikelihood,
    LaplaceLikelihood,
    MultitaskGaussianLikelihood,
    StudentTLikelihood,
)

torch.set_default_dtype(torch.float64)
torch.manual_seed(0)

# ---------- multitask noise structure
n, t = 3, 2
A = torch.randn(n * t, n * t)
C = A @ A.T + torch.eye(n * t)
mean = torch.randn(n, t)
for rank in (0, 1, 2):
    for glob, task in [(True, True), (True, False), (False, True)]:
        if rank > 0 and not task:
            continue
        lik = MultitaskGaussianLikelihood(num_tasks=t, rank=rank, has_global_noise=glob, has_task_noise=task)
        if glob:
            lik.noise = torch.tensor([0.37])
        if task and rank == 0:
            lik.task_noises = torch.tensor([0.11, 0.23])
        if task:
            D = torch.diag(lik.task_noises.detach()) if rank == 0 else lik.task_noise_covar.detach()
        else:
            D = torch.zeros(t, t)
        if glob:
            D = D + 0.37 * torch.eye(t)
        for inter in (True, False):
            d = MT(mean, C, interleaved=inter)
            out = lik(d)
            R = out.covariance_matrix - C
            exp = torch.kron(torch.eye(n), D) if inter else torch.kron(D, torch.eye(n))
            err = (R - exp).abs().max().item()
            print(f"MT lik rank={rank} global={glob} task={task} interleaved={inter}: noise err {err:.2e} mean same {torch.equal(out.mean, mean)}")

# ---------- Gaussian expected_log_prob / log_marginal
lik = GaussianLikelihood(); lik.noise = 0.3
m, c = torch.randn(5), torch.rand(5) + 0.1
d = MVN(m, torch.diag(c))
y = torch.randn(5)
elp = lik.expected_log_prob(y, d)
ref = -0.5 * (math.log(2 * math.pi * 0.3) + ((y - m) ** 2 + c) / 0.3)
print("gaussian expected_log_prob err %.2e" % (elp - ref).abs().max())
lm = lik.log_marginal(y, d)
print("gaussian log_marginal err %.2e" % (lm - torch.distributions.Normal(m, (c + 0.3).sqrt()).log_prob(y)).abs().max())

# ---------- Gauss-Hermite polynomial exactness
from gpytorch.utils.quadrature import GaussHermiteQuadrature1D  # noqa: E402


def gauss_moment(k, mu, var):
    # E[x^k], x~N(mu,var), by recurrence E[x^k] = mu E[x^{k-1}] + (k-1) var E[x^{k-2}]
    e = [1.0, mu]
    for j in range(2, k + 1):
        e.append(mu * e[j - 1] + (j - 1) * var * e[j - 2])
    return e[k]


for L in (1, 2, 5, 10, 20, 30):
    q = GaussHermiteQuadrature1D(num_locs=L)
    worst = 0
    for mu, var in [(0.0, 1.0), (1.3, 0.4), (-2.0, 3.0)]:
        dist = torch.distributions.Normal(torch.tensor([mu]), torch.tensor([var]).sqrt())
        for k in range(0, 2 * L):
            got = q(lambda x: x**k, dist).item()
            exp = gauss_moment(k, mu, var)
            scale = gauss_moment(k if k % 2 == 0 else k + 1, abs(mu), var) ** (1.0 if k % 2 == 0 else k / (k + 1.0))
            worst = max(worst, abs(got - exp) / max(scale, 1e-300))
        got = q(lambda x: x ** (2 * L), dist).item()
        inexact = abs(got - gauss_moment(2 * L, mu, var)) / gauss_moment(2 * L, abs(mu), var)
    print(f"GH L={L}: worst rel err deg<2L = {worst:.2e}; deg=2L rel err {inexact:.2e} (should be non-zero)")

# ---------- Bernoulli marginal, likelihood integrals vs adaptive quadrature
bl = BernoulliLikelihood()
mu, var = torch.tensor([0.7, -1.2]), torch.tensor([0.5, 2.0])
dist = MVN(mu, torch.diag(var))
print("bernoulli marginal err %.2e" % (bl(dist).probs - torch.tensor(scipy.special.ndtr((mu / (1 + var).sqrt()).numpy()))).abs().max())


def integ(f, m, v):
    s = math.sqrt(v)
    return scipy.integrate.quad(lambda x: f(x) * scipy.stats.norm.pdf(x, m, s), m - 12 * s, m + 12 * s, epsabs=1e-13, epsrel=1e-13, limit=400, points=[m])[0]


yb = torch.tensor([1.0, 0.0])
elp = bl.expected_log_prob(yb, dist)
ref = [integ(lambda f, s=(2 * yy - 1): scipy.special.log_ndtr(s * f), mm, vv) for yy, mm, vv in zip(yb.tolist(), mu.tolist(), var.tolist())]
print("bernoulli expected_log_prob err", (elp - torch.tensor(ref)).abs().tolist())
for name, lk, dens in [
    ("laplace", LaplaceLikelihood(), lambda f, yv, lk: scipy.stats.laplace.logpdf(yv, loc=f, scale=math.sqrt(lk.noise.item()))),
    ("student", StudentTLikelihood(), lambda f, yv, lk: scipy.stats.t.logpdf(yv, df=lk.deg_free.item(), loc=f, scale=math.sqrt(lk.noise.item()))),
]:
    yv = torch.tensor([0.3, -0.8])
    for L in (10, 20, 40):
        with gpytorch.settings.num_gauss_hermite_locs(L):
            lk2 = type(lk)()
        elp = lk2.expected_log_prob(yv, dist)
        ref = torch.tensor([integ(lambda f: dens(f, yy, lk2), mm, vv) for yy, mm, vv in zip(yv.tolist(), mu.tolist(), var.tolist())])
        lmg = lk2.log_marginal(yv, dist)
        refm = torch.tensor([math.log(integ(lambda f: math.exp(dens(f, yy, lk2)), mm, vv)) for yy, mm, vv in zip(yv.tolist(), mu.tolist(), var.tolist())])
        print(f"{name} L={L} expected_log_prob err {(elp - ref).abs().max():.2e}  log_marginal err {(lmg - refm).abs().max():.2e}")
bt = BetaLikelihood(); bt.scale = torch.tensor([3.0])
f = torch.tensor([0.4])
cd = bt(f)
mix = torch.sigmoid(f)
print("beta conditional params", cd.concentration1.item(), cd.concentration0.item(), "doc says", (mix * 3).item(), ((1 - mix) * 3).item())

# ---------- log_normal_cdf
from gpytorch.functions import log_normal_cdf  # noqa: E402

z = torch.cat([torch.linspace(-40, 10, 200001), -torch.logspace(0, 6, 2001), torch.logspace(-8, 1.5, 2001), -torch.logspace(-8, 0, 2001)])
z = z.clone().requires_grad_(True)
val = log_normal_cdf(z)
ref = torch.tensor(scipy.special.log_ndtr(z.detach().numpy()))
err = (val.detach() - ref).abs()
zz = z.detach()
print("log_normal_cdf abs err: z>=-1 max %.2e ; z<-1 max %.2e ; at |z|<=1e6" % (err[zz >= -1].max(), err[zz < -1].max()))
print("   rel err z<-1 max %.2e" % (err[zz < -1] / ref[zz < -1].abs()).max())
val.sum().backward()
gref = torch.exp(torch.tensor(scipy.stats.norm.logpdf(zz.numpy())) - ref)
grel = ((z.grad - gref).abs() / gref.abs())
print("   grad rel err: z>=-1 max %.2e ; z<-1 max %.2e" % (grel[zz >= -1].max(), grel[zz < -1].max()))

#!/venv/bin/python
"""Design-phase probe (NOT part of the machinery): the less common variational strategies against the
closed forms written in DESIGN.md §C14 (batch shapes, LMC, independent multitask, grid interpolation,
batch-decoupled, orthogonally decoupled, CIQ, natural/tril-natural/mean-field/delta distributions)."""
import math
import sys
import warnings

import torch

warnings.filterwarnings("ignore")
import gpytorch  # noqa: E402
from gpytorch import settings as S, variational as V  # noqa: E402

torch.set_default_dtype(torch.float64)
torch.manual_seed(int(sys.argv[1]) if len(sys.argv) > 1 else 0)
JIT = 1e-8
LS, OS, MC = 0.8, 1.7, 0.3


def kern(a, b, ls=LS, os_=OS):
    return os_ * torch.exp(-0.5 * ((a.unsqueeze(-2) - b.unsqueeze(-3)) / ls).pow(2).sum(-1))


class Base(gpytorch.models.ApproximateGP):
    def __init__(self, strat, batch=torch.Size()):
        super().__init__(strat)
        self.mean_module = gpytorch.means.ConstantMean(batch_shape=batch)
        self.covar_module = gpytorch.kernels.ScaleKernel(gpytorch.kernels.RBFKernel(batch_shape=batch), batch_shape=batch)
        self.mean_module.constant = torch.full(batch, MC) if len(batch) else MC
        self.covar_module.outputscale = torch.full(batch, OS) if len(batch) else OS
        self.covar_module.base_kernel.lengthscale = LS

    def forward(self, x):
        return gpytorch.distributions.MultivariateNormal(self.mean_module(x), self.covar_module(x))


def qf(Z, X, mu_u, S_u, jit=JIT):
    M = Z.shape[-2]
    Kzz = kern(Z, Z) + jit * torch.eye(M)
    Kxz = kern(X, Z)
    A = torch.linalg.solve(Kzz, Kxz.transpose(-1, -2)).transpose(-1, -2)
    mean = MC + (A @ (mu_u - MC).unsqueeze(-1)).squeeze(-1)
    cov = kern(X, X) - A @ (Kzz - S_u) @ A.transpose(-1, -2)
    return mean, cov, Kzz


def rand_spd(*shape):
    A = torch.randn(*shape, shape[-1]) * 0.4
    return A @ A.transpose(-1, -2) + 0.3 * torch.eye(shape[-1])


def show(name, got_m, exp_m, got_c, exp_c, n=None):
    ec = (got_c - exp_c).abs().max().item()
    ecj = (got_c - JIT * torch.eye(got_c.shape[-1]) - exp_c).abs().max().item()
    print(f"{name:48s} mean {(got_m-exp_m).abs().max():.1e} cov {min(ec, ecj):.1e}")


M, N, d = 4, 5, 2
Z = torch.randn(M, d); X = torch.randn(N, d)

# ---------- every variational distribution class on the whitened strategy
mw = torch.randn(M); Sw = rand_spd(M)
Kzz = kern(Z, Z) + JIT * torch.eye(M); L = torch.linalg.cholesky(Kzz)
for name, cls, enc in [
    ("Cholesky", V.CholeskyVariationalDistribution, lambda vd, m, Sg: (vd.variational_mean.data.copy_(m), vd.chol_variational_covar.data.copy_(torch.linalg.cholesky(Sg)))),
    ("MeanField", V.MeanFieldVariationalDistribution, lambda vd, m, Sg: (vd.variational_mean.data.copy_(m), vd._variational_stddev.data.copy_(Sg.diagonal().sqrt()))),
    ("Delta", V.DeltaVariationalDistribution, lambda vd, m, Sg: (vd.variational_mean.data.copy_(m),)),
    ("Natural", V.NaturalVariationalDistribution, lambda vd, m, Sg: (vd.natural_vec.data.copy_(torch.linalg.solve(Sg, m)), vd.natural_mat.data.copy_(-0.5 * torch.linalg.inv(Sg)))),
    ("TrilNatural", V.TrilNaturalVariationalDistribution, lambda vd, m, Sg: (vd.natural_vec.data.copy_(torch.linalg.solve(Sg, m)), vd.natural_tril_mat.data.copy_(torch.linalg.inv(torch.linalg.cholesky(Sg))))),
]:
    Sq = torch.diag(Sw.diagonal()) if name == "MeanField" else (torch.zeros(M, M) if name == "Delta" else Sw)
    vd = cls(M)
    mod = Base(V.VariationalStrategy(None, Z, vd, jitter_val=JIT)); object.__setattr__(mod.variational_strategy, "model", mod)
    mod.variational_strategy.variational_params_initialized.fill_(1)
    enc(vd, mw, Sw)
    mod.eval()
    out = mod(X)
    em, ec, _ = qf(Z, X, MC + L @ mw, L @ Sq @ L.T)
    show("whitened + " + name, out.mean, em, out.covariance_matrix, ec)
    if name != "Delta":
        q = vd()
        print(f"{'':48s} dist mean {(q.mean-mw).abs().max():.1e} cov {(q.covariance_matrix-Sq).abs().max():.1e}")

# ---------- batch shapes: inducing (2,M,d), variational (2,), x (N,d) / (3,1,N,d)
B = 2
Zb = torch.randn(B, M, d); mwb = torch.randn(B, M); Swb = rand_spd(B, M)
vd = V.CholeskyVariationalDistribution(M, batch_shape=torch.Size([B]))
mod = Base(V.VariationalStrategy(None, Zb, vd, jitter_val=JIT), torch.Size([B])); object.__setattr__(mod.variational_strategy, "model", mod)
mod.variational_strategy.variational_params_initialized.fill_(1)
vd.variational_mean.data.copy_(mwb); vd.chol_variational_covar.data.copy_(torch.linalg.cholesky(Swb))
mod.eval()
for Xb in (X, torch.randn(3, 1, N, d)):
    out = mod(Xb)
    Kb = kern(Zb, Zb) + JIT * torch.eye(M); Lb = torch.linalg.cholesky(Kb)
    em, ec, _ = qf(Zb, Xb, MC + (Lb @ mwb.unsqueeze(-1)).squeeze(-1), Lb @ Swb @ Lb.transpose(-1, -2))
    show(f"batched whitened, x{tuple(Xb.shape)} -> {tuple(out.mean.shape)}", out.mean, em, out.covariance_matrix, ec)
klb = mod.variational_strategy.kl_divergence()
ref = torch.stack([0.5 * (torch.trace(Swb[i]) + mwb[i] @ mwb[i] - M - torch.logdet(Swb[i])) for i in range(B)])
print(f"{'batched KL':48s} err {(klb-ref).abs().max():.1e}")

# ---------- LMC over the batched base (num_latents = B), tasks T
T = 3
lmc = V.LMCVariationalStrategy(mod.variational_strategy, num_tasks=T, num_latents=B, latent_dim=-1, jitter_val=JIT)
class LMCModel(gpytorch.models.ApproximateGP):
    def __init__(self):
        super().__init__(lmc)
        self.mean_module, self.covar_module = mod.mean_module, mod.covar_module
    def forward(self, x):
        return gpytorch.distributions.MultivariateNormal(self.mean_module(x), self.covar_module(x))
object.__setattr__(mod.variational_strategy, "model", LMCModel())
lm = mod.variational_strategy.model
lm.eval()
out = lm(X)
Acoef = lmc.lmc_coefficients.detach()  # (B, T)
em_l, ec_l, _ = qf(Zb, X, MC + (Lb @ mwb.unsqueeze(-1)).squeeze(-1), Lb @ Swb @ Lb.transpose(-1, -2))
em = torch.einsum("lt,li->it", Acoef, em_l)
ec = torch.einsum("lt,ls,lij->itjs", Acoef, Acoef, ec_l + JIT * torch.eye(N)).reshape(N * T, N * T)
print(f"{'LMC':48s} mean {(out.mean-em).abs().max():.1e} cov {(out.covariance_matrix-ec).abs().max():.1e} (cov-jitter {(out.covariance_matrix-JIT*torch.eye(N*T)-ec).abs().max():.1e}) KL {(lmc.kl_divergence()-ref.sum()).abs():.1e}")
ti = torch.randint(0, T, (N,))
out = lm(X, task_indices=ti)
em2 = (Acoef[:, ti] * em_l).sum(0)
ec2 = torch.einsum("li,lj,lij->ij", Acoef[:, ti], Acoef[:, ti], ec_l + JIT * torch.eye(N))
print(f"{'LMC task_indices':48s} mean {(out.mean-em2).abs().max():.1e} cov {(out.covariance_matrix-JIT*torch.eye(N)-ec2).abs().max():.1e}")

# ---------- Independent multitask over the batched base (tasks = B)
object.__setattr__(mod.variational_strategy, "model", mod)
ims = V.IndependentMultitaskVariationalStrategy(mod.variational_strategy, num_tasks=B)
mod.eval()
out = ims(X)
ecI = torch.zeros(N, B, N, B)
for a in range(B):
    ecI[:, a, :, a] = ec_l[a] + JIT * torch.eye(N)
print(f"{'IndependentMultitask':48s} mean {(out.mean-em_l.T).abs().max():.1e} cov {(out.covariance_matrix-ecI.reshape(N*B,N*B)).abs().max():.1e} KL {(ims.kl_divergence()-ref.sum()).abs():.1e}")

# ---------- Unwhitened with batch
vd = V.CholeskyVariationalDistribution(M)
mu = Base(V.UnwhitenedVariationalStrategy(None, Z, vd, jitter_val=JIT)); object.__setattr__(mu.variational_strategy, "model", mu)
mu.variational_strategy.variational_params_initialized.fill_(1)
m_u = MC + L @ mw; S_u = L @ Sw @ L.T
vd.variational_mean.data.copy_(m_u); vd.chol_variational_covar.data.copy_(torch.linalg.cholesky(S_u))
mu.eval(); out = mu(X)
em, ec, _ = qf(Z, X, m_u, S_u)
show("unwhitened", out.mean, em, out.covariance_matrix, ec)

# ---------- Batch decoupled
vd = V.CholeskyVariationalDistribution(M)
bd = Base(V.BatchDecoupledVariationalStrategy(None, Z, vd, jitter_val=JIT)); object.__setattr__(bd.variational_strategy, "model", bd)
bd.variational_strategy.variational_params_initialized.fill_(1)
Z2 = bd.variational_strategy.inducing_points.detach().clone(); Z2[1] += 0.3 * torch.randn(M, d)
bd.variational_strategy.inducing_points.data.copy_(Z2)
vd.variational_mean.data.copy_(mw); vd.chol_variational_covar.data.copy_(torch.linalg.cholesky(Sw))
bd.eval(); out = bd(X)
K0 = kern(Z2[0], Z2[0]) + JIT * torch.eye(M); L0 = torch.linalg.cholesky(K0)
K1 = kern(Z2[1], Z2[1]) + JIT * torch.eye(M); L1 = torch.linalg.cholesky(K1)
em = MC + kern(X, Z2[0]) @ torch.linalg.solve(L0.T, mw)
I1 = torch.linalg.solve(L1, kern(Z2[1], X))
ec = kern(X, X) + I1.T @ (Sw - torch.eye(M)) @ I1
show("batch-decoupled", out.mean, em, out.covariance_matrix, ec)
klbd = bd.variational_strategy.kl_divergence()
ref_bd = 0.5 * (mw @ mw) + 0.5 * M * math.log(2 * math.pi) + 0.5 * (torch.trace(Sw) - M - torch.logdet(Sw))
print(f"{'batch-decoupled KL (Delta-KL + zero-mean KL)':48s} err {(klbd-ref_bd).abs():.1e}")

# ---------- Orthogonally decoupled
cov_vd = V.CholeskyVariationalDistribution(M)
class OD(gpytorch.models.ApproximateGP):
    def __init__(self):
        cov_strat = V.VariationalStrategy(self, Z, cov_vd, jitter_val=JIT)
        mean_vd = V.DeltaVariationalDistribution(3)
        strat = V.OrthogonallyDecoupledVariationalStrategy(cov_strat, torch.randn(3, d), mean_vd, jitter_val=JIT)
        super().__init__(strat)
        self.mean_vd = mean_vd
        self.mean_module = gpytorch.means.ConstantMean(); self.mean_module.constant = MC
        self.covar_module = gpytorch.kernels.ScaleKernel(gpytorch.kernels.RBFKernel()); self.covar_module.outputscale = OS; self.covar_module.base_kernel.lengthscale = LS
    def forward(self, x):
        return gpytorch.distributions.MultivariateNormal(self.mean_module(x), self.covar_module(x))
od = OD()
od.variational_strategy.variational_params_initialized.fill_(1); od.variational_strategy.base_variational_strategy.variational_params_initialized.fill_(1)
cov_vd.variational_mean.data.copy_(mw); cov_vd.chol_variational_covar.data.copy_(torch.linalg.cholesky(Sw))
a = torch.randn(3); od.mean_vd.variational_mean.data.copy_(a)
od.eval(); out = od(X)
Zbeta = od.variational_strategy.inducing_points.detach()
full = torch.cat([X, Zbeta])
em_f, ec_f, _ = qf(Z, full, MC + L @ mw, L @ Sw @ L.T)
em = em_f[:N] + (ec_f[:N, N:] + 0 * JIT) @ a
show("orth-decoupled", out.mean, em, out.covariance_matrix, ec_f[:N, :N])
kl_od = od.variational_strategy.kl_divergence()
ref_od = 0.5 * (torch.trace(Sw) + mw @ mw - M - torch.logdet(Sw)) + 0.5 * a @ (ec_f[N:, N:] + 2 * JIT * torch.eye(3)) @ a
print(f"{'orth-decoupled KL':48s} err {(kl_od-ref_od).abs():.1e}")

# ---------- CIQ
for dist_name, dcls in [("Cholesky", V.CholeskyVariationalDistribution), ("Natural", V.NaturalVariationalDistribution)]:
    vd = dcls(M)
    cq = Base(V.CiqVariationalStrategy(None, Z, vd, jitter_val=JIT)); object.__setattr__(cq.variational_strategy, "model", cq)
    cq.variational_strategy.variational_params_initialized.fill_(1)
    if dist_name == "Cholesky":
        vd.variational_mean.data.copy_(mw); vd.chol_variational_covar.data.copy_(torch.linalg.cholesky(Sw))
    else:
        vd.natural_vec.data.copy_(torch.linalg.solve(Sw, mw)); vd.natural_mat.data.copy_(-0.5 * torch.linalg.inv(Sw))
    cq.eval()
    with S.num_contour_quadrature(40), S.minres_tolerance(1e-12), S.max_cg_iterations(2000), S.cg_tolerance(1e-12), S.eval_cg_tolerance(1e-12):
        out = cq(X)
    # CIQ uses the symmetric square root K^{-1/2}, i.e. u = m_z + K^{1/2} e
    ev, U = torch.linalg.eigh(Kzz); Kh = U @ torch.diag(ev.sqrt()) @ U.T
    em, ec, _ = qf(Z, X, MC + Kh @ mw, Kh @ Sw @ Kh.T)
    got_c = out.covariance_matrix
    if dist_name == "Natural":
        print(f"{'CIQ + Natural (diag only)':48s} mean {(out.mean-em).abs().max():.1e} var {(got_c.diagonal()-JIT-ec.diagonal()).abs().max():.1e}")
    else:
        print(f"{'CIQ + Cholesky':48s} mean {(out.mean-em).abs().max():.1e} cov {(got_c-2*JIT*torch.eye(N)-ec).abs().max():.1e}")

# ---------- Grid interpolation variational
gs = 8
BOUNDS = [(-1.0, 1.0), (-1.0, 1.0)] if len(sys.argv) > 2 else [(-1.0, 1.0), (0.0, 3.0)]
vd = V.CholeskyVariationalDistribution(gs * gs)
class GI(gpytorch.models.ApproximateGP):
    def __init__(self):
        super().__init__(V.GridInterpolationVariationalStrategy(self, gs, BOUNDS, vd))
        self.mean_module = gpytorch.means.ConstantMean(); self.covar_module = gpytorch.kernels.ScaleKernel(gpytorch.kernels.RBFKernel())
    def forward(self, x):
        return gpytorch.distributions.MultivariateNormal(self.mean_module(x), self.covar_module(x))
gi = GI(); gi.variational_strategy.variational_params_initialized.fill_(1)
mg = torch.randn(gs * gs); Sg = rand_spd(gs * gs)
vd.variational_mean.data.copy_(mg); vd.chol_variational_covar.data.copy_(torch.linalg.cholesky(Sg))
gi.eval()
Xg = torch.rand(N, 2); Xg[:, 0] = Xg[:, 0] * 2 - 1; Xg[:, 1] = (Xg[:, 1] * 2 - 1) if len(sys.argv) > 2 else Xg[:, 1] * 3
out = gi(Xg)
# oracle W: tensor-product Keys weights on the strategy's own inducing grid
Zg = gi.variational_strategy.inducing_points
def keys(u):
    u = u.abs()
    return torch.where(u < 1, (1.5 * u - 2.5) * u * u + 1, torch.where(u < 2, ((-0.5 * u + 2.5) * u - 4) * u + 2, torch.zeros_like(u)))
g0 = gi.variational_strategy.grid[:, 0]; g1 = gi.variational_strategy.grid[:, 1]
h0, h1 = g0[1] - g0[0], g1[1] - g1[0]
W = keys((Xg[:, 0:1] - Zg[:, 0].unsqueeze(0)) / h0) * keys((Xg[:, 1:2] - Zg[:, 1].unsqueeze(0)) / h1)
print(f"{'grid-interp variational (asymmetric bounds)':48s} mean {(out.mean-W@mg).abs().max():.1e} cov {(out.covariance_matrix-W@Sg@W.T).abs().max():.1e}")
# ordering diagnosis: library W against Interpolation's dim-0-major order vs the strategy's own inducing-point order
G0, G1 = torch.meshgrid(g0, g1, indexing="ij")
Zmajor = torch.stack([G0.reshape(-1), G1.reshape(-1)], -1)  # index = i0*gs + i1 (dim-0 most significant)
W2 = keys((Xg[:, 0:1] - Zmajor[:, 0].unsqueeze(0)) / h0) * keys((Xg[:, 1:2] - Zmajor[:, 1].unsqueeze(0)) / h1)
print("   with dim-0-major ordering of the inducing values: mean %.1e cov %.1e ; strategy.inducing_points is dim-0-major? %s" % (
    (out.mean - W2 @ mg).abs().max(), (out.covariance_matrix - W2 @ Sg @ W2.T).abs().max(), bool(torch.allclose(Zg, Zmajor))))

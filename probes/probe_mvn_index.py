#!/venv/bin/python
"""Design-phase probe (NOT part of the machinery): exhaustive index expressions on a small
MultivariateNormal / MultitaskMultivariateNormal against the 'marginal of selected components' oracle."""
import itertools
import sys
import warnings
from collections import Counter

import torch

warnings.filterwarnings("ignore")
import gpytorch  # noqa: E402
from gpytorch.distributions import MultitaskMultivariateNormal as MT, MultivariateNormal as MVN  # noqa: E402
from linear_operator.operators import DenseLinearOperator  # noqa: E402

torch.set_default_dtype(torch.float64)
torch.manual_seed(0)


def dim_indices(size, tensors=True):
    out = list(range(-size, size))
    vals = [None, 0, 1, 2, -1, -2, size, size + 3, -size - 3]
    for a, b, c in itertools.product(vals, vals, [None, 1, 2]):
        out.append(slice(a, b, c))
    if tensors:
        out.append(torch.tensor([0]))
        out.append(torch.tensor([size - 1, 0]))
        out.append(torch.tensor([0, 0, size - 1]))
    return out


def fmt(idx):
    return "(" + ", ".join("T" + str(i.tolist()) if torch.is_tensor(i) else ("..." if i is Ellipsis else (f"{i.start}:{i.stop}:{i.step}" if isinstance(i, slice) else str(i))) for i in idx) + ")"


def probe_mvn(lazy):
    B, N = 2, 3
    mean = torch.randn(B, N)
    A = torch.randn(B, N, N)
    C = A @ A.transpose(-1, -2) + torch.eye(N)
    d = MVN(mean, DenseLinearOperator(C) if lazy else C)
    stats = Counter()
    bad = []
    for bi, ni in itertools.product(dim_indices(B), dim_indices(N)):
        idx = (bi, ni)
        try:
            em = mean[idx]
        except Exception:  # noqa: BLE001
            stats["torch-rejects"] += 1
            continue
        if em.dim() == 0 or em.numel() == 0:
            stats["scalar/empty-skip"] += 1
            continue
        if torch.is_tensor(bi) and torch.is_tensor(ni):
            stats["two-tensors-skip"] += 1
            continue
        # oracle covariance
        if isinstance(ni, int):
            # event dim removed: remaining batch dim becomes event, independent entries
            var = C.diagonal(dim1=-1, dim2=-2)[idx]
            ec = torch.diag_embed(var)
        else:
            ec = C[bi]
            ec = ec[..., ni, :][..., :, ni]
        try:
            s = d[idx]
            gm, gc = s.mean, s.covariance_matrix
        except Exception as e:  # noqa: BLE001
            stats["lib-raises:" + type(e).__name__] += 1
            if len(bad) < 6:
                bad.append((fmt(idx), "RAISE", type(e).__name__, str(e)[:80]))
            continue
        ok = gm.shape == em.shape and torch.equal(gm, em) and gc.shape == ec.shape and torch.allclose(gc, ec)
        stats["ok" if ok else "MISMATCH"] += 1
        if not ok and len(bad) < 12:
            bad.append((fmt(idx), tuple(gm.shape), tuple(em.shape), tuple(gc.shape), tuple(ec.shape)))
    print("MVN lazy=%s" % lazy, dict(stats))
    for b in bad:
        print("   ", b)


def probe_mt(inter):
    n, t = 3, 2
    A = torch.randn(n * t, n * t)
    C = A @ A.T + torch.eye(n * t)
    mean = torch.randn(n, t)
    d = MT(mean, C, interleaved=inter)
    flat = (lambda i, a: i * t + a) if inter else (lambda i, a: a * n + i)
    stats = Counter()
    bad = []
    for ri, ci in itertools.product(dim_indices(n), dim_indices(t)):
        idx = (ri, ci)
        try:
            em = mean[idx]
        except Exception:  # noqa: BLE001
            stats["torch-rejects"] += 1
            continue
        if em.dim() == 0 or em.numel() == 0:
            stats["scalar/empty-skip"] += 1
            continue
        pts = torch.arange(n)[ri].reshape(-1)
        tks = torch.arange(t)[ci].reshape(-1)
        try:
            s = d[idx]
            gm, gc = s.mean, s.covariance_matrix
        except Exception as e:  # noqa: BLE001
            stats["lib-raises:" + type(e).__name__] += 1
            if len(bad) < 6:
                bad.append((fmt(idx), "RAISE", type(e).__name__, str(e)[:80]))
            continue
        if torch.is_tensor(ri) and torch.is_tensor(ci):
            if len(pts) != len(tks):
                stats["two-tensors-unequal-skip"] += 1
                continue
            sel = [flat(int(i), int(a)) for i, a in zip(pts, tks)]
        elif isinstance(s, MT) and not s._interleaved:
            sel = [flat(int(i), int(a)) for a in tks for i in pts]
        else:
            sel = [flat(int(i), int(a)) for i in pts for a in tks]
        sel = torch.tensor(sel)
        ec = C[sel][:, sel]
        ok = gm.shape == em.shape and torch.equal(gm, em) and gc.shape == ec.shape and torch.allclose(gc, ec)
        stats["ok" if ok else "MISMATCH"] += 1
        if not ok and len(bad) < 10:
            bad.append((fmt(idx), tuple(gc.shape), tuple(ec.shape)))
    print("MTMVN interleaved=%s" % inter, dict(stats))
    for b in bad:
        print("   ", b)


probe_mvn(False)
probe_mvn(True)
probe_mt(True)
probe_mt(False)

#!/venv/bin/python
"""Design-phase probe (NOT part of the machinery): indexing a LazyEvaluatedKernelTensor vs indexing the
dense matrix, exhaustively over a finite family of index expressions, for single- and multi-output kernels."""
import itertools
import sys
import warnings
from collections import Counter

import torch

warnings.filterwarnings("ignore")
import gpytorch  # noqa: E402
from gpytorch import kernels as K  # noqa: E402

torch.set_default_dtype(torch.float64)
torch.manual_seed(0)


def dim_indices(size):
    out = [0, size - 1, -1, -size]
    vals = [None, 1, 2, -1, size + 2]
    for a, b, c in itertools.product(vals, vals, [None, 2]):
        if a is None and b is None and c is None:
            out.append(slice(a, b, c))
        elif not (a is not None and b is not None and a == b):
            out.append(slice(a, b, c))
    out.append(torch.tensor([0]))
    out.append(torch.tensor([size - 1, 0]))
    out.append(torch.tensor([0, 0, size - 1]))
    return out


def fmt(idx):
    return "(" + ", ".join("T" + str(i.tolist()) if torch.is_tensor(i) else ("..." if i is Ellipsis else (f"{i.start}:{i.stop}:{i.step}" if isinstance(i, slice) else str(i))) for i in idx) + ")"


def run(name, kernel, x1, x2):
    lazy = kernel(x1, x2)
    dense = lazy.to_dense().detach()
    lazy = kernel(x1, x2)  # fresh, not evaluated
    stats = Counter(); bad = []
    shape = dense.shape
    per_dim = [dim_indices(s) for s in shape]
    combos = itertools.product(*per_dim)
    for idx in combos:
        ntens = sum(torch.is_tensor(i) for i in idx)
        if ntens > 1 and len({len(i) for i in idx if torch.is_tensor(i)}) > 1:
            stats["skip-unbroadcastable-tensors"] += 1
            continue
        try:
            exp = dense[idx]
        except Exception:  # noqa: BLE001
            stats["torch-rejects"] += 1
            continue
        if exp.numel() == 0:
            stats["empty-skip"] += 1
            continue
        try:
            got = kernel(x1, x2)[idx]
            got = got.to_dense() if hasattr(got, "to_dense") else got
        except Exception as e:  # noqa: BLE001
            key = "raises:" + type(e).__name__ + ":" + str(e)[:50]
            stats[key] += 1
            if sum(1 for b in bad if b[1] == "RAISE") < 5:
                bad.append((fmt(idx), "RAISE", type(e).__name__, str(e)[:90]))
            continue
        ok = got.shape == exp.shape and torch.allclose(got, exp, atol=1e-10)
        stats["ok" if ok else "MISMATCH"] += 1
        if not ok and sum(1 for b in bad if b[1] != "RAISE") < 8:
            bad.append((fmt(idx), tuple(got.shape), tuple(exp.shape)))
    print(name, dict(stats))
    for b in bad:
        print("    ", b)


rbf = K.RBFKernel(batch_shape=torch.Size([2]), active_dims=[0, 2]); rbf.lengthscale = torch.tensor([[[0.5]], [[1.5]]])
run("RBF batch-kernel+active_dims, x (4x3)/(3x3) unbatched", rbf, torch.randn(4, 3), torch.randn(3, 3))
run("RBF batch-kernel, x batched", rbf, torch.randn(2, 4, 3), torch.randn(2, 3, 3))
mk = K.MultitaskKernel(K.MaternKernel(nu=1.5), num_tasks=2, rank=1)
run("Multitask 3x2 pts, 2 tasks", mk, torch.randn(3, 2), torch.randn(2, 2))
gk = K.RBFKernelGrad()
run("RBFGrad d=1", gk, torch.randn(3, 1), torch.randn(2, 1))
sk = K.ScaleKernel(K.RBFKernel() + K.LinearKernel(), batch_shape=torch.Size([2])); sk.outputscale = torch.tensor([0.5, 2.0])
run("Scale(RBF+Linear) batch scale only", sk, torch.randn(3, 2), torch.randn(3, 2))

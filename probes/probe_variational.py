#!/venv/bin/python
"""Design-phase probe (NOT part of the machinery): q(f), KL, ELBO <= log marginal, collapsed bound,
one natural-gradient step, for whitened / unwhitened strategies.  Calibrates C14/C15."""
import math
import sys
import warnings

import torch

warnings.filterwarnings("ignore")
import gpytorch  # noqa: E402
from gpytorch import variational as V  # noqa: E402

torch.set_default_dtype(torch.float64)
torch.manual_seed(int(sys.argv[1]) if len(sys.argv) > 1 else 0)
JIT = 1e-8


class SVGP(gpytorch.models.ApproximateGP):
    def __init__(self, Z, strat_cls, dist_cls, **kw):
        dist = dist_cls(Z.size(-2))
        strat = strat_cls(self, Z, dist, learn_inducing_locations=True, jitter_val=JIT, **kw)
        super().__init__(strat)
        self.mean_module = gpytorch.means.ConstantMean()
        self.covar_module = gpytorch.kernels.ScaleKernel(gpytorch.kernels.RBFKernel())
        self.mean_module.constant = 0.3
        self.covar_module.outputscale = 1.7
        self.covar_module.base_kernel.lengthscale = 0.8

    def forward(self, x):
        return gpytorch.distributions.MultivariateNormal(self.mean_module(x), self.covar_module(x))


def kern(a, b):
    return 1.7 * torch.exp(-0.5 * ((a.unsqueeze(-2) - b.unsqueeze(-3)) / 0.8).pow(2).sum(-1))


def kl_mvn(m0, S0, m1, S1):
    k = m0.numel()
    return 0.5 * (torch.trace(torch.linalg.solve(S1, S0)) + (m1 - m0) @ torch.linalg.solve(S1, m1 - m0) - k + torch.logdet(S1) - torch.logdet(S0))


M, N, d = 4, 7, 2
Z = torch.randn(M, d)
X = torch.randn(N, d)
y = torch.randn(N)
Kzz = kern(Z, Z) + JIT * torch.eye(M)
Kxz = kern(X, Z)
Kxx = kern(X, X)
L = torch.linalg.cholesky(Kzz)
mz, mx = torch.full((M,), 0.3), torch.full((N,), 0.3)
# random whitened q: m', S'
mw = torch.randn(M)
Lw = torch.tril(torch.randn(M, M)) * 0.3 + torch.eye(M)
Sw = Lw @ Lw.T
mu_u = mz + L @ mw
S_u = L @ Sw @ L.T


def qf(mu_u, S_u):
    A = torch.linalg.solve(Kzz, Kxz.T).T  # Kxz Kzz^-1
    return mx + A @ (mu_u - mz), Kxx - A @ (Kzz - S_u) @ A.T


em, ec = qf(mu_u, S_u)
# whitened
mod = SVGP(Z, V.VariationalStrategy, V.CholeskyVariationalDistribution)
mod.variational_strategy.variational_params_initialized.fill_(1)
mod.variational_strategy._variational_distribution.variational_mean.data = mw.clone()
mod.variational_strategy._variational_distribution.chol_variational_covar.data = Lw.clone()
mod.eval()
out = mod(X)
print("whitened   mean err %.2e cov err %.2e (cov-jitter err %.2e)" % (
    (out.mean - em).abs().max(), (out.covariance_matrix - ec).abs().max(),
    (out.covariance_matrix - JIT * torch.eye(N) - ec).abs().max()))
print("whitened   KL err %.2e" % (mod.variational_strategy.kl_divergence() - kl_mvn(mw, Sw, torch.zeros(M), torch.eye(M))).abs())
print("   == KL(q(u)||p(u)) err %.2e" % (kl_mvn(mu_u, S_u, mz, Kzz) - kl_mvn(mw, Sw, torch.zeros(M), torch.eye(M))).abs())
# unwhitened
mod2 = SVGP(Z, V.UnwhitenedVariationalStrategy, V.CholeskyVariationalDistribution)
mod2.variational_strategy.variational_params_initialized.fill_(1)
mod2.variational_strategy._variational_distribution.variational_mean.data = mu_u.clone()
mod2.variational_strategy._variational_distribution.chol_variational_covar.data = torch.linalg.cholesky(S_u)
mod2.eval()
out2 = mod2(X)
print("unwhitened mean err %.2e cov err %.2e" % ((out2.mean - em).abs().max(), (out2.covariance_matrix - ec).abs().max()))
print("unwhitened eval-mode KL err vs KL(q||N(mz,Kzz+JIT)) %.2e" % (mod2.variational_strategy.kl_divergence() - kl_mvn(mu_u, S_u, mz, Kzz)).abs())
mod2.train(); o = mod2(X)
print("unwhitened train-mode KL err %.2e ; train var err %.2e" % ((mod2.variational_strategy.kl_divergence() - kl_mvn(mu_u, S_u, mz, Kzz)).abs(), (o.variance - ec.diagonal()).abs().max()))

# ELBO
s2 = 0.25
lik = gpytorch.likelihoods.GaussianLikelihood(); lik.noise = s2
mod.train(); lik.train()
for beta, Ndecl, idx in [(1.0, N, list(range(N))), (0.5, 50, [0, 2, 5])]:
    elbo = gpytorch.mlls.VariationalELBO(lik, mod, num_data=Ndecl, beta=beta)
    val = elbo(mod(X[idx]), y[idx])
    fm, fv = em[idx], ec.diagonal()[idx] + JIT
    ell = (-0.5 * math.log(2 * math.pi * s2) - 0.5 * ((y[idx] - fm) ** 2 + fv) / s2).sum() / len(idx)
    ref = ell - beta / Ndecl * kl_mvn(mw, Sw, torch.zeros(M), torch.eye(M))
    print("ELBO err (beta=%s,N=%d,B=%d) %.2e" % (beta, Ndecl, len(idx), (val - ref).abs()))
    pll = gpytorch.mlls.PredictiveLogLikelihood(lik, mod, num_data=Ndecl, beta=beta)
    val = pll(mod(X[idx]), y[idx])
    lm = (-0.5 * torch.log(2 * math.pi * (fv + s2)) - 0.5 * (y[idx] - fm) ** 2 / (fv + s2)).sum() / len(idx)
    print("PLL  err %.2e" % (val - (lm - beta / Ndecl * kl_mvn(mw, Sw, torch.zeros(M), torch.eye(M)))).abs())

# bound + collapsed bound
logml = torch.distributions.MultivariateNormal(mx, Kxx + s2 * torch.eye(N)).log_prob(y)
elbo = gpytorch.mlls.VariationalELBO(lik, mod, num_data=N)
print("N*ELBO(random q) = %.6f <= logML = %.6f" % (N * elbo(mod(X), y), logml))
Qxx = Kxz @ torch.linalg.solve(Kzz, Kxz.T)
titsias = torch.distributions.MultivariateNormal(mx, Qxx + s2 * torch.eye(N)).log_prob(y) - 0.5 / s2 * torch.trace(Kxx - Qxx)
# optimal q(u)
Sig = torch.linalg.inv(Kzz + Kxz.T @ Kxz / s2)
mu_opt = mz + Kzz @ Sig @ Kxz.T @ (y - mx) / s2
S_opt = Kzz @ Sig @ Kzz
mw_opt = torch.linalg.solve(L, mu_opt - mz)
Sw_opt = torch.linalg.solve(L, torch.linalg.solve(L, S_opt).T).T
mod.variational_strategy._variational_distribution.variational_mean.data = mw_opt.clone()
mod.variational_strategy._variational_distribution.chol_variational_covar.data = torch.linalg.cholesky((Sw_opt + Sw_opt.T) / 2)
print("N*ELBO(q*) - Titsias = %.2e ; Titsias <= logML: %s" % (N * elbo(mod(X), y) - titsias, bool(titsias <= logml)))

# NGD single step
mod3 = SVGP(Z, V.VariationalStrategy, V.NaturalVariationalDistribution)
mod3.train()
_ = mod3(X)  # initialise
vd = mod3.variational_strategy._variational_distribution
S0 = Sw; m0 = mw
vd.natural_vec.data = torch.linalg.solve(S0, m0)
vd.natural_mat.data = -0.5 * torch.linalg.inv(S0)
opt = gpytorch.optim.NGD(mod3.variational_parameters(), num_data=N, lr=1.0)
opt.zero_grad()
loss = -gpytorch.mlls.VariationalELBO(lik, mod3, num_data=N)(mod3(X), y)
loss.backward()
opt.step()
S1 = torch.linalg.inv(-2 * vd.natural_mat.data)
m1 = S1 @ vd.natural_vec.data
print("NGD one step: |m-m*| %.2e |S-S*| %.2e" % ((m1 - mw_opt).abs().max(), (S1 - Sw_opt).abs().max()))

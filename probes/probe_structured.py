#!/venv/bin/python
"""Design-phase probe (NOT part of the machinery): SGPR / KISS-GP / RFF prediction strategies and
training objective against dense formulas on the approximate kernel matrix; cubic interpolation laws."""
import itertools
import math
import sys
import warnings

import torch

warnings.filterwarnings("ignore")
import gpytorch  # noqa: E402
from gpytorch import settings as S  # noqa: E402

torch.set_default_dtype(torch.float64)
torch.manual_seed(int(sys.argv[1]) if len(sys.argv) > 1 else 0)


class GP(gpytorch.models.ExactGP):
    def __init__(self, x, y, lik, kernel):
        super().__init__(x, y, lik)
        self.mean_module = gpytorch.means.ConstantMean()
        self.covar_module = kernel

    def forward(self, x):
        return gpytorch.distributions.MultivariateNormal(self.mean_module(x), self.covar_module(x))


def dense_cond(Kxx, Kxs, Kss, mx, ms, y, noise):
    A = Kxx + noise * torch.eye(Kxx.shape[-1])
    mean = ms + Kxs.T @ torch.linalg.solve(A, y - mx)
    cov = Kss - Kxs.T @ torch.linalg.solve(A, Kxs)
    return mean, cov


n, ns, d = 9, 5, 2
X = torch.rand(n, d); y = torch.randn(n); Xs = torch.rand(ns, d)
s2 = 0.15

# ---------------- SGPR
base = gpytorch.kernels.ScaleKernel(gpytorch.kernels.RBFKernel()); base.outputscale = 1.4; base.base_kernel.lengthscale = 0.5
lik = gpytorch.likelihoods.GaussianLikelihood(); lik.noise = s2
Z = torch.rand(4, d)
ipk = gpytorch.kernels.InducingPointKernel(base, Z.clone(), lik)
m = GP(X, y, lik, ipk); m.mean_module.constant = 0.2
kb = lambda a, b: base(a, b).to_dense().detach()  # noqa: E731
Kzz = kb(Z, Z); Kxz = kb(X, Z); Ksz = kb(Xs, Z)
Qxx = Kxz @ torch.linalg.solve(Kzz, Kxz.T); Qxs = Kxz @ torch.linalg.solve(Kzz, Ksz.T); Qss = Ksz @ torch.linalg.solve(Kzz, Ksz.T)
m.train()
check = (ipk(X).to_dense() - Qxx).abs().max()
mll = gpytorch.mlls.ExactMarginalLogLikelihood(lik, m)
val = mll(m(X), y)
mx = torch.full((n,), 0.2); ms = torch.full((ns,), 0.2)
tits = torch.distributions.MultivariateNormal(mx, Qxx + s2 * torch.eye(n)).log_prob(y) - 0.5 / s2 * torch.trace(kb(X, X) - Qxx)
print("SGPR train kernel==Nystrom %.2e ; mll*n - Titsias %.2e" % (check, (val * n - tits).abs()))
for corr, lazy, fpv in itertools.product([True, False], [True, False], [True, False]):
    m.train(); m.eval()
    with S.sgpr_diagonal_correction(corr), S.lazily_evaluate_kernels(lazy), S.fast_pred_var(fpv), torch.no_grad():
        out = m(Xs)
        gm, gc = out.mean, out.covariance_matrix
        Ktt = ipk(X).to_dense()  # eval-mode train-train (with correction if on)
    em, ec_vfe = dense_cond(Ktt, Qxs, kb(Xs, Xs), mx, ms, y, s2)
    _, ec_q = dense_cond(Ktt, Qxs, Qss, mx, ms, y, s2)
    print(f"SGPR corr={corr} lazy={lazy} fpv={fpv}: mean err {(gm-em).abs().max():.2e}  cov err vs K** form {(gc-ec_vfe).abs().max():.2e}  vs Q** form {(gc-ec_q).abs().max():.2e}")

# ---------------- KISS-GP
base2 = gpytorch.kernels.RBFKernel(); base2.lengthscale = 0.4
gik = gpytorch.kernels.GridInterpolationKernel(base2, grid_size=12, grid_bounds=[(0.0, 1.0), (0.0, 1.0)])
sk = gpytorch.kernels.ScaleKernel(gik); sk.outputscale = 1.3
lik2 = gpytorch.likelihoods.GaussianLikelihood(); lik2.noise = s2
m2 = GP(X, y, lik2, sk); m2.mean_module.constant = 0.2
with torch.no_grad(), S.lazily_evaluate_kernels(False):
    Kf = sk(torch.cat([X, Xs])).to_dense()
em, ec = dense_cond(Kf[:n, :n], Kf[:n, n:], Kf[n:, n:], mx, ms, y, s2)
for fpv, fps, mcs in itertools.product([False, True], [False, True], [800, 0]):
    m2.train(); m2.eval()
    with S.fast_pred_var(fpv), S.fast_pred_samples(fps), S.max_cholesky_size(mcs), S.eval_cg_tolerance(1e-10), S.cg_tolerance(1e-10), S.max_root_decomposition_size(200), torch.no_grad():
        try:
            out = m2(Xs)
            gm, gc = out.mean, out.covariance_matrix
            print(f"KISS fpv={fpv} fps={fps} max_chol={mcs}: mean err {(gm-em).abs().max():.2e} cov err {(gc-ec).abs().max():.2e}")
        except Exception as e:  # noqa: BLE001
            print(f"KISS fpv={fpv} fps={fps} max_chol={mcs}: EXC {type(e).__name__} {str(e)[:100]}")

# ---------------- RFF
rk = gpytorch.kernels.ScaleKernel(gpytorch.kernels.RFFKernel(num_samples=6, num_dims=d)); rk.outputscale = 0.9; rk.base_kernel.lengthscale = 0.6
lik3 = gpytorch.likelihoods.GaussianLikelihood(); lik3.noise = s2
m3 = GP(X, y, lik3, rk); m3.mean_module.constant = 0.2
with torch.no_grad(), S.lazily_evaluate_kernels(False):
    Kf = rk(torch.cat([X, Xs])).to_dense()
em, ec = dense_cond(Kf[:n, :n], Kf[:n, n:], Kf[n:, n:], mx, ms, y, s2)
m3.eval()
with torch.no_grad():
    out = m3(Xs)
print("RFF: mean err %.2e cov err %.2e" % ((out.mean - em).abs().max(), (out.covariance_matrix - ec).abs().max()))

# ---------------- interpolation laws
from gpytorch.utils.interpolation import Interpolation  # noqa: E402

for gsz in (10, 20, 40):
    grid = [torch.linspace(-0.2, 1.2, gsz), torch.linspace(-1.0, 3.0, gsz + 5)]
    xt = torch.rand(50, 2); xt[:, 1] = xt[:, 1] * 3.0 - 0.5
    idx, val = Interpolation().interpolate(grid, xt)
    G0, G1 = torch.meshgrid(grid[0], grid[1], indexing="ij")
    def interp(fvals):  # noqa: E306
        return (fvals.reshape(-1)[idx] * val).sum(-1)
    f_quad = lambda a, b: 1 + 2 * a - b + 0.5 * a * a - a * b + 0.3 * b * b  # noqa: E731
    f_smooth = lambda a, b: torch.sin(2 * a) * torch.cos(b)  # noqa: E731
    print(f"grid {gsz}: rowsum err {(val.sum(-1)-1).abs().max():.2e} quad err {(interp(f_quad(G0,G1))-f_quad(xt[:,0],xt[:,1])).abs().max():.2e} smooth err {(interp(f_smooth(G0,G1))-f_smooth(xt[:,0],xt[:,1])).abs().max():.2e}")
# exact at nodes
grid = [torch.linspace(0, 1, 8)]
idx, val = Interpolation().interpolate(grid, grid[0].unsqueeze(-1))
W = torch.zeros(8, 8); W.scatter_add_(1, idx, val)
print("node exactness err %.2e" % (W - torch.eye(8)).abs().max())

#!/venv/bin/python
"""Design-phase probe (NOT part of the machinery): batch mode == independent replicas, for broadcast
patterns between parameter batch shape and data batch shape (exact GP posterior + MLL, kernels)."""
import itertools
import sys
import warnings

import torch

warnings.filterwarnings("ignore")
import gpytorch  # noqa: E402
from gpytorch import kernels as K  # noqa: E402

torch.set_default_dtype(torch.float64)
torch.manual_seed(int(sys.argv[1]) if len(sys.argv) > 1 else 0)


class GP(gpytorch.models.ExactGP):
    def __init__(self, x, y, lik, pb):
        super().__init__(x, y, lik)
        self.mean_module = gpytorch.means.ConstantMean(batch_shape=pb)
        self.covar_module = K.ScaleKernel(K.RQKernel(ard_num_dims=2, batch_shape=pb), batch_shape=pb)

    def forward(self, x):
        return gpytorch.distributions.MultivariateNormal(self.mean_module(x), self.covar_module(x))


def build(pb, X, Y, vals=None):
    pb = torch.Size(pb)
    lik = gpytorch.likelihoods.GaussianLikelihood(batch_shape=pb)
    m = GP(X, Y, lik, pb)
    if vals is None:
        vals = dict(
            ls=torch.rand(*pb, 1, 2) + 0.5, alpha=torch.rand(*pb, 1) + 0.5, os=torch.rand(*pb) + 0.5 if len(pb) else torch.rand(()) + 0.5,
            c=torch.randn(*pb) if len(pb) else torch.randn(()), noise=torch.rand(*pb, 1) * 0.3 + 0.05,
        )
    m.covar_module.base_kernel.lengthscale = vals["ls"]; m.covar_module.base_kernel.alpha = vals["alpha"]
    m.covar_module.outputscale = vals["os"]; m.mean_module.constant = vals["c"]; lik.noise = vals["noise"]
    return m, vals


n, ns, d = 5, 3, 2
patterns = [((2,), (2,)), ((2,), ()), ((), (3,)), ((2, 1), (3,)), ((1,), (3,)), ((2,), (3, 1)), ((3, 2), (2,)), ((2,), (3, 2))]
for pb, db in patterns:
    try:
        X = torch.randn(*db, n, d); Y = torch.randn(*db, n); Xs = torch.randn(*db, ns, d)
        m, vals = build(pb, X, Y)
        full = torch.broadcast_shapes(torch.Size(pb), torch.Size(db))
        m.train()
        try:
            mll = gpytorch.mlls.ExactMarginalLogLikelihood(m.likelihood, m)(m(X), Y)
        except Exception as e:  # noqa: BLE001
            mll = None; print(f"pb={pb} db={db}: MLL EXC {type(e).__name__} {str(e)[:80]}")
        m.eval()
        with torch.no_grad():
            out = m(Xs); gm, gc = out.mean, out.covariance_matrix
        worst = 0; worst_mll = 0
        for beta in itertools.product(*[range(s) for s in full]):
            def sl(t, extra):
                # slice a tensor with leading batch dims (broadcast to full) at beta
                bs = t.shape[: t.dim() - extra]
                t = t.expand(*full, *t.shape[t.dim() - extra:]) if len(bs) else t
                return t[beta] if len(bs) else t
            v1 = dict(ls=sl(vals["ls"], 2), alpha=sl(vals["alpha"], 1), os=sl(vals["os"], 0), c=sl(vals["c"], 0), noise=sl(vals["noise"], 1))
            Xb = sl(X, 2); Yb = sl(Y, 1); Xsb = sl(Xs, 2)
            r, _ = build((), Xb, Yb, v1)
            r.train(); rm = gpytorch.mlls.ExactMarginalLogLikelihood(r.likelihood, r)(r(Xb), Yb)
            r.eval()
            with torch.no_grad():
                ro = r(Xsb)
            worst = max(worst, (gm.expand(*full, ns)[beta] - ro.mean).abs().max().item(), (gc.expand(*full, ns, ns)[beta] - ro.covariance_matrix).abs().max().item())
            if mll is not None:
                worst_mll = max(worst_mll, (mll.expand(full)[beta] - rm).abs().item())
        print(f"pb={pb} db={db}: out batch {tuple(gm.shape[:-1])} posterior worst {worst:.1e} mll shape {None if mll is None else tuple(mll.shape)} worst {worst_mll:.1e}")
    except Exception as e:  # noqa: BLE001
        import traceback
        fr = [f for f in traceback.extract_tb(e.__traceback__) if "/repo/gpytorch" in f.filename]
        print(f"pb={pb} db={db}: EXC {type(e).__name__} {str(e)[:100]} @ {fr[-1].filename.split('/')[-1] + ':' + str(fr[-1].lineno) if fr else 'harness'}")

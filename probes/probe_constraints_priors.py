#!/venv/bin/python
"""Design-phase probe (NOT part of the machinery): constraint ranges/monotonicity/round trips over the whole
float range; every public setter of every module with a constrained parameter; prior densities vs scipy."""
import inspect
import math
import sys
import warnings

import numpy as np
import scipy.integrate
import scipy.stats
import torch

warnings.filterwarnings("ignore")
import gpytorch  # noqa: E402
from gpytorch import constraints as C, kernels as K, likelihoods as L, means as M, priors as P  # noqa: E402

torch.set_default_dtype(torch.float64)

raw = torch.tensor(sorted([0.0, 1e-300, -1e-300, 1e-8, -1e-8, 0.5, -0.5, 3.0, -3.0, 20.0, -20.0, 40.0, -40.0, 800.0, -800.0, 1e30, -1e30, 1.7e308, -1.7e308]))
for name, c in [
    ("Interval(-2,3)", C.Interval(-2.0, 3.0)),
    ("Interval(tensor)", C.Interval(torch.tensor([0.0, 1.0]), torch.tensor([1.0, 5.0]))),
    ("GreaterThan(1e-4)", C.GreaterThan(1e-4)),
    ("Positive", C.Positive()),
    ("LessThan(2)", C.LessThan(2.0)),
]:
    r = raw.unsqueeze(-1) if c.lower_bound.numel() > 1 else raw
    t = c.transform(r)
    inb = bool(torch.all(t >= c.lower_bound) and torch.all(t <= c.upper_bound) and torch.isfinite(t).all())
    mono = bool(torch.all(t[1:] >= t[:-1]))
    mid = (raw.abs() <= 20) & (raw.abs() >= 1e-8) | (raw == 0)
    rt = (c.inverse_transform(t)[mid] - r[mid]).abs().max().item()
    print(f"{name:20s} in-bounds(closed)={inb} monotone={mono} inverse∘transform err on |raw|<=20: {rt:.1e}")

# ---- setters: discover (module, property) pairs with raw_<p> + constraint
def modules():
    yield "RBF", K.RBFKernel(ard_num_dims=2)
    yield "Matern", K.MaternKernel()
    yield "RQ", K.RQKernel()
    yield "Periodic", K.PeriodicKernel()
    yield "Cosine", K.CosineKernel()
    yield "Linear", K.LinearKernel()
    yield "Poly", K.PolynomialKernel(power=2)
    yield "Const", K.ConstantKernel()
    yield "Scale", K.ScaleKernel(K.RBFKernel())
    yield "SM", K.SpectralMixtureKernel(num_mixtures=2, ard_num_dims=1)
    yield "SD", K.SpectralDeltaKernel(num_dims=1, num_deltas=3)
    yield "Arc", K.ArcKernel(K.RBFKernel())
    yield "Cyl", K.CylindricalKernel(2, K.RBFKernel())
    yield "Hamming", K.HammingIMQKernel(vocab_size=3)
    yield "Index", K.IndexKernel(num_tasks=2)
    yield "NG", K.NewtonGirardAdditiveKernel(K.RBFKernel(), 2)
    yield "PP", K.PiecewisePolynomialKernel()
    yield "Gauss", L.GaussianLikelihood()
    yield "Fixed+", L.FixedNoiseGaussianLikelihood(torch.ones(3), learn_additional_noise=True)
    yield "MTGauss", L.MultitaskGaussianLikelihood(num_tasks=2)
    yield "Laplace", L.LaplaceLikelihood()
    yield "StudentT", L.StudentTLikelihood()
    yield "Beta", L.BetaLikelihood()
    yield "ConstMean", M.ConstantMean(constant_constraint=C.Interval(-1.0, 1.0))


for name, mod in modules():
    for mname, sub in mod.named_modules():
        for pname, par in list(sub.named_parameters(recurse=False)):
            if not pname.startswith("raw_"):
                continue
            pub = pname[4:]
            cons = sub.constraint_for_parameter_name(pname)
            if cons is None or not isinstance(getattr(type(sub), pub, None), property) or getattr(type(sub), pub).fset is None:
                print(f"  {name}.{mname}.{pub}: no setter/constraint (constraint={cons})")
                continue
            lo = float(cons.lower_bound.min()); hi = float(cons.upper_bound.max())
            v = lo + 0.37 * (min(hi, lo + 10) - lo)
            val = torch.full_like(par.data, v)
            try:
                setattr(sub, pub, val)
                back = getattr(sub, pub)
                ok = torch.allclose(back.detach().reshape(-1), val.reshape(-1), rtol=1e-10, atol=1e-12)
            except Exception as e:  # noqa: BLE001
                ok = f"EXC {type(e).__name__} {str(e)[:60]}"
            # out-of-bounds
            oob = lo - 1.0 if math.isfinite(lo) else hi + 1.0
            before = par.data.clone()
            try:
                setattr(sub, pub, torch.full_like(par.data, oob))
                rej = "ACCEPTED->" + str(getattr(sub, pub).detach().reshape(-1)[:2].tolist())
            except Exception as e:  # noqa: BLE001
                rej = "rejected(" + type(e).__name__ + ")" + (" param changed!" if not torch.equal(par.data, before) else "")
            if ok is not True or not rej.startswith("rejected(Runtime"):
                print(f"  {name}.{mname}.{pub}: roundtrip={ok} out-of-bounds {oob}: {rej}")
print("setter sweep done")

# ---- prior densities
x = torch.tensor([0.13, 0.9, 2.5])
checks = [
    ("Normal", P.NormalPrior(0.3, 1.7), scipy.stats.norm(0.3, 1.7).logpdf),
    ("LogNormal", P.LogNormalPrior(0.3, 0.8), scipy.stats.lognorm(s=0.8, scale=math.exp(0.3)).logpdf),
    ("Gamma", P.GammaPrior(2.5, 1.7), scipy.stats.gamma(a=2.5, scale=1 / 1.7).logpdf),
    ("HalfNormal", P.HalfNormalPrior(1.3), scipy.stats.halfnorm(scale=1.3).logpdf),
    ("HalfCauchy", P.HalfCauchyPrior(1.3), scipy.stats.halfcauchy(scale=1.3).logpdf),
    ("Uniform", P.UniformPrior(0.0, 3.0), scipy.stats.uniform(0.0, 3.0).logpdf),
]
for n, p, ref in checks:
    print(f"{n:12s} err {np.abs(p.log_prob(x).numpy() - ref(x.numpy())).max():.1e}")
sb = P.SmoothedBoxPrior(0.5, 2.0, sigma=0.2)
Z = scipy.integrate.quad(lambda v: math.exp(sb.log_prob(torch.tensor([v])).item()), -5, 8, points=[0.5, 2.0], epsabs=1e-12)[0]
print("SmoothedBox integral", Z)
hs = P.HorseshoePrior(0.7)
A = (0.7 / x) ** 2; Kc = 1 / math.sqrt(2 * math.pi**3)
print("Horseshoe err %.1e" % (hs.log_prob(x) - torch.log((Kc / 2 * torch.log(1 + 4 * A) + Kc * torch.log(1 + 2 * A)) / 2)).abs().max())
mv = P.MultivariateNormalPrior(torch.tensor([0.1, -0.2]), torch.tensor([[1.0, 0.3], [0.3, 2.0]]))
print("MVN err %.1e" % abs(mv.log_prob(torch.tensor([0.4, 0.5])).item() - scipy.stats.multivariate_normal([0.1, -0.2], [[1.0, 0.3], [0.3, 2.0]]).logpdf([0.4, 0.5])))
from gpytorch.priors.wishart_prior import InverseWishartPrior, WishartPrior  # noqa: E402
Km = torch.tensor([[1.0, 0.2], [0.2, 0.7]]); Xm = torch.tensor([[1.3, -0.1], [-0.1, 0.6]])
print("Wishart err %.2e" % abs(WishartPrior(4.0, Km).log_prob(Xm).item() - scipy.stats.wishart(df=4, scale=Km.numpy()).logpdf(Xm.numpy())))
print("InvWishart(gpytorch nu -> df=nu+n-1) err %.2e" % abs(InverseWishartPrior(3.0, Km).log_prob(Xm).item() - scipy.stats.invwishart(df=3 + 2 - 1, scale=Km.numpy()).logpdf(Xm.numpy())))
# sample_from_prior round trip
k = K.RBFKernel(lengthscale_prior=P.GammaPrior(3.0, 2.0))
torch.manual_seed(5); expv = k.lengthscale_prior.sample()
torch.manual_seed(5); k.sample_from_prior("lengthscale_prior")
print("sample_from_prior stores sample:", torch.allclose(k.lengthscale.reshape(-1), expv.reshape(-1)))

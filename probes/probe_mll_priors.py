#!/venv/bin/python
"""Design-phase probe (NOT part of the machinery): exact MLL with priors / batch / multitask / fixed noise
against the dense definition (C02), values and gradients."""
import math
import sys
import warnings

import scipy.stats
import torch

warnings.filterwarnings("ignore")
import gpytorch  # noqa: E402
from gpytorch import kernels as K, priors as P  # noqa: E402

torch.set_default_dtype(torch.float64)
torch.manual_seed(int(sys.argv[1]) if len(sys.argv) > 1 else 0)


class GP(gpytorch.models.ExactGP):
    def __init__(self, x, y, lik, pb):
        super().__init__(x, y, lik)
        self.mean_module = gpytorch.means.ConstantMean(batch_shape=pb, constant_prior=P.NormalPrior(0.2, 1.5))
        self.covar_module = K.ScaleKernel(
            K.RBFKernel(ard_num_dims=2, batch_shape=pb, lengthscale_prior=P.GammaPrior(2.0, 1.5)), batch_shape=pb, outputscale_prior=P.LogNormalPrior(0.1, 0.7)
        )

    def forward(self, x):
        return gpytorch.distributions.MultivariateNormal(self.mean_module(x), self.covar_module(x))


def dense_mll(X, Y, ls, os_, c, noise_diag):
    # non-batch
    n = X.shape[0]
    Kx = os_ * torch.exp(-0.5 * (((X.unsqueeze(1) - X.unsqueeze(0)) / ls) ** 2).sum(-1)) + torch.diag(noise_diag)
    r = Y - c
    ll = -0.5 * (r @ torch.linalg.solve(Kx, r) + torch.logdet(Kx) + n * math.log(2 * math.pi))
    return ll


n, d = 6, 2
for pb in [(), (2,), (2, 3)]:
    pb = torch.Size(pb)
    X = torch.randn(*pb, n, d); Y = torch.randn(*pb, n)
    lik = gpytorch.likelihoods.GaussianLikelihood(batch_shape=pb, noise_prior=P.HalfCauchyPrior(0.8))
    m = GP(X, Y, lik, pb)
    ls = torch.rand(*pb, 1, d) + 0.5; os_ = torch.rand(pb) + 0.5; c = torch.randn(pb); nz = torch.rand(*pb, 1) * 0.3 + 0.05
    m.covar_module.base_kernel.lengthscale = ls; m.covar_module.outputscale = os_; m.mean_module.constant = c; lik.noise = nz
    m.train()
    val = gpytorch.mlls.ExactMarginalLogLikelihood(lik, m)(m(X), Y)
    import itertools
    worst = 0
    for beta in itertools.product(*[range(s) for s in pb]):
        lsb, osb, cb, nzb = ls[beta][0], os_[beta], c[beta], nz[beta]
        ll = dense_mll(X[beta], Y[beta], lsb, osb, cb, nzb.expand(n))
        pri = (
            scipy.stats.gamma(a=2.0, scale=1 / 1.5).logpdf(lsb.numpy()).sum()
            + scipy.stats.lognorm(s=0.7, scale=math.exp(0.1)).logpdf(osb.item())
            + scipy.stats.norm(0.2, 1.5).logpdf(cb.item())
            + scipy.stats.halfcauchy(scale=0.8).logpdf(nzb.item())
        )
        ref = (ll + pri) / n
        worst = max(worst, abs((val[beta] if len(pb) else val).item() - ref.item()))
    print(f"batch {tuple(pb)}: MLL(+4 priors) worst err {worst:.1e} (shape {tuple(val.shape)})")

# fixed noise + learned; multitask kronecker with priors
X = torch.randn(n, d); Y = torch.randn(n)
fn = torch.rand(n) * 0.2 + 0.05
lik = gpytorch.likelihoods.FixedNoiseGaussianLikelihood(fn, learn_additional_noise=True)
lik.second_noise = 0.13
m = GP(X, Y, lik, torch.Size())
m.covar_module.base_kernel.lengthscale = torch.tensor([[0.7, 1.3]]); m.covar_module.outputscale = 1.2; m.mean_module.constant = 0.1
m.train()
val = gpytorch.mlls.ExactMarginalLogLikelihood(lik, m)(m(X), Y)
pri = scipy.stats.gamma(a=2.0, scale=1 / 1.5).logpdf([0.7, 1.3]).sum() + scipy.stats.lognorm(s=0.7, scale=math.exp(0.1)).logpdf(1.2) + scipy.stats.norm(0.2, 1.5).logpdf(0.1)
ref = (dense_mll(X, Y, torch.tensor([0.7, 1.3]), torch.tensor(1.2), torch.tensor(0.1), fn + 0.13) + pri) / n
print("fixed+learned noise MLL err %.1e" % abs(val.item() - ref.item()))

t = 2
class MT(gpytorch.models.ExactGP):
    def __init__(self, x, y, lik):
        super().__init__(x, y, lik)
        self.mean_module = gpytorch.means.MultitaskMean(gpytorch.means.ConstantMean(), num_tasks=t)
        self.covar_module = K.MultitaskKernel(K.RBFKernel(lengthscale_prior=P.GammaPrior(2.0, 1.5)), num_tasks=t, rank=1)
    def forward(self, x):
        return gpytorch.distributions.MultitaskMultivariateNormal(self.mean_module(x), self.covar_module(x))
Ym = torch.randn(n, t)
for rank in (0, 1):
    ml = gpytorch.likelihoods.MultitaskGaussianLikelihood(num_tasks=t, rank=rank, noise_prior=P.HalfCauchyPrior(0.8) if rank == 0 else None)
    mt = MT(X, Ym, ml); mt.train()
    val = gpytorch.mlls.ExactMarginalLogLikelihood(ml, mt)(mt(X), Ym)
    with torch.no_grad(), gpytorch.settings.lazily_evaluate_kernels(False):
        Kf = mt.covar_module(X).to_dense(); mf = mt.mean_module(X).reshape(-1)
        D = torch.diag(ml.task_noises) if rank == 0 else ml.task_noise_covar
        R = torch.kron(torch.eye(n), D + ml.noise * torch.eye(t))
    ll = torch.distributions.MultivariateNormal(mf, Kf + R).log_prob(Ym.reshape(-1))
    pri = scipy.stats.gamma(a=2.0, scale=1 / 1.5).logpdf(mt.covar_module.data_covar_module.lengthscale.item())
    if rank == 0:
        pri += scipy.stats.halfcauchy(scale=0.8).logpdf(ml.task_noises.detach().numpy()).sum() + scipy.stats.halfcauchy(scale=0.8).logpdf(ml.noise.item())
    print(f"multitask rank={rank} MLL err {abs(val.item() - (ll.item() + pri) / (n * t)):.1e}")

#!/venv/bin/python
"""Design-phase probe (NOT part of the checking machinery): compares library kernels with
formulas re-derived from the docstrings, on a few random float64 inputs.  Used to calibrate
tolerances and to find out which cells of C05 already disagree on the pinned tree."""
import itertools
import math
import sys
import warnings

import torch

warnings.filterwarnings("ignore")
import gpytorch  # noqa: E402
from gpytorch import kernels as K  # noqa: E402

torch.set_default_dtype(torch.float64)
torch.manual_seed(int(sys.argv[1]) if len(sys.argv) > 1 else 0)


def pair(x1, x2):
    # (..., n1, 1, d) - (..., 1, n2, d)
    return x1.unsqueeze(-2) - x2.unsqueeze(-3)


def sqd(x1, x2, ls):
    return (pair(x1, x2) / ls.unsqueeze(-2)).pow(2).sum(-1)


def ref_rbf(k, x1, x2):
    return torch.exp(-0.5 * sqd(x1, x2, k.lengthscale))


def ref_matern(k, x1, x2):
    r = sqd(x1, x2, k.lengthscale).sqrt()
    nu = k.nu
    e = torch.exp(-math.sqrt(2 * nu) * r)
    if nu == 0.5:
        return e
    if nu == 1.5:
        return (1 + math.sqrt(3) * r) * e
    return (1 + math.sqrt(5) * r + 5.0 / 3.0 * r**2) * e


def ref_rq(k, x1, x2):
    a = k.alpha.unsqueeze(-1)  # (...,1,1)
    return (1 + sqd(x1, x2, k.lengthscale) / (2 * a)).pow(-a)


def ref_periodic(k, x1, x2):
    diff = pair(x1, x2)  # ..., n1,n2,d
    p = k.period_length.unsqueeze(-2)
    lam = k.lengthscale.unsqueeze(-2)
    return torch.exp(-2 * (torch.sin(math.pi * diff / p).pow(2) / lam).sum(-1))


def ref_cosine(k, x1, x2):
    r = pair(x1, x2).pow(2).sum(-1).sqrt()
    return torch.cos(math.pi * r / k.period_length)


def ref_linear(k, x1, x2):
    v = k.variance  # ...,1,d or ...,1,1
    return ((x1 * v).unsqueeze(-2) * x2.unsqueeze(-3)).sum(-1)


def ref_poly(k, x1, x2):
    return ((x1.unsqueeze(-2) * x2.unsqueeze(-3)).sum(-1) + k.offset.unsqueeze(-1)).pow(k.power)


def ref_pp(k, x1, x2):
    r = sqd(x1, x2, k.lengthscale).sqrt()
    D = x1.shape[-1]
    q = k.q
    j = D // 2 + q + 1
    base = torch.clamp(1 - r, min=0.0)
    if q == 0:
        return base**j
    if q == 1:
        return base ** (j + 1) * ((j + 1) * r + 1)
    if q == 2:
        return base ** (j + 2) * (1 + (j + 2) * r + (j**2 + 4 * j + 3) / 3.0 * r**2)
    return base ** (j + 3) * (
        1 + (j + 3) * r + (6 * j**2 + 36 * j + 45) / 15.0 * r**2 + (j**3 + 9 * j**2 + 23 * j + 15) / 15.0 * r**3
    )


def ref_sm(k, x1, x2):
    tau = pair(x1, x2).unsqueeze(-4)  # ...,1,n1,n2,d
    w = k.mixture_weights  # ..., Q
    mu = k.mixture_means.unsqueeze(-2)  # ..., Q,1,1,d
    sc = k.mixture_scales.unsqueeze(-2)
    comp = torch.exp(-2 * math.pi**2 * tau**2 * sc**2) * torch.cos(2 * math.pi * tau * mu)  # ...,Q,n1,n2,d
    per_dim = (comp * w[..., None, None, None]).sum(-4)  # ..., n1,n2,d
    return per_dim.prod(-1)


def rand_x(n, d, batch=()):
    return torch.randn(*batch, n, d)


def check(name, got, exp, tol=1e-9):
    got = got.to_dense() if hasattr(got, "to_dense") else got
    if got.shape != exp.shape:
        print(f"{name:55s} SHAPE {tuple(got.shape)} vs {tuple(exp.shape)}")
        return
    err = (got - exp).abs().max().item()
    print(f"{name:55s} {'ok ' if err < tol else 'BAD'} maxerr={err:.2e}")


def setp(k, **kw):
    for n, v in kw.items():
        setattr(k, n, v)
    return k


def pos(*shape, lo=0.3, hi=2.5):
    return torch.rand(*shape) * (hi - lo) + lo


for batch, ard, d in itertools.product([(), (2,)], [False, True], [1, 3]):
    n1, n2 = 4, 3
    x1, x2 = rand_x(n1, d, batch), rand_x(n2, d, batch)
    ad = d if ard else None
    ld = d if ard else 1
    tag = f"b={batch} ard={ard} d={d}"
    k = setp(K.RBFKernel(ard_num_dims=ad, batch_shape=torch.Size(batch)), lengthscale=pos(*batch, 1, ld))
    check("RBF " + tag, k(x1, x2), ref_rbf(k, x1, x2))
    for nu in (0.5, 1.5, 2.5):
        k = setp(K.MaternKernel(nu=nu, ard_num_dims=ad, batch_shape=torch.Size(batch)), lengthscale=pos(*batch, 1, ld))
        check(f"Matern{nu} " + tag, k(x1, x2), ref_matern(k, x1, x2))
        check(f"Matern{nu} x1==x2 " + tag, k(x1, x1), ref_matern(k, x1, x1), tol=1e-6)
    k = setp(K.RQKernel(ard_num_dims=ad, batch_shape=torch.Size(batch)), lengthscale=pos(*batch, 1, ld), alpha=pos(*batch, 1))
    check("RQ " + tag, k(x1, x2), ref_rq(k, x1, x2))
    k = setp(
        K.PeriodicKernel(ard_num_dims=ad, batch_shape=torch.Size(batch)) if ard else K.PeriodicKernel(batch_shape=torch.Size(batch)),
        lengthscale=pos(*batch, 1, ld),
        period_length=pos(*batch, 1, ld),
    )
    check("Periodic " + tag, k(x1, x2), ref_periodic(k, x1, x2))
    check("Periodic diag " + tag, k(x1, diag=True), ref_periodic(k, x1, x1).diagonal(dim1=-1, dim2=-2))
    k = setp(K.CosineKernel(batch_shape=torch.Size(batch)), period_length=pos(*batch, 1, 1))
    check("Cosine " + tag, k(x1, x2), ref_cosine(k, x1, x2))
    k = setp(K.LinearKernel(ard_num_dims=ad, batch_shape=torch.Size(batch)), variance=pos(*batch, 1, ld))
    check("Linear " + tag, k(x1, x2), ref_linear(k, x1, x2))
    for power in (1, 2, 3):
        k = setp(K.PolynomialKernel(power=power, batch_shape=torch.Size(batch)), offset=pos(*batch, 1))
        check(f"Poly{power} " + tag, k(x1, x2), ref_poly(k, x1, x2))
    for q in range(4):
        k = setp(K.PiecewisePolynomialKernel(q=q, ard_num_dims=ad, batch_shape=torch.Size(batch)), lengthscale=pos(*batch, 1, ld, lo=2.0, hi=4.0))
        check(f"PiecewisePoly q={q} " + tag, k(x1, x2), ref_pp(k, x1, x2))
    Q = 2
    k = K.SpectralMixtureKernel(num_mixtures=Q, ard_num_dims=d, batch_shape=torch.Size(batch))
    k.mixture_weights = pos(*batch, Q)
    k.mixture_means = pos(*batch, Q, 1, d, lo=0.05, hi=0.6)
    k.mixture_scales = pos(*batch, Q, 1, d, lo=0.05, hi=0.6)
    check("SpectralMixture " + tag, k(x1, x2), ref_sm(k, x1, x2))
    check("SpectralMixture diag " + tag, k(x1, diag=True), ref_sm(k, x1, x1).diagonal(dim1=-1, dim2=-2))

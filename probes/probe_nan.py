#!/venv/bin/python
"""Design-phase probe (NOT part of the machinery): observation_nan_policy mask/fill vs deleting rows."""
import sys
import warnings

import torch

warnings.filterwarnings("ignore")
import gpytorch  # noqa: E402
from gpytorch import settings as S  # noqa: E402

torch.set_default_dtype(torch.float64)
torch.manual_seed(int(sys.argv[1]) if len(sys.argv) > 1 else 0)


class GP(gpytorch.models.ExactGP):
    def __init__(self, x, y, lik):
        super().__init__(x, y, lik)
        self.mean_module = gpytorch.means.ConstantMean()
        self.covar_module = gpytorch.kernels.ScaleKernel(gpytorch.kernels.RBFKernel())

    def forward(self, x):
        return gpytorch.distributions.MultivariateNormal(self.mean_module(x), self.covar_module(x))


class MTGP(gpytorch.models.ExactGP):
    def __init__(self, x, y, lik, t):
        super().__init__(x, y, lik)
        self.mean_module = gpytorch.means.MultitaskMean(gpytorch.means.ConstantMean(), num_tasks=t)
        self.covar_module = gpytorch.kernels.MultitaskKernel(gpytorch.kernels.RBFKernel(), num_tasks=t, rank=1)

    def forward(self, x):
        return gpytorch.distributions.MultitaskMultivariateNormal(self.mean_module(x), self.covar_module(x))


def copy_params(dst, src):
    dst.load_state_dict(src.state_dict())


n, ns = 7, 4
X = torch.randn(n, 2); y = torch.randn(n); Xs = torch.randn(ns, 2)
miss = torch.tensor([False, True, False, False, True, False, False])
ynan = y.clone(); ynan[miss] = float("nan")
lik = gpytorch.likelihoods.GaussianLikelihood(); lik.noise = 0.2
m = GP(X, ynan, lik); m.covar_module.base_kernel.lengthscale = 0.9; m.mean_module.constant = 0.4
lik2 = gpytorch.likelihoods.GaussianLikelihood(); m2 = GP(X[~miss], y[~miss], lik2)
m2.load_state_dict(m.state_dict())
m2.eval(); ref = m2(Xs)
for order in (["mask", "fill"], ["fill", "mask"]):
    m.train(); m.eval()
    for pol in order:
        with S.observation_nan_policy(pol), torch.no_grad():
            out = m(Xs)
            print(order, pol, "mean err %.2e cov err %.2e nan? %s" % ((out.mean - ref.mean).abs().max(), (out.covariance_matrix - ref.covariance_matrix).abs().max(), bool(torch.isnan(out.mean).any() or torch.isnan(out.covariance_matrix).any())))
m.train(); m2.train()
with S.observation_nan_policy("mask"):
    v = gpytorch.mlls.ExactMarginalLogLikelihood(lik, m)(m(X), ynan)
v2 = gpytorch.mlls.ExactMarginalLogLikelihood(lik2, m2)(m2(X[~miss]), y[~miss])
print("mll mask*N_total - mll_deleted*N_obs = %.2e ; (ratio of values %.4f, N_obs/N_total = %.4f)" % (v * n - v2 * (~miss).sum(), (v / v2).item(), (~miss).sum() / n))

# multitask: NaNs in individual (point, task) entries
t = 2
Y = torch.randn(n, t); Yn = Y.clone(); Yn[1, 0] = float("nan"); Yn[4, 1] = float("nan"); Yn[5, :] = float("nan")
ml = gpytorch.likelihoods.MultitaskGaussianLikelihood(num_tasks=t)
mt = MTGP(X, Yn, ml, t)
mt.eval()
with S.observation_nan_policy("mask"), torch.no_grad():
    o = mt(Xs)
    gm, gc = o.mean, o.covariance_matrix
# dense oracle on flattened interleaved joint
with torch.no_grad(), S.lazily_evaluate_kernels(False):
    full = torch.cat([X, Xs])
    Kf = mt.covar_module(full).to_dense()
    mf = mt.mean_module(full).reshape(-1)
    noise = ml(gpytorch.distributions.MultitaskMultivariateNormal(torch.zeros(n, t), torch.eye(n * t))).covariance_matrix - torch.eye(n * t)
obs = ~torch.isnan(Yn.reshape(-1))
tr = torch.arange(n * t)[obs]; te = torch.arange(n * t, (n + ns) * t)
A = Kf[tr][:, tr] + noise[obs][:, obs]
Ks = Kf[tr][:, te]
em = mf[te] + Ks.T @ torch.linalg.solve(A, (Yn.reshape(-1)[obs] - mf[tr]))
ec = Kf[te][:, te] - Ks.T @ torch.linalg.solve(A, Ks)
print("multitask mask: mean err %.2e cov err %.2e" % ((gm.reshape(-1) - em).abs().max(), (gc - ec).abs().max()))
mt.train()
with S.observation_nan_policy("mask"):
    v = gpytorch.mlls.ExactMarginalLogLikelihood(ml, mt)(mt(X), Yn)
ref = torch.distributions.MultivariateNormal(mf[tr], A).log_prob(Yn.reshape(-1)[obs])
print("multitask mll*N_total(%d) - logp = %.2e ; mll*N_obs(%d) - logp = %.2e" % (n * t, v * n * t - ref, obs.sum(), v * obs.sum() - ref))

#!/venv/bin/python
"""Design-phase probe (NOT part of the machinery): hand-written backward passes vs autograd of an
independent re-implementation (C19): RBF/Matern fast paths, natural / tril-natural parameterisations."""
import math
import sys
import warnings

import torch

warnings.filterwarnings("ignore")
import gpytorch  # noqa: E402
from gpytorch import kernels as K  # noqa: E402

torch.set_default_dtype(torch.float64)
torch.manual_seed(int(sys.argv[1]) if len(sys.argv) > 1 else 0)

# ---- kernel fast path vs reference autograd, with coincident points
x1 = torch.randn(4, 2); x2 = torch.cat([x1[:2], torch.randn(2, 2)])  # two coincident pairs
G = torch.randn(4, 4)
for name, k in [("RBF", K.RBFKernel())] + [(f"Matern{nu}", K.MaternKernel(nu=nu)) for nu in (0.5, 1.5, 2.5)]:
    k.lengthscale = 0.8
    k.zero_grad()
    (k(x1, x2).to_dense() * G).sum().backward()
    g_fast = k.raw_lengthscale.grad.clone()
    raw = k.raw_lengthscale.detach().clone().requires_grad_(True)
    ls = torch.nn.functional.softplus(raw)
    r2 = ((x1.unsqueeze(1) - x2.unsqueeze(0)) / ls).pow(2).sum(-1)
    if name == "RBF":
        ref = torch.exp(-0.5 * r2)
    else:
        nu = k.nu
        r = (r2 + 1e-300).sqrt()
        e = torch.exp(-math.sqrt(2 * nu) * r)
        ref = e if nu == 0.5 else ((1 + math.sqrt(3) * r) * e if nu == 1.5 else (1 + math.sqrt(5) * r + 5 / 3 * r2) * e)
    (ref * G).sum().backward()
    with gpytorch.settings.trace_mode(True):
        k.zero_grad(); (k(x1, x2).to_dense() * G).sum().backward(); g_generic = k.raw_lengthscale.grad.clone()
    print(f"{name}: fast vs ref {(g_fast-raw.grad).abs().max():.1e}; generic vs ref {(g_generic-raw.grad).abs().max():.1e}")

# ---- natural parameterisation: delivered grad == d loss / d expectation params
from gpytorch.variational import NaturalVariationalDistribution, TrilNaturalVariationalDistribution  # noqa: E402

M = 3
A = torch.randn(M, M); S = A @ A.T + 0.5 * torch.eye(M); m = torch.randn(M)
a = torch.randn(M); B = torch.randn(M, M); Cm = torch.randn(M, M)


def loss_fn(mu, L):
    Sig = L @ L.T
    return (a * mu).sum() + (mu @ B @ mu) + (Cm * Sig).sum() + torch.logdet(Sig) + (L.diagonal().log() * a).sum()


vd = NaturalVariationalDistribution(M)
vd.natural_vec.data = torch.linalg.solve(S, m); vd.natural_mat.data = -0.5 * torch.linalg.inv(S)
q = vd()
loss_fn(q.mean, q.lazy_covariance_matrix.cholesky().to_dense()).backward()
# oracle: expectation params
e1 = m.clone().requires_grad_(True); e2 = (S + torch.outer(m, m)).clone().requires_grad_(True)
Sig = e2 - torch.outer(e1, e1)
loss_fn(e1, torch.linalg.cholesky((Sig + Sig.T) / 2)).backward()
g2 = (e2.grad + e2.grad.T) / 2
print("natural: grad vec err %.1e ; grad mat err (sym) %.1e" % ((vd.natural_vec.grad - e1.grad).abs().max(), ((vd.natural_mat.grad + vd.natural_mat.grad.T) / 2 - g2).abs().max()))

tv = TrilNaturalVariationalDistribution(M)
Cc = torch.linalg.cholesky(torch.linalg.inv(S), upper=True)  # S^-1 = C^T C with C upper?  need lower-tri C with S^-1 = C^T C
Lc = torch.linalg.cholesky(S)  # S = Lc Lc^T -> S^-1 = Lc^-T Lc^-1 = C^T C with C = Lc^-1 (lower)
Cl = torch.linalg.inv(Lc)
tv.natural_vec.data = torch.linalg.solve(S, m); tv.natural_tril_mat.data = Cl.clone()
q = tv()
print("tril natural forward: mean err %.1e cov err %.1e" % ((q.mean - m).abs().max(), (q.covariance_matrix - S).abs().max()))
loss_fn(q.mean, q.lazy_covariance_matrix.cholesky().to_dense()).backward()
D = tv.natural_tril_mat.grad
print("tril natural: grad vec err %.1e ; D C^-1 lower-tri? %.1e ; -(D^T C + C^T D)/2 == G err %.1e" % (
    (tv.natural_vec.grad - e1.grad).abs().max(), torch.triu(D @ torch.linalg.inv(Cl), 1).abs().max(), (-(D.T @ Cl + Cl.T @ D) / 2 - g2).abs().max()))

#!/venv/bin/python
"""Design-phase probe (NOT part of the machinery): state_dict / pickle / deepcopy round trips.
The 'fresh' model is built by the same recipe but with different random values for everything that
is supposed to travel in the state_dict (parameters, constraint bounds, prior parameters, random features)."""
import copy
import io
import pickle
import sys
import warnings

import torch

warnings.filterwarnings("ignore")
import gpytorch  # noqa: E402
from gpytorch import constraints as C, kernels as K, priors as P  # noqa: E402

torch.set_default_dtype(torch.float64)


class GP(gpytorch.models.ExactGP):
    def __init__(self, x, y, lik, kernel, mean):
        super().__init__(x, y, lik)
        self.mean_module = mean
        self.covar_module = kernel

    def forward(self, x):
        return gpytorch.distributions.MultivariateNormal(self.mean_module(x), self.covar_module(x))


X = torch.randn(7, 2, generator=torch.Generator().manual_seed(0)); Y = torch.randn(7, generator=torch.Generator().manual_seed(1))
XS = torch.randn(3, 2, generator=torch.Generator().manual_seed(2))


def recipe_basic(s):
    g = torch.Generator().manual_seed(s)
    r = lambda lo, hi: float(torch.rand((), generator=g) * (hi - lo) + lo)  # noqa: E731
    k = K.ScaleKernel(
        K.RBFKernel(ard_num_dims=2, lengthscale_prior=P.GammaPrior(r(1, 3), r(1, 3)), lengthscale_constraint=C.Interval(r(0.01, 0.1), r(5, 9))),
        outputscale_prior=P.LogNormalPrior(r(-1, 1), r(0.5, 2)),
        outputscale_constraint=C.GreaterThan(r(0.001, 0.01)),
    )
    lik = gpytorch.likelihoods.GaussianLikelihood(noise_prior=P.NormalPrior(r(0, 1), r(0.5, 2)), noise_constraint=C.GreaterThan(r(1e-4, 1e-2)))
    mean = gpytorch.means.ConstantMean(constant_prior=P.UniformPrior(r(-9, -5), r(5, 9)))
    m = GP(X, Y, lik, k, mean)
    m.covar_module.base_kernel.lengthscale = torch.tensor([[r(0.3, 2), r(0.3, 2)]])
    m.covar_module.outputscale = r(0.5, 2)
    lik.noise = r(0.05, 0.5)
    mean.constant = r(-1, 1)
    return m


def recipe_smoothbox(s):
    g = torch.Generator().manual_seed(s)
    r = lambda lo, hi: float(torch.rand((), generator=g) * (hi - lo) + lo)  # noqa: E731
    k = K.ScaleKernel(K.MaternKernel(lengthscale_prior=P.SmoothedBoxPrior(r(0.01, 0.1), r(3, 6), sigma=r(0.01, 0.5))), outputscale_prior=P.HalfCauchyPrior(r(0.5, 3)))
    lik = gpytorch.likelihoods.GaussianLikelihood(noise_prior=P.HalfNormalPrior(r(0.5, 3)))
    m = GP(X, Y, lik, k, gpytorch.means.LinearMean(2))
    m.covar_module.base_kernel.lengthscale = r(0.3, 2)
    return m


def recipe_rff(s):
    torch.manual_seed(s)
    k = K.ScaleKernel(K.RFFKernel(num_samples=5, num_dims=2))
    return GP(X, Y, gpytorch.likelihoods.GaussianLikelihood(), k, gpytorch.means.ZeroMean())


def recipe_rff_lazy(s):
    torch.manual_seed(s)
    k = K.ScaleKernel(K.RFFKernel(num_samples=5))
    return GP(X, Y, gpytorch.likelihoods.GaussianLikelihood(), k, gpytorch.means.ZeroMean())


def recipe_kiss_dynamic(s):
    torch.manual_seed(s)
    k = K.ScaleKernel(K.GridInterpolationKernel(K.RBFKernel(), grid_size=10, num_dims=2))
    m = GP(X * (1 + 0.0), Y, gpytorch.likelihoods.GaussianLikelihood(), k, gpytorch.means.ConstantMean())
    m.covar_module.base_kernel.base_kernel.lengthscale = float(torch.rand(()) + 0.5)
    return m


def recipe_sm(s):
    torch.manual_seed(s)
    k = K.SpectralMixtureKernel(num_mixtures=2, ard_num_dims=2)
    k.initialize_from_data(X, Y)
    return GP(X, Y, gpytorch.likelihoods.GaussianLikelihood(), k, gpytorch.means.ConstantMean())


def recipe_fixed(s):
    torch.manual_seed(s)
    lik = gpytorch.likelihoods.FixedNoiseGaussianLikelihood(noise=torch.rand(7) * 0.3 + 0.05, learn_additional_noise=True)
    return GP(X, Y, lik, K.ScaleKernel(K.RBFKernel()), gpytorch.means.ConstantMean())


def observe(m):
    m.train()
    pri = m(X)
    mll = gpytorch.mlls.ExactMarginalLogLikelihood(m.likelihood, m)(pri, Y)
    m.eval()
    with torch.no_grad():
        post = m(XS)
        pred = m.likelihood(post) if not isinstance(m.likelihood, gpytorch.likelihoods.FixedNoiseGaussianLikelihood) else m.likelihood(post, noise=torch.full((3,), 0.1))
    return torch.cat([pri.mean.detach().reshape(-1), pri.covariance_matrix.detach().reshape(-1), mll.detach().reshape(-1), post.mean.reshape(-1), post.covariance_matrix.reshape(-1), pred.covariance_matrix.reshape(-1)])


for name, rec in [(n, f) for n, f in globals().items() if n.startswith("recipe_")]:
    src = rec(1)
    a = observe(src)
    res = {}
    # state dict into different fresh model
    try:
        dst = rec(2)
        _ = observe(dst)  # create caches with other params first
        buf = io.BytesIO(); torch.save(src.state_dict(), buf); buf.seek(0)
        dst.load_state_dict(torch.load(buf))
        res["state_dict"] = (observe(dst) - a).abs().max().item()
    except Exception as e:  # noqa: BLE001
        res["state_dict"] = f"EXC {type(e).__name__}: {str(e)[:150]}"
    try:
        res["pickle"] = (observe(pickle.loads(pickle.dumps(src))) - a).abs().max().item()
    except Exception as e:  # noqa: BLE001
        res["pickle"] = f"EXC {type(e).__name__}: {str(e)[:150]}"
    try:
        res["deepcopy"] = (observe(copy.deepcopy(src)) - a).abs().max().item()
    except Exception as e:  # noqa: BLE001
        res["deepcopy"] = f"EXC {type(e).__name__}: {str(e)[:150]}"
    print(name, res)

#!/venv/bin/python
"""Design-phase probe (NOT part of the machinery): get_fantasy_model vs conditioning from scratch,
for batch patterns / likelihoods / repeated fantasies; source model untouched; cache entries."""
import copy
import itertools
import pickle
import sys
import warnings

import torch

warnings.filterwarnings("ignore")
import gpytorch  # noqa: E402
from gpytorch import settings as S  # noqa: E402

torch.set_default_dtype(torch.float64)
torch.manual_seed(int(sys.argv[1]) if len(sys.argv) > 1 else 0)


class GP(gpytorch.models.ExactGP):
    def __init__(self, x, y, lik, batch=torch.Size()):
        super().__init__(x, y, lik)
        self.mean_module = gpytorch.means.ConstantMean(batch_shape=batch)
        self.covar_module = gpytorch.kernels.ScaleKernel(gpytorch.kernels.MaternKernel(nu=2.5, batch_shape=batch), batch_shape=batch)

    def forward(self, x):
        return gpytorch.distributions.MultivariateNormal(self.mean_module(x), self.covar_module(x))


def dense(model, X, y, Xs, noise):
    # X: (..., n, d), noise: (..., n)
    with torch.no_grad(), S.lazily_evaluate_kernels(False):
        bs = torch.broadcast_shapes(X.shape[:-2], Xs.shape[:-2])
        full = torch.cat([X.expand(*bs, *X.shape[-2:]), Xs.expand(*bs, *Xs.shape[-2:])], -2)
        Kf = model.covar_module(full).to_dense()
        mf = model.mean_module(full)
    n = X.shape[-2]
    A = Kf[..., :n, :n] + torch.diag_embed(noise.expand(*Kf.shape[:-2], n))
    Ks = Kf[..., :n, n:]
    r = (y - mf[..., :n]).unsqueeze(-1)
    mean = mf[..., n:] + (Ks.transpose(-1, -2) @ torch.linalg.solve(A, r)).squeeze(-1)
    cov = Kf[..., n:, n:] - Ks.transpose(-1, -2) @ torch.linalg.solve(A, Ks)
    return mean, cov, A, r.squeeze(-1)


n, m, ns, d = 6, 2, 4, 2
for batch, fshape, shared, fixed, fpv, det in itertools.product([(), (2,)], [(), (3,)], [True, False], [False, True], [False, True], [True, False]):
    if not fshape and not shared:
        continue
    X = torch.randn(*batch, n, d); y = torch.randn(*batch, n); Xs = torch.randn(*batch, ns, d)
    if fixed:
        lik = gpytorch.likelihoods.FixedNoiseGaussianLikelihood(noise=torch.rand(*batch, n) * 0.2 + 0.05)
    else:
        lik = gpytorch.likelihoods.GaussianLikelihood(batch_shape=torch.Size(batch)); lik.noise = torch.rand(*batch, 1) * 0.2 + 0.05
    model = GP(X, y, lik, torch.Size(batch))
    model.covar_module.base_kernel.lengthscale = torch.rand(*batch, 1, 1) + 0.5
    model.eval()
    tag = f"b={batch} f={fshape} shared={shared} fixed={fixed} fpv={fpv} det={det}"
    try:
        with S.fast_pred_var(fpv), S.detach_test_caches(det), torch.no_grad():
            before = model(Xs); bm, bc = before.mean.clone(), before.covariance_matrix.clone()
            sd_before = {k: v.clone() for k, v in model.state_dict().items()}
            cur_X, cur_y = X, y
            cur_noise = lik.noise if fixed else lik.noise.expand(*batch, 1).expand(*batch, n)
            fm = model
            for step in range(2):
                Xf = torch.randn(*(fshape if not shared else ()), *batch, m, d)
                yf = torch.randn(*fshape, *batch, m)
                kw = {}
                nf = None
                if fixed:
                    nf = torch.rand(*(fshape if not shared else ()), *batch, m) * 0.2 + 0.05
                    kw["noise"] = nf
                fm = fm.get_fantasy_model(Xf, yf, **kw)
                bs = torch.broadcast_shapes(cur_X.shape[:-2], Xf.shape[:-2], yf.shape[:-1])
                cur_X = torch.cat([cur_X.expand(*bs, *cur_X.shape[-2:]), Xf.expand(*bs, m, d)], -2)
                cur_y = torch.cat([cur_y.expand(*bs, cur_y.shape[-1]), yf.expand(*bs, m)], -1)
                cur_noise = torch.cat([cur_noise.expand(*bs, cur_noise.shape[-1]), (nf if fixed else lik.noise.expand(*batch, 1).expand(*bs, m)).expand(*bs, m)], -1)
                out = fm(Xs)
                em, ec, A, r = dense(model, cur_X, cur_y, Xs, cur_noise)
                e1, e2 = (out.mean - em).abs().max().item(), (out.covariance_matrix - ec).abs().max().item()
                # cache entries
                strat = fm.prediction_strategy
                mc = [v for k, v in strat._memoize_cache.items() if k[0] == "mean_cache"]
                e3 = min((c - torch.linalg.solve(A, r.unsqueeze(-1)).squeeze(-1)).abs().max().item() for c in mc if c.shape[-1] == r.shape[-1]) if mc else float("nan")
                flag = "ok " if max(e1, e2) < 1e-7 else "BAD"
                print(f"{flag} {tag} step={step}: mean {e1:.1e} cov {e2:.1e} meancache {e3:.1e} trainX {tuple(fm.train_inputs[0].shape)}")
            after = model(Xs)
            same = torch.equal(after.mean, bm) and torch.equal(after.covariance_matrix, bc) and all(torch.equal(v, sd_before[k]) for k, v in model.state_dict().items())
            same = same and torch.equal(model.train_inputs[0], X) and torch.equal(model.train_targets, y)
            if not same:
                print("SOURCE CHANGED", tag)
    except Exception as e:  # noqa: BLE001
        import traceback
        tb = traceback.extract_tb(e.__traceback__)
        fr = [f for f in tb if "/repo/gpytorch" in f.filename]
        print(f"EXC {tag}: {type(e).__name__} {str(e)[:90]} @ {fr[-1].filename.split('/')[-1]}:{fr[-1].lineno}" if fr else f"EXC(harness) {tag} {type(e).__name__} {e}")

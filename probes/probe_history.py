#!/venv/bin/python
"""Design-phase probe (NOT part of the machinery): bounded-exhaustive operation histories on an exact GP
(default / KISS-GP / SGPR kernels) and an SVGP; after the history, the prediction must equal that of a
freshly built model carrying the same parameters and data.  Measures cost and looks for stale caches."""
import copy
import itertools
import sys
import time
import warnings
from collections import Counter

import torch

warnings.filterwarnings("ignore")
import gpytorch  # noqa: E402
from gpytorch import settings as S  # noqa: E402

torch.set_default_dtype(torch.float64)
FAMILY = sys.argv[1] if len(sys.argv) > 1 else "default"
MAXLEN = int(sys.argv[2]) if len(sys.argv) > 2 else 3
d = 1


def make_kernel():
    if FAMILY == "default":
        return gpytorch.kernels.ScaleKernel(gpytorch.kernels.RBFKernel())
    if FAMILY == "kiss":
        return gpytorch.kernels.ScaleKernel(gpytorch.kernels.GridInterpolationKernel(gpytorch.kernels.RBFKernel(), grid_size=16, grid_bounds=[(-3.0, 3.0)]))
    if FAMILY == "sgpr":
        return gpytorch.kernels.InducingPointKernel(gpytorch.kernels.ScaleKernel(gpytorch.kernels.RBFKernel()), torch.linspace(-2, 2, 4).unsqueeze(-1), None)
    raise SystemExit("family")


class GP(gpytorch.models.ExactGP):
    def __init__(self, x, y):
        lik = gpytorch.likelihoods.GaussianLikelihood()
        super().__init__(x, y, lik)
        self.mean_module = gpytorch.means.ConstantMean()
        self.covar_module = make_kernel()
        if FAMILY == "sgpr":
            self.covar_module.likelihood = lik

    def forward(self, x):
        return gpytorch.distributions.MultivariateNormal(self.mean_module(x), self.covar_module(x))


class SVGP(gpytorch.models.ApproximateGP):
    def __init__(self, x, y):
        Z = torch.linspace(-2, 2, 4).unsqueeze(-1)
        strat_cls = gpytorch.variational.UnwhitenedVariationalStrategy if FAMILY == "svgp_unwhitened" else gpytorch.variational.VariationalStrategy
        super().__init__(strat_cls(self, Z, gpytorch.variational.CholeskyVariationalDistribution(4)))
        self.mean_module = gpytorch.means.ConstantMean()
        self.covar_module = gpytorch.kernels.ScaleKernel(gpytorch.kernels.RBFKernel())
        self.likelihood = gpytorch.likelihoods.GaussianLikelihood()
        self.x, self.y = x, y

    def forward(self, x):
        return gpytorch.distributions.MultivariateNormal(self.mean_module(x), self.covar_module(x))


g = torch.Generator().manual_seed(0)
X0 = torch.randn(6, d, generator=g); Y0 = torch.randn(6, generator=g)
X1 = torch.randn(6, d, generator=g); Y1 = torch.randn(6, generator=g)
XS = torch.randn(4, d, generator=g).clamp(-2.5, 2.5); XS2 = torch.randn(2, 3, d, generator=g).clamp(-2.5, 2.5)
XF = torch.randn(2, d, generator=g).clamp(-2.5, 2.5); YF = torch.randn(2, generator=g)
IS_SVGP = FAMILY.startswith("svgp")


def build(data):
    torch.manual_seed(1)
    m = SVGP(*data) if IS_SVGP else GP(*data)
    return m


def fresh_like(model, data):
    f = build(data)
    with torch.no_grad():
        sd = {k: v.detach().clone() for k, v in model.state_dict().items()}
    f.load_state_dict(sd)
    f.eval()
    return f


def predict(m, xs, **ctx):
    with S.fast_pred_var(ctx.get("fpv", False)), S.detach_test_caches(ctx.get("det", True)), S.skip_posterior_variances(ctx.get("skip", False)):
        out = m(xs)
        return out.mean, out.covariance_matrix


class World:
    def __init__(self):
        self.data = (X0, Y0)
        self.m = build(self.data)
        self.saved = {k: v.detach().clone() for k, v in self.m.state_dict().items()}
        self.m.eval()

    # --- operations
    def op_pred(self):
        with torch.no_grad():
            predict(self.m, XS)

    def op_pred_fpv(self):
        with torch.no_grad():
            predict(self.m, XS, fpv=True)

    def op_pred_batch(self):
        with torch.no_grad():
            predict(self.m, XS2)

    def op_pred_skip(self):
        with torch.no_grad():
            predict(self.m, XS, skip=True)

    def op_pred_grad(self):
        mean, cov = predict(self.m, XS, det=False)
        (mean.sum() + cov.diagonal().sum()).backward()
        self.m.zero_grad()

    def op_prior_mode(self):
        if IS_SVGP:
            self.m(XS, prior=True)
        else:
            with S.prior_mode(True), torch.no_grad():
                self.m(XS)

    def op_train_eval(self):
        self.m.train(); self.m.eval()

    def op_step(self):
        self.m.train()
        x, y = self.data
        if IS_SVGP:
            mll = gpytorch.mlls.VariationalELBO(self.m.likelihood, self.m, num_data=y.numel())
        else:
            mll = gpytorch.mlls.ExactMarginalLogLikelihood(self.m.likelihood, self.m)
        opt = torch.optim.SGD(self.m.parameters(), lr=0.05)
        opt.zero_grad()
        loss = -mll(self.m(x), y)
        loss.backward(); opt.step(); opt.zero_grad()
        self.m.eval()

    def op_set_data(self):
        if IS_SVGP:
            return
        self.data = (X1, Y1)
        self.m.set_train_data(X1, Y1, strict=False)

    def op_load(self):
        self.m.load_state_dict({k: v.clone() for k, v in self.saved.items()})

    def op_fantasy(self):
        if IS_SVGP or FAMILY == "sgpr":
            return
        with torch.no_grad():
            if self.m.prediction_strategy is None:
                predict(self.m, XS)
            self.m.get_fantasy_model(XF, YF)

    def check(self):
        f = fresh_like(self.m, self.data)
        with torch.no_grad():
            a = predict(self.m, XS); b = predict(f, XS)
        return max((a[0] - b[0]).abs().max().item(), (a[1] - b[1]).abs().max().item())


OPS = [n for n in dir(World) if n.startswith("op_")]
t0 = time.time()
bad = Counter(); total = 0; worst = 0
for L in range(1, MAXLEN + 1):
    for seq in itertools.product(OPS, repeat=L):
        w = World()
        try:
            for op in seq:
                getattr(w, op)()
            e = w.check()
        except Exception as ex:  # noqa: BLE001
            bad[("EXC", type(ex).__name__, str(ex)[:60], seq[-1])] += 1
            continue
        total += 1
        worst = max(worst, e) if e < 1e-6 else worst
        if e > 1e-6:
            bad[seq] += 1
            if len(bad) < 8:
                print("STALE?", seq, e)
print(FAMILY, "ops", len(OPS), "sequences", total, "worst-ok-err %.1e" % worst, "bad", len(bad), "time %.1fs" % (time.time() - t0))
for k, v in list(bad.items())[:12]:
    print("  ", k, v)

#!/venv/bin/python
"""Design-phase probe (NOT part of the machinery): derivative / structured / exotic kernels vs
independent formulas (autograd of a scalar reference kernel, brute-force sums)."""
import itertools
import math
import sys
import warnings

import torch

warnings.filterwarnings("ignore")
import gpytorch  # noqa: E402
from gpytorch import kernels as K  # noqa: E402

torch.set_default_dtype(torch.float64)
torch.manual_seed(int(sys.argv[1]) if len(sys.argv) > 1 else 0)


def check(name, got, exp, tol=1e-8):
    try:
        got = got.to_dense() if hasattr(got, "to_dense") else got
    except Exception as e:  # noqa: BLE001
        print(f"{name:55s} EXC {type(e).__name__}: {str(e)[:90]}")
        return
    if got.shape != exp.shape:
        print(f"{name:55s} SHAPE {tuple(got.shape)} vs {tuple(exp.shape)}")
        return
    err = (got - exp).abs().max().item()
    print(f"{name:55s} {'ok ' if err < tol else 'BAD'} maxerr={err:.2e}")


def pos(*shape, lo=0.3, hi=2.5):
    return torch.rand(*shape) * (hi - lo) + lo


def deriv_gram(kfun, x1, x2, order):
    """Joint covariance of [f, df/dx_1..d (, d2f/dx_1^2..d^2)] at x1 rows vs x2 rows, per-point interleaved."""
    n1, d = x1.shape
    n2 = x2.shape[0]
    P = 1 + d * order
    out = torch.zeros(n1 * P, n2 * P)

    def ops(which):
        # returns function applying the a-th functional to first arg / b-th to the second
        return which

    for i in range(n1):
        for j in range(n2):
            a0 = x1[i].clone().requires_grad_(True)
            b0 = x2[j].clone().requires_grad_(True)

            def f_of(a, b):
                return kfun(a, b)

            # build list of functionals on a: identity, d/da_k, d2/da_k^2
            def apply_a(g, a, idx):
                # g: scalar function of a (b fixed); returns scalar function value of the idx-th functional
                if idx == 0:
                    return g(a)
                if idx <= d:
                    k = idx - 1
                    return torch.autograd.grad(g(a), a, create_graph=True)[0][k]
                k = idx - d - 1
                g1 = torch.autograd.grad(g(a), a, create_graph=True)[0][k]
                return torch.autograd.grad(g1, a, create_graph=True)[0][k]

            for ai in range(P):
                for bi in range(P):
                    a = a0
                    b = b0

                    def inner_b(bb):
                        return apply_a(lambda aa: f_of(aa, bb), a, ai)

                    val = apply_a(inner_b, b, bi)
                    out[i * P + ai, j * P + bi] = val.detach()
    return out


n1, n2 = 3, 2
for d in (1, 2):
    x1, x2 = torch.randn(n1, d), torch.randn(n2, d)
    for ard in (False, True):
        ls = pos(1, d if ard else 1)
        k = K.RBFKernelGrad(ard_num_dims=d if ard else None)
        k.lengthscale = ls
        kf = lambda a, b: torch.exp(-0.5 * (((a - b) / ls[0]) ** 2).sum())  # noqa: E731
        check(f"RBFGrad d={d} ard={ard}", k(x1, x2), deriv_gram(kf, x1, x2, 1))
        check(f"RBFGrad sym d={d} ard={ard}", k(x1, x1), deriv_gram(kf, x1, x1, 1))
        check(f"RBFGrad diag d={d} ard={ard}", k(x1, diag=True), deriv_gram(kf, x1, x1, 1).diagonal())
        k = K.RBFKernelGradGrad(ard_num_dims=d if ard else None)
        k.lengthscale = ls
        check(f"RBFGradGrad d={d} ard={ard}", k(x1, x2), deriv_gram(kf, x1, x2, 2))
        check(f"RBFGradGrad sym d={d} ard={ard}", k(x1, x1), deriv_gram(kf, x1, x1, 2))
        check(f"RBFGradGrad diag d={d} ard={ard}", k(x1, diag=True), deriv_gram(kf, x1, x1, 2).diagonal())
        k = K.Matern52KernelGrad(ard_num_dims=d if ard else None)
        k.lengthscale = ls

        def km(a, b):
            r = ((((a - b) / ls[0]) ** 2).sum() + 1e-300).sqrt()
            return (1 + math.sqrt(5) * r + 5.0 / 3.0 * r**2) * torch.exp(-math.sqrt(5) * r)

        check(f"Matern52Grad d={d} ard={ard}", k(x1, x2), deriv_gram(km, x1, x2, 1))
        check(f"Matern52Grad diag d={d} ard={ard}", k(x1, diag=True)[..., :: d + 1], torch.ones(n1))
    for power in (2, 3):
        k = K.PolynomialKernelGrad(power=power)
        k.offset = pos(1)
        c = k.offset.detach()
        kp = lambda a, b: ((a * b).sum() + c[0]) ** power  # noqa: E731
        check(f"PolyGrad p={power} d={d}", k(x1, x2), deriv_gram(kp, x1, x2, 1))
        check(f"PolyGrad diag p={power} d={d}", k(x1, diag=True), deriv_gram(kp, x1, x1, 1).diagonal())

# ---- composition
d = 3
x1, x2 = torch.randn(4, d), torch.randn(3, d)
a = K.RBFKernel(active_dims=[0, 2]); a.lengthscale = 0.7
b = K.MaternKernel(nu=1.5, active_dims=[1]); b.lengthscale = 1.3
s = K.ScaleKernel(b); s.outputscale = 2.2
da = lambda k, u, v: k(u, v).to_dense()  # noqa: E731
check("Add", (a + s)(x1, x2), da(a, x1, x2) + da(s, x1, x2))
check("Prod", (a * s)(x1, x2), da(a, x1, x2) * da(s, x1, x2))
check("Scale", s(x1, x2), 2.2 * da(b, x1, x2))
check("Scale/active", da(a, x1, x2), torch.exp(-0.5 * (((x1[:, [0, 2]].unsqueeze(1) - x2[:, [0, 2]].unsqueeze(0)) / 0.7) ** 2).sum(-1)))
c = K.ConstantKernel(); c.constant = torch.tensor(1.7)
check("Constant", c(x1, x2), torch.full((4, 3), 1.7))

# ---- additive / product structure, Newton-Girard, sum_interaction_terms
base = K.RBFKernel(); base.lengthscale = 0.9
k1 = lambda u, v: torch.exp(-0.5 * ((u.unsqueeze(-1) - v.unsqueeze(-2)) / 0.9) ** 2)  # noqa: E731
per_dim = torch.stack([k1(x1[:, i], x2[:, i]) for i in range(d)])
check("AdditiveStructure", K.AdditiveStructureKernel(base, d)(x1, x2), per_dim.sum(0))
check("ProductStructure", K.ProductStructureKernel(base, d)(x1, x2), per_dim.prod(0))
for md in (1, 2, 3):
    ng = K.NewtonGirardAdditiveKernel(base, d, max_degree=md)
    ng.outputscale = pos(md)
    exp = 0
    for deg in range(1, md + 1):
        e = sum(math.prod([per_dim[i] for i in comb]) if False else torch.stack([per_dim[i] for i in comb]).prod(0)
                for comb in itertools.combinations(range(d), deg))
        exp = exp + ng.outputscale[deg - 1].detach() * e
    check(f"NewtonGirard max_degree={md}", ng(x1, x2), exp)
    from gpytorch.utils.sum_interaction_terms import sum_interaction_terms
    sq = torch.stack([k1(x1[:, i], x1[:, i]) for i in range(d)])
    exp2 = sum(torch.stack([sq[i] for i in comb]).prod(0) for deg in range(1, md + 1) for comb in itertools.combinations(range(d), deg))
    check(f"sum_interaction_terms max_degree={md}", sum_interaction_terms(sq, max_degree=md), exp2)

# ---- multitask / index / lcm
T = 3
mk = K.MultitaskKernel(a, num_tasks=T, rank=2)
B = mk.task_covar_module.covar_factor.detach(); v = mk.task_covar_module.var.detach()
task = B @ B.T + torch.diag(v)
check("Multitask kron", mk(x1, x2), torch.kron(da(a, x1, x2), task))
ik = K.IndexKernel(num_tasks=T, rank=1)
Bi = ik.covar_factor.detach(); vi = ik.var.detach(); M = Bi @ Bi.T + torch.diag(vi)
i1 = torch.randint(0, T, (5, 1)); i2 = torch.randint(0, T, (4, 1))
check("Index", ik(i1, i2), M[i1[:, 0]][:, i2[:, 0]])
lcm = K.LCMKernel([a, b], num_tasks=T, rank=1)
exp = 0
for sub, basek in zip(lcm.covar_module_list, [a, b]):
    Bq = sub.task_covar_module.covar_factor.detach(); vq = sub.task_covar_module.var.detach()
    exp = exp + torch.kron(da(basek, x1, x2), Bq @ Bq.T + torch.diag(vq))
check("LCM", lcm(x1, x2), exp)

# ---- exotic
ck = K.CylindricalKernel(num_angular_weights=3, radial_base_kernel=K.MaternKernel(nu=2.5))
ck.angular_weights = pos(3); ck.alpha = torch.tensor([1.4]); ck.beta = torch.tensor([0.8]); ck.radial_base_kernel.lengthscale = 0.6
u1 = torch.randn(4, 3); u1 = u1 / u1.norm(dim=-1, keepdim=True) * torch.rand(4, 1) * 0.95
u2 = torch.randn(3, 3); u2 = u2 / u2.norm(dim=-1, keepdim=True) * torch.rand(3, 1) * 0.95
r1, r2 = u1.norm(dim=-1, keepdim=True), u2.norm(dim=-1, keepdim=True)
kuma = lambda r: 1 - (1 - r ** 1.4 + ck.eps) ** 0.8  # noqa: E731
cosang = (u1 / r1) @ (u2 / r2).T
ang = sum(ck.angular_weights[p].detach() * cosang**p for p in range(3))
rr = (kuma(r1) - kuma(r2).T).abs() / 0.6
rad = (1 + math.sqrt(5) * rr + 5 / 3 * rr**2) * torch.exp(-math.sqrt(5) * rr)
check("Cylindrical", ck(u1, u2), ang * rad)

V, L = 4, 3
hk = K.HammingIMQKernel(vocab_size=V); hk.alpha = torch.tensor([1.3]); hk.beta = torch.tensor([0.7])
s1 = torch.randint(0, V, (5, L)); s2 = torch.randint(0, V, (4, L))
oh = lambda s: torch.nn.functional.one_hot(s, V).to(torch.float64).reshape(s.shape[0], -1)  # noqa: E731
ham = (s1.unsqueeze(1) != s2.unsqueeze(0)).sum(-1).to(torch.float64)
check("HammingIMQ", hk(oh(s1), oh(s2)), ((1 + 1.3) / (1.3 + ham)) ** 0.7)

gk = K.GaussianSymmetrizedKLKernel(); gk.lengthscale = 1.7
p1 = torch.randn(4, 4); p2 = torch.randn(3, 4)  # [mean(2), logvar(2)]
m1, v1 = p1[:, :2], p1[:, 2:].exp() + 1e-8
m2, v2 = p2[:, :2], p2[:, 2:].exp() + 1e-8
kl = lambda ma, va, mb, vb: 0.5 * (va / vb + (ma - mb) ** 2 / vb - 1 + torch.log(vb / va))  # noqa: E731
skl = (kl(m1[:, None], v1[:, None], m2[None], v2[None]) + kl(m2[None], v2[None], m1[:, None], v1[:, None])).sum(-1)
check("GaussianSymKL", gk(p1, p2), torch.exp(-skl / 1.7))

sd = K.SpectralDeltaKernel(num_dims=3, num_deltas=5); sd.lengthscale = 1.2
Z = sd.Z.detach()
tau = (x1.unsqueeze(1) - x2.unsqueeze(0)) / 1.2
check("SpectralDelta", sd(x1, x2), torch.cos(2 * math.pi * (tau @ Z.T)).mean(-1))

rf = K.RFFKernel(num_samples=6, num_dims=3); rf.lengthscale = 0.8
W = rf.randn_weights / 0.8
check("RFF", rf(x1, x2), torch.cos((x1.unsqueeze(1) - x2.unsqueeze(0)) @ W).mean(-1))
check("RFF sym", rf(x1, x1), torch.cos((x1.unsqueeze(1) - x1.unsqueeze(0)) @ W).mean(-1))

ak = K.ArcKernel(K.MaternKernel(nu=2.5), ard_num_dims=3)
ak.angle = pos(1, 3, lo=0.2, hi=0.8); ak.radius = pos(1, 3); ak.lengthscale = pos(1, 3)
emb = lambda x: torch.cat([ak.radius * torch.sin(math.pi * ak.angle * x / ak.lengthscale), ak.radius * torch.cos(math.pi * ak.angle * x / ak.lengthscale)], -1).detach()  # noqa: E731
rr = torch.cdist(emb(x1), emb(x2))
check("Arc", ak(x1, x2), (1 + math.sqrt(5) * rr + 5 / 3 * rr**2) * torch.exp(-math.sqrt(5) * rr))

#!/bin/bash
# Runs the repository's pinned test suite (guard off) and compares with /root/.vp/BASELINE.json stable_pass.
out=${1:-/tmp/verif_baseline.junit.xml}
repo=${VERIF_REPO:-/repo}
cd $repo && env -u GPYTORCH_VERIF /venv/bin/python -m pytest -ra -q -p no:cacheprovider --timeout=900 --continue-on-collection-errors -x --maxfail=1000 --junitxml=$out > ${out%.xml}.log 2>&1
python3 - "$out" <<'PY'
import json, sys, xml.etree.ElementTree as ET
b = json.load(open('/root/.vp/BASELINE.json'))
stable = set(b['stable_pass'])
root = ET.parse(sys.argv[1]).getroot()
passed = set()
for tc in root.iter('testcase'):
    name = f"{tc.get('classname')}::{tc.get('name')}"
    if not any(ch.tag in ('failure', 'error', 'skipped') for ch in tc):
        passed.add(name)
missing = sorted(stable - passed)
print(f"baseline stable_pass={len(stable)} passed_now={len(passed)} stable-but-not-passing={len(missing)}")
for m in missing[:40]:
    print("  NOT PASSING:", m)
sys.exit(1 if missing else 0)
PY

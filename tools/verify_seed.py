#!/usr/bin/env python3
"""tools/verify_seed.py <Cxx> <src-dir> <seed-id> [--checks C10,C01]
Verifies an independently written breaking change (patch.diff + demo.py + meta.json):
  1. demo.py exits 0 on a scratch worktree of /repo HEAD, 2. patch applies, 3. demo.py exits 1 with it,
  4. the quick check(s) of the property report a VIOLATION against the patched worktree.
Stores everything under seeded/<seed-id>/ with the outcome in meta.json.  The worktree is removed afterwards."""
import json, os, shutil, subprocess, sys, tempfile, time
V = os.path.dirname(os.path.dirname(os.path.abspath(__file__)))


def sh(*a, **k):
    return subprocess.run(a, capture_output=True, text=True, **k)


def main():
    pid, src, sid = sys.argv[1].upper(), sys.argv[2], sys.argv[3]
    checks = [pid]
    if "--checks" in sys.argv:
        checks = sys.argv[sys.argv.index("--checks") + 1].split(",")
    wt = tempfile.mkdtemp(prefix="verif_seed.", dir="/tmp")
    os.rmdir(wt)
    assert sh("git", "-C", "/repo", "worktree", "add", "-q", "--detach", wt, "HEAD").returncode == 0
    out = {}
    try:
        env = dict(os.environ, PYTHONPATH=wt, OMP_NUM_THREADS="4")
        demo = os.path.join(src, "demo.py")
        r0 = sh("/venv/bin/python", "-W", "ignore", demo, cwd=wt, env=env)
        out["demo_without_change_exit"] = r0.returncode
        ap = sh("git", "-C", wt, "apply", os.path.join(src, "patch.diff"))
        out["patch_applies"] = ap.returncode == 0
        if ap.returncode:
            print("PATCH DOES NOT APPLY", ap.stderr[:500])
        else:
            r1 = sh("/venv/bin/python", "-W", "ignore", demo, cwd=wt, env=env)
            out["demo_with_change_exit"] = r1.returncode
            out["demo_output_with_change"] = (r1.stdout + r1.stderr)[-600:]
            det = {}
            for c in checks:
                t0 = time.time()
                r = sh(os.path.join(V, "check"), c, "quick", env=dict(os.environ, VERIF_REPO=wt, VERIF_NO_EVIDENCE="1", VERIF_NO_SHRINK="1"))
                lines = r.stdout.splitlines()
                viol = [i for i, l in enumerate(lines) if l.startswith("VIOLATION")]
                det[c] = dict(exit=r.returncode, violation_lines=len(viol), wall_s=round(time.time() - t0),
                              first=(lines[viol[0] + 1].strip() + " :: " + lines[viol[0] + 2].strip())[:400] if viol else "")
                print(f"  {c}: exit {r.returncode}, {len(viol)} violation lines, {det[c]['wall_s']}s  {det[c]['first'][:200]}")
            out["checks"] = det
    finally:
        sh("git", "-C", "/repo", "worktree", "remove", "--force", wt)
        sh("rm", "-rf", wt)
        sh("git", "-C", "/repo", "worktree", "prune")
    caught = [c for c, d in out.get("checks", {}).items() if d["exit"] == 1 and d["violation_lines"]]
    valid = out.get("demo_without_change_exit") == 0 and out.get("patch_applies") and out.get("demo_with_change_exit") == 1
    dst = os.path.join(V, "seeded", sid)
    os.makedirs(dst, exist_ok=True)
    for f in ("patch.diff", "demo.py"):
        shutil.copy(os.path.join(src, f), os.path.join(dst, f))
    meta = {}
    mp = os.path.join(src, "meta.json")
    if os.path.exists(mp):
        try:
            meta = json.load(open(mp))
        except Exception:  # noqa: BLE001
            meta = {"raw": open(mp).read()[:2000]}
    meta.update(property=pid, verified=out, valid_seed=bool(valid), detected_by=",".join(caught), result="caught" if caught else ("INVALID SEED" if not valid else "MISSED"),
                repo_head=sh("git", "-C", "/repo", "log", "--format=%h", "-1").stdout.strip(),
                ran=f"tools/verify_seed.py {pid} <dir> {sid} --checks {','.join(checks)}")
    json.dump(meta, open(os.path.join(dst, "meta.json"), "w"), indent=1)
    print(f"SEED {sid}: valid={valid} result={meta['result']} detected_by={meta['detected_by']}")


if __name__ == "__main__":
    main()

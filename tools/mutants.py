#!/usr/bin/env python3
"""Sensitivity measurement: apply each small source mutation of mutants/<Cxx>.json to a scratch worktree of /repo
(under /tmp, removed afterwards), run the property's quick check against it and expect a VIOLATION (exit 1).

usage: tools/mutants.py <Cxx> [name-glob] [--tier quick] [--scale S] [--keep-going]
Each mutant: {"name":..., "file": "gpytorch/..py", "old": "...", "new": "...", "count": 1, "only": "subcheck-glob (optional)"}
Results are appended to out/sensitivity/<Cxx>.jsonl and summarised by tools/sensitivity_report.py into SENSITIVITY.md.
"""
import fnmatch, json, os, subprocess, sys, tempfile, time

V = os.path.dirname(os.path.dirname(os.path.abspath(__file__)))


def sh(*a, **k):
    return subprocess.run(a, capture_output=True, text=True, **k)


def main():
    pid = sys.argv[1].upper()
    args = sys.argv[2:]
    tier = scale = None
    if "--tier" in args:
        i = args.index("--tier"); tier = args[i + 1]; del args[i:i + 2]
    if "--scale" in args:
        i = args.index("--scale"); scale = args[i + 1]; del args[i:i + 2]
    tier, scale = tier or "quick", scale or "1"
    glob = args[0] if args else "*"
    muts = json.load(open(os.path.join(V, "mutants", f"{pid}.json")))
    os.makedirs(os.path.join(V, "sensitivity"), exist_ok=True)
    rows = []
    for m in muts:
        if not fnmatch.fnmatchcase(m["name"], glob):
            continue
        wt = tempfile.mkdtemp(prefix="verif_mut.", dir="/tmp")
        os.rmdir(wt)
        r = sh("git", "-C", "/repo", "worktree", "add", "-q", "--detach", wt, "HEAD")
        if r.returncode:
            print("worktree failed", r.stderr)
            return 2
        try:
            path = os.path.join(wt, m["file"])
            src = open(path).read()
            n = src.count(m["old"])
            if n != m.get("count", 1):
                print(f"MUTANT {m['name']}: pattern occurs {n} times, expected {m.get('count', 1)} -> skipped")
                rows.append(dict(property=pid, mutant=m["name"], result="pattern-mismatch"))
                continue
            open(path, "w").write(src.replace(m["old"], m["new"]))
            c = sh("/venv/bin/python", "-m", "py_compile", path)
            if c.returncode:
                print(f"MUTANT {m['name']}: does not compile")
                continue
            env = dict(os.environ, VERIF_REPO=wt, VERIF_SCALE=scale, VERIF_NO_SHRINK="1", VERIF_NO_EVIDENCE="1")
            cmd = [os.path.join(V, "check"), pid, tier]
            if m.get("only"):
                cmd += ["--only", m["only"]]
            t0 = time.time()
            r = sh(*cmd, env=env)
            dt = time.time() - t0
            viol = [l for l in r.stdout.splitlines() if l.startswith("VIOLATION")]
            firstdetail = ""
            lines = r.stdout.splitlines()
            for i, l in enumerate(lines):
                if l.startswith("VIOLATION") and i + 2 < len(lines):
                    firstdetail = (lines[i + 1].strip() + " :: " + lines[i + 2].strip())[:300]
                    break
            res = "caught" if (r.returncode == 1 and viol) else ("harness-error" if r.returncode == 2 else "MISSED")
            print(f"MUTANT {pid}/{m['name']}: {res} (exit {r.returncode}, {len(viol)} violation lines, {dt:.0f}s) {firstdetail}")
            if res != "caught":
                print("\n".join(r.stdout.splitlines()[-12:]))
                print(r.stderr[-800:])
            rows.append(dict(property=pid, mutant=m["name"], file=m["file"], old=m["old"], new=m["new"], result=res, exit=r.returncode,
                             violation_lines=len(viol), wall_s=round(dt, 1), tier=tier, scale=scale, first=firstdetail,
                             note=m.get("note", "")))
        finally:
            sh("git", "-C", "/repo", "worktree", "remove", "--force", wt)
            sh("rm", "-rf", wt)
            sh("git", "-C", "/repo", "worktree", "prune")
    with open(os.path.join(V, "sensitivity", f"{pid}.jsonl"), "a") as f:
        for row in rows:
            f.write(json.dumps(row) + "\n")
    return 0 if all(r["result"] == "caught" for r in rows) else 1


if __name__ == "__main__":
    sys.exit(main())

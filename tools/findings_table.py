#!/usr/bin/env python3
"""Prints a markdown table of known_findings.json (used for DESIGN.md section 8)."""
import json, os
V = os.path.dirname(os.path.dirname(os.path.abspath(__file__)))
d = json.load(open(os.path.join(V, "known_findings.json")))
print("| key | property | status | what |")
print("|---|---|---|---|")
for e in d["findings"]:
    what = e["what"].replace("|", "\\|").replace("\n", " ")
    print(f"| {e['key']} | {e['property']} | {e['status']}{' — ' + e['origin'] if e.get('origin') else ''} | {what[:420]} |")

#!/bin/bash
# tools/apply_fix.sh <patch> <commit message (must start with "fix:")>
set -e
patch="$(readlink -f "$1")"; msg="$2"
case "$msg" in fix:*) ;; *) echo "message must start with fix:"; exit 2;; esac
git -C /repo apply --check "$patch"
git -C /repo apply "$patch"
git -C /repo add -A
git -C /repo commit -q -m "$msg"
git -C /repo log --oneline | head -1

#!/bin/bash
# tools/with_patch.sh <patch-file> <command...>
# Runs <command> with VERIF_REPO pointing at a scratch git worktree of /repo (HEAD + uncommitted tracked changes NOT included)
# that has <patch-file> applied.  The worktree lives under /tmp and is removed afterwards.
set -u
patch="$(readlink -f "$1")"; shift
wt="$(mktemp -d /tmp/verif_wt.XXXXXX)"
rmdir "$wt"
git -C /repo worktree add -q --detach "$wt" HEAD || exit 2
cleanup() { git -C /repo worktree remove --force "$wt" 2>/dev/null; rm -rf "$wt"; git -C /repo worktree prune; }
trap cleanup EXIT
if ! git -C "$wt" apply "$patch"; then echo "PATCH DOES NOT APPLY: $patch"; exit 3; fi
VERIF_REPO="$wt" VERIF_NO_EVIDENCE=1 "$@"

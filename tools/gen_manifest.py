#!/usr/bin/env python3
"""Writes MANIFEST.json from the table below (kept in one place so it stays valid)."""
import json, os
V = os.path.dirname(os.path.dirname(os.path.abspath(__file__)))
props = [json.loads(l) for l in open(os.path.join(V, "properties.jsonl"))]
CLAIMED = json.load(open(os.path.join(V, "tools", "claimed.json")))
checks, na = [], []
for p in props:
    pid = p["id"]
    c = CLAIMED.get(pid)
    if not c or not c.get("claimed", True):
        na.append(dict(property_id=pid, reason=(c or {}).get("reason", "check not built yet (work in progress); the technique applies, see DESIGN.md")))
        continue
    checks.append(dict(
        property_id=pid,
        quick_cmd=f"./check {pid} quick",
        thorough_cmd=f"./check {pid} thorough",
        evidence_file=f"/verif/evidence/{pid}.json",
        replay_cmd_template=f"./check {pid} --replay {{path}}",
        engine="pbt",
        level_claimed=dict(category="exploration", text=c["text"], design_ref=c.get("design_ref", f"DESIGN.md section 2, {pid}")),
        level_note=c["note"],
        technique=c["technique"],
    ))
m = dict(
    version=1,
    setup_cmd="./setup.sh",
    hooks=dict(guard="GPYTORCH_VERIF", enable="no source hooks are needed: checks import /repo's working tree directly (PYTHONPATH=/repo) and observe through the public API; GPYTORCH_VERIF=1 is exported by ./check but nothing in /repo reads it",
               baseline_off_cmd="cd /repo && /venv/bin/python -m pytest -ra -q -p no:cacheprovider --timeout=900 --continue-on-collection-errors --junitxml=/tmp/baseline_off.junit.xml",
               source_commits=[], add_only=True),
    engines=[dict(name="pbt", path="/verif/pbt", serves_properties=[c["property_id"] for c in checks],
                  kind_free_text="Hypothesis 6.168 generators (+ exhaustive enumeration of small finite spaces) against independent float64 oracles; sharded over 16 processes; shrinking to JSON replay files")],
    checks=checks,
    not_applicable=na,
    notes="See DESIGN.md. known_findings.json lists genuine defects (fixed: commit / known). Replays of fixed defects live in replays/<id>/ and are re-run first by every check.",
)
json.dump(m, open(os.path.join(V, "MANIFEST.json"), "w"), indent=1)
print("checks:", len(checks), "not_applicable:", len(na))

#!/usr/bin/env python3
"""Renders SENSITIVITY.md from sensitivity/<Cxx>.jsonl (last result per mutant) and seeded/<id>/meta.json."""
import glob, json, os
V = os.path.dirname(os.path.dirname(os.path.abspath(__file__)))
out = ["# SENSITIVITY — do the checks notice when a property is broken?\n",
       "Two sources: (1) hand-written source mutations (`mutants/<Cxx>.json`, applied by `tools/mutants.py` to a scratch worktree of /repo, quick tier),",
       "(2) changes written by independent red-team sub-agents that saw only the property text (`seeded/<id>/`).  `caught` = the quick check exited 1 with a VIOLATION line.\n"]
out.append("## Hand-written mutants (last run per mutant)\n")
tot = caught = 0
for f in sorted(glob.glob(os.path.join(V, "sensitivity", "C*.jsonl"))):
    rows = {}
    for l in open(f):
        r = json.loads(l)
        rows[r["mutant"]] = r
    pid = os.path.basename(f)[:-6]
    out.append(f"### {pid}\n")
    out.append("| mutant | file | result | first violation |")
    out.append("|---|---|---|---|")
    for name, r in rows.items():
        if r.get("result") == "pattern-mismatch":
            continue
        tot += 1
        caught += r.get("result") == "caught"
        first = (r.get("first") or "").replace("|", "\\|")[:160]
        out.append(f"| {name} | {r.get('file','')} | {r.get('result')} | {first} |")
    out.append("")
out.insert(3, f"Totals: {caught} of {tot} hand-written mutants caught.\n")
seeded = sorted(glob.glob(os.path.join(V, "seeded", "*", "meta.json")))
if seeded:
    out.append("## Independently seeded changes\n")
    out.append("| id | property | what | needs | detected by | result |")
    out.append("|---|---|---|---|---|---|")
    for f in seeded:
        m = json.load(open(f))
        out.append(f"| {os.path.basename(os.path.dirname(f))} | {m.get('property')} | {m.get('what','')[:200]} | {m.get('needs','')[:160]} | {m.get('detected_by','')} | {m.get('result','')} |")
open(os.path.join(V, "SENSITIVITY.md"), "w").write("\n".join(out) + "\n")
print(f"{caught}/{tot} mutants; {len(seeded)} seeded")

"""Kernel / mean recipes: Hypothesis strategies, builders (through the public setters) and independent reference
formulas written from the docstrings with explicit (n1, n2, d) difference tensors - no library helpers.

A recipe is a JSON dict:  {"k": "RBF", "batch": [2], "ard": true, "ad": [0, 2] | null, "p": {"lengthscale": [[[..]]]}, ...}
Composite: {"k": "Scale", "batch": [...], "base": R, "p": {"outputscale": ...}}, {"k": "Add"|"Prod", "parts": [R, ...]}.
`d` below is always the dimension the kernel *sees* (after its own active_dims selection)."""
from __future__ import annotations

import math

import torch
from hypothesis import strategies as st

import gpytorch
from gpytorch import kernels as K
from gpytorch import means as M

T = torch.tensor


# ---------------------------------------------------------------------------------------------------
# strategies for numbers
# ---------------------------------------------------------------------------------------------------
def pos(lo, hi):
    """positive hyper-parameter values: a few round numbers plus general floats in [lo, hi], 4 significant digits"""
    rounds = [v for v in (0.1, 0.25, 0.5, 1.0, 1.5, 2.0, 3.0, 5.0) if lo <= v <= hi]
    return st.one_of(st.sampled_from(rounds), st.floats(lo, hi, allow_nan=False, allow_subnormal=False).map(lambda v: float(f"{v:.4g}")))


def arr(shape, elem):
    """nested lists of the given shape with elements from `elem`"""
    shape = list(shape)
    if not shape:
        return elem
    s = elem
    for n in reversed(shape):
        s = st.lists(s, min_size=n, max_size=n)
    return s


LATTICE = st.sampled_from([-2.0, -1.5, -1.0, -0.75, -0.5, -0.25, 0.0, 0.25, 0.5, 0.75, 1.0, 1.5, 2.0])
REAL = st.one_of(LATTICE, st.floats(-3, 3, allow_nan=False, allow_subnormal=False).map(lambda v: float(f"{v:.4g}")))


def points(n, d, batch=()):
    return arr(list(batch) + [n, d], REAL)


# ---------------------------------------------------------------------------------------------------
# kernel recipes
# ---------------------------------------------------------------------------------------------------
STATIONARY = ["RBF", "Matern0.5", "Matern1.5", "Matern2.5", "RQ", "PP0", "PP1", "PP2", "PP3"]
BASIC = STATIONARY + ["Periodic", "Linear", "Poly1", "Poly2", "Poly3", "Cosine", "SM1", "SM2", "Constant"]


@st.composite
def base_kernel(draw, d_in, batch, names=None, allow_ad=True, psd_only=False):
    """one non-composite kernel on inputs of dimension d_in (it may restrict itself with active_dims)"""
    name = draw(st.sampled_from(names or BASIC))
    batch = list(batch)
    ad = None
    d = d_in
    if psd_only and name == "Cosine" and d_in >= 2:
        # the cosine kernel is positive definite only on 1-d inputs: models use it on one active dimension
        ad = [draw(st.integers(0, d_in - 1))]
        d = 1
    elif allow_ad and d_in >= 2 and draw(st.integers(0, 3)) == 0:
        k = draw(st.integers(1, d_in - 1))
        # any order: active_dims=(2, 0) selects column 2 first (matters for ARD parameters)
        ad = draw(st.permutations(list(range(d_in))).map(lambda p: list(p[:k])))
        d = k
    r = {"k": name, "batch": batch, "ad": ad, "d": d, "p": {}}
    ard = False
    if name in STATIONARY or name in ("Periodic", "Linear"):
        ard = draw(st.booleans()) if d >= 2 else draw(st.integers(0, 3)) == 0
    r["ard"] = ard
    ld = d if ard else 1
    if name in STATIONARY:
        r["p"]["lengthscale"] = draw(arr(batch + [1, ld], pos(0.3, 5.0)))
        if name == "RQ":
            r["p"]["alpha"] = draw(arr(batch + [1], pos(0.2, 5.0)))
    elif name == "Periodic":
        r["p"]["lengthscale"] = draw(arr(batch + [1, ld], pos(0.3, 5.0)))
        r["p"]["period_length"] = draw(arr(batch + [1, ld], pos(0.5, 5.0)))
    elif name == "Linear":
        r["p"]["variance"] = draw(arr(batch + [1, ld], pos(0.1, 3.0)))
    elif name.startswith("Poly"):
        r["p"]["offset"] = draw(arr(batch + [1], pos(0.1, 3.0)))
    elif name == "Cosine":
        r["p"]["period_length"] = draw(arr(batch + [1, 1], pos(0.5, 5.0)))
    elif name.startswith("SM"):
        q = int(name[2:])
        r["p"]["mixture_weights"] = draw(arr(batch + [q], pos(0.1, 2.0)))
        r["p"]["mixture_means"] = draw(arr(batch + [q, 1, d], pos(0.05, 1.0)))
        r["p"]["mixture_scales"] = draw(arr(batch + [q, 1, d], pos(0.05, 1.0)))
    elif name == "Constant":
        r["p"]["constant"] = draw(arr(batch, pos(0.1, 3.0)))
    return r


@st.composite
def kernel_tree(draw, d_in, batch, depth=2, names=None, allow_ad=True, psd_only=False):
    batch = list(batch)
    kind = draw(st.sampled_from(["base", "base", "scale", "add", "prod"])) if depth > 0 else "base"
    if kind == "base":
        r = draw(base_kernel(d_in, batch, names, allow_ad, psd_only))
    elif kind == "scale":
        r = {"k": "Scale", "batch": batch, "base": draw(kernel_tree(d_in, batch, depth - 1, names, allow_ad, psd_only)),
             "p": {"outputscale": draw(arr(batch, pos(0.1, 5.0)))}}
    else:
        parts = [draw(kernel_tree(d_in, batch, depth - 1, names, allow_ad, psd_only)) for _ in range(draw(st.integers(2, 3)))]
        if kind in ("add", "prod"):
            # (the same holds for products: MulLinearOperator of two root operators, scaled by a batch of constants, hits
            # `if other > 0` on a multi-element tensor in the dependency)
            # A sum of two bare LinearKernels is a sum of two low-rank root operators, which the dependency
            # (RootLinearOperator.__add__ -> add_low_rank) evaluates through an SVD that fails on rank-deficient data
            # (rows of zeros, duplicates).  Keep at most one bare linear summand; further ones become Poly1 (dense).
            # (a ScaleKernel of a LinearKernel is still a root operator: outputscale * RootLinearOperator)
            seen = False
            for i, p_ in enumerate(parts):
                holder, key, node = parts, i, p_
                while node["k"] == "Scale":
                    holder, key, node = node, "base", node["base"]
                if node["k"] == "Linear":
                    if seen:
                        holder[key] = {"k": "Poly1", "batch": batch, "ad": node["ad"], "d": node["d"], "ard": False,
                                       "p": {"offset": draw(arr(batch + [1], pos(0.1, 3.0)))}}
                    seen = True
            # A LinearKernel evaluates to a root operator; the dependency adds / multiplies such an operand through a Cholesky-based
            # root decomposition of the OTHER operand (LinearOperator.__add__ -> add_low_rank, MulLinearOperator), which raises
            # NotPSDError when that operand is indefinite.  CosineKernel on more than one input dimension is not positive definite:
            # next to a LinearKernel it is used on one active dimension.
            if any(_contains(p_, "Linear") for p_ in parts):
                for p_ in parts:
                    _cosine_to_1d(p_)
        r = {"k": "Add" if kind == "add" else "Prod", "parts": parts, "batch": batch}
    return r


def _contains(node, name):
    if node["k"] == name:
        return True
    if node["k"] == "Scale":
        return _contains(node["base"], name)
    return any(_contains(p_, name) for p_ in node.get("parts", []))


def _cosine_to_1d(node):
    if node["k"] == "Cosine" and node["d"] >= 2:
        node["ad"] = [node["ad"][0] if node["ad"] else 0]
        node["d"] = 1
    elif node["k"] == "Scale":
        _cosine_to_1d(node["base"])
    else:
        for p_ in node.get("parts", []):
            _cosine_to_1d(p_)


_SHARED_PRIORS = None  # dict while a model is built with prior *objects* shared between identical prior recipes


class shared_priors:
    """with shared_priors(True): builders reuse ONE Prior object for all slots whose prior recipe is identical (users do
    pass the same prior instance to several modules; every registration must still contribute its own term)."""

    def __init__(self, on=True):
        self.on = on

    def __enter__(self):
        global _SHARED_PRIORS
        self.prev = _SHARED_PRIORS
        _SHARED_PRIORS = {} if self.on else None

    def __exit__(self, *a):
        global _SHARED_PRIORS
        _SHARED_PRIORS = self.prev
        return False


def _prior_kwargs(r):
    if not r.get("priors"):
        return {}
    import json

    from pbt.priors_ref import build_prior

    out = {}
    for pn, pr in r["priors"].items():
        if _SHARED_PRIORS is None:
            out[f"{pn}_prior"] = build_prior(pr)
        else:
            key = json.dumps(pr, sort_keys=True)
            if key not in _SHARED_PRIORS:
                _SHARED_PRIORS[key] = build_prior(pr)
            out[f"{pn}_prior"] = _SHARED_PRIORS[key]
    return out


def _t(v):
    return v if isinstance(v, torch.Tensor) else T(v)


def build_kernel(r):
    """gpytorch kernel for recipe r; parameters go through the public setters"""
    name = r["k"]
    bs = torch.Size(r.get("batch", []))
    if name == "Scale":
        k = K.ScaleKernel(build_kernel(r["base"]), batch_shape=bs, **_prior_kwargs(r))
        k.outputscale = T(r["p"]["outputscale"])
        return k
    if name == "Add":
        return K.AdditiveKernel(*[build_kernel(p) for p in r["parts"]])
    if name == "Prod":
        return K.ProductKernel(*[build_kernel(p) for p in r["parts"]])
    kw = dict(batch_shape=bs, **_prior_kwargs(r))
    if r.get("ad") is not None:
        kw["active_dims"] = tuple(r["ad"])
    d = r["d"]
    if r.get("ard"):
        kw["ard_num_dims"] = d
    if name == "RBF":
        k = K.RBFKernel(**kw)
    elif name.startswith("Matern"):
        k = K.MaternKernel(nu=float(name[6:]), **kw)
    elif name == "RQ":
        k = K.RQKernel(**kw)
    elif name.startswith("PP"):
        k = K.PiecewisePolynomialKernel(q=int(name[2:]), **kw)
    elif name == "Periodic":
        k = K.PeriodicKernel(**kw)
    elif name == "Linear":
        kw.pop("ard_num_dims", None)
        k = K.LinearKernel(ard_num_dims=d if r.get("ard") else None, **kw)
    elif name.startswith("Poly"):
        kw.pop("ard_num_dims", None)
        k = K.PolynomialKernel(power=int(name[4:]), **kw)
    elif name == "Cosine":
        kw.pop("ard_num_dims", None)
        k = K.CosineKernel(**kw)
    elif name.startswith("SM"):
        kw.pop("ard_num_dims", None)
        k = K.SpectralMixtureKernel(num_mixtures=int(name[2:]), ard_num_dims=d, **kw)
    elif name == "Constant":
        kw.pop("ard_num_dims", None)
        k = K.ConstantKernel(**kw)
    else:
        raise KeyError(name)
    for pn, pv in r["p"].items():
        setattr(k, pn, T(pv))
    return k


# ---------------------------------------------------------------------------------------------------
# reference formulas
# ---------------------------------------------------------------------------------------------------
def _pair(x1, x2):
    return x1.unsqueeze(-2) - x2.unsqueeze(-3)  # (..., n1, n2, d)


def _sqd(x1, x2, ls):
    return (_pair(x1, x2) / ls.unsqueeze(-2)).pow(2).sum(-1)


def _safe_sqrt(sq):
    """sqrt with derivative 0 (not nan) at exactly 0, so that the references are differentiable at coincident rows"""
    mask = sq > 0
    return torch.where(mask, sq, torch.ones_like(sq)).sqrt() * mask


def ref_kernel(r, x1, x2):
    """dense (..., n1, n2) reference value of recipe r on x1 (..., n1, D), x2 (..., n2, D) (D = full input dim)"""
    name = r["k"]
    if name == "Scale":
        os_ = _t(r["p"]["outputscale"])
        return ref_kernel(r["base"], x1, x2) * os_[..., None, None]
    if name == "Add":
        out = None
        for p in r["parts"]:
            v = ref_kernel(p, x1, x2)
            out = v if out is None else out + v
        return out
    if name == "Prod":
        out = None
        for p in r["parts"]:
            v = ref_kernel(p, x1, x2)
            out = v if out is None else out * v
        return out
    if r.get("ad") is not None:
        x1 = x1[..., r["ad"]]
        x2 = x2[..., r["ad"]]
    p = {k: _t(v) for k, v in r["p"].items()}
    d = x1.shape[-1]
    if name == "RBF":
        return torch.exp(-0.5 * _sqd(x1, x2, p["lengthscale"]))
    if name.startswith("Matern"):
        nu = float(name[6:])
        rr = _safe_sqrt(_sqd(x1, x2, p["lengthscale"]))
        e = torch.exp(-math.sqrt(2 * nu) * rr)
        if nu == 0.5:
            return e
        if nu == 1.5:
            return (1 + math.sqrt(3) * rr) * e
        return (1 + math.sqrt(5) * rr + 5.0 / 3.0 * rr**2) * e
    if name == "RQ":
        a = p["alpha"].unsqueeze(-1)
        return (1 + _sqd(x1, x2, p["lengthscale"]) / (2 * a)).pow(-a)
    if name.startswith("PP"):
        q = int(name[2:])
        rr = _safe_sqrt(_sqd(x1, x2, p["lengthscale"]))
        j = d // 2 + q + 1
        base = torch.clamp(1 - rr, min=0.0)
        if q == 0:
            return base**j
        if q == 1:
            return base ** (j + 1) * ((j + 1) * rr + 1)
        if q == 2:
            return base ** (j + 2) * (1 + (j + 2) * rr + (j**2 + 4 * j + 3) / 3.0 * rr**2)
        return base ** (j + 3) * (
            1 + (j + 3) * rr + (6 * j**2 + 36 * j + 45) / 15.0 * rr**2 + (j**3 + 9 * j**2 + 23 * j + 15) / 15.0 * rr**3
        )
    if name == "Periodic":
        diff = _pair(x1, x2)
        per = p["period_length"].unsqueeze(-2)
        lam = p["lengthscale"].unsqueeze(-2)
        return torch.exp(-2 * (torch.sin(math.pi * diff / per).pow(2) / lam).sum(-1))
    if name == "Linear":
        return ((x1 * p["variance"]).unsqueeze(-2) * x2.unsqueeze(-3)).sum(-1)
    if name.startswith("Poly"):
        return ((x1.unsqueeze(-2) * x2.unsqueeze(-3)).sum(-1) + p["offset"].unsqueeze(-1)).pow(int(name[4:]))
    if name == "Cosine":
        rr = _safe_sqrt(_pair(x1, x2).pow(2).sum(-1))
        return torch.cos(math.pi * rr / p["period_length"])
    if name.startswith("SM"):
        tau = _pair(x1, x2).unsqueeze(-4)  # ..., 1, n1, n2, d
        w = p["mixture_weights"]
        mu = p["mixture_means"].unsqueeze(-2)  # ..., Q, 1, 1, d
        sc = p["mixture_scales"].unsqueeze(-2)
        comp = torch.exp(-2 * math.pi**2 * tau**2 * sc**2) * torch.cos(2 * math.pi * tau * mu)
        return (comp * w[..., None, None, None]).sum(-4).prod(-1)
    if name == "Constant":
        c = p["constant"]
        shape = torch.broadcast_shapes(x1.shape[:-2], x2.shape[:-2], c.shape)
        return c[..., None, None].expand(*shape, x1.shape[-2], x2.shape[-2]).clone()
    raise KeyError(name)


def smooth_at_zero(r):
    """False if the kernel has a kink at r=0 (quadratic-expansion distances lose sqrt(eps) there)"""
    name = r["k"]
    if name == "Scale":
        return smooth_at_zero(r["base"])
    if name in ("Add", "Prod"):
        return all(smooth_at_zero(p) for p in r["parts"])
    return not (name in ("Matern0.5", "Matern1.5", "Matern2.5", "Cosine") or name.startswith("PP"))


def describe(r):
    name = r["k"]
    if name == "Scale":
        return f"Scale({describe(r['base'])})"
    if name in ("Add", "Prod"):
        return f"{name}({','.join(describe(p) for p in r['parts'])})"
    return name + ("/ard" if r.get("ard") else "") + ("/ad" if r.get("ad") is not None else "")


def leaves(r):
    if r["k"] == "Scale":
        return leaves(r["base"])
    if r["k"] in ("Add", "Prod"):
        return [l for p in r["parts"] for l in leaves(p)]
    return [r]


def is_composite(r):
    return r["k"] in ("Scale", "Add", "Prod")


# ---------------------------------------------------------------------------------------------------
# means
# ---------------------------------------------------------------------------------------------------
@st.composite
def mean_recipe(draw, d, batch):
    batch = list(batch)
    name = draw(st.sampled_from(["Zero", "Constant", "Constant", "Linear"]))
    r = {"m": name, "batch": batch, "p": {}}
    if name == "Constant":
        r["p"]["constant"] = draw(arr(batch, REAL))
    elif name == "Linear":
        r["d"] = d
        r["p"]["weights"] = draw(arr(batch + [d, 1], REAL))
        r["p"]["bias"] = draw(arr(batch + [1], REAL))
    return r


def build_mean(r):
    bs = torch.Size(r.get("batch", []))
    if r["m"] == "Zero":
        return M.ZeroMean(batch_shape=bs)
    if r["m"] == "Constant":
        m = M.ConstantMean(batch_shape=bs, **_prior_kwargs(r))
        m.constant = T(r["p"]["constant"])  # ConstantMean.constant has a setter
        return m
    m = M.LinearMean(r["d"], batch_shape=bs)
    m.initialize(weights=T(r["p"]["weights"]), bias=T(r["p"]["bias"]))
    return m


def ref_mean(r, x):
    if r["m"] == "Zero":
        bshape = torch.broadcast_shapes(x.shape[:-2], torch.Size(r.get("batch", [])))
        return torch.zeros(*bshape, x.shape[-2])
    if r["m"] == "Constant":
        c = _t(r["p"]["constant"])
        bshape = torch.broadcast_shapes(x.shape[:-2], c.shape)
        return c[..., None].expand(*bshape, x.shape[-2]).clone()
    w = _t(r["p"]["weights"])
    b = _t(r["p"]["bias"])
    return (x @ w).squeeze(-1) + b

"""Shared machinery: cases, subchecks, the per-case context that collects violations, comparisons.

A *case* is a JSON-serialisable dict.  ``Subcheck.run(case, ctx)`` is a pure function of the case and the code
under test; it reports through ``ctx`` and never prints.  Replay = ``run(json.load(f)["case"], Ctx())``.
"""
from __future__ import annotations

import hashlib
import json
import math
import os
import traceback
from contextlib import contextmanager
from dataclasses import dataclass, field
from typing import Any, Callable, Iterable, Optional

REPO = os.environ.get("VERIF_REPO", "/repo")
REPO_PKG = os.path.join(REPO, "gpytorch") + os.sep


class Reject(Exception):
    """The library refused the case in a documented way (counted under rejected_cleanly)."""


class Discard(Exception):
    """The case is outside the stated domain (ill-conditioned, empty selection ...) - counted, not judged."""


class LibraryFailure(Exception):
    """An exception raised while observing the library (already recorded on the ctx)."""


def canonical(case: Any) -> str:
    return json.dumps(case, sort_keys=True, separators=(",", ":"), default=_json_default)


def _json_default(o):
    try:
        import torch

        if isinstance(o, torch.Tensor):
            return o.tolist()
        if isinstance(o, torch.Size):
            return list(o)
    except Exception:  # noqa: BLE001
        pass
    if isinstance(o, (set, frozenset)):
        return sorted(o)
    if isinstance(o, tuple):
        return list(o)
    raise TypeError(f"not JSON serialisable: {type(o)}")


def case_hash(case: Any) -> str:
    return hashlib.sha1(canonical(case).encode()).hexdigest()[:16]


def innermost_repo_frame(tb) -> Optional[str]:
    """file:function of the innermost traceback frame that lies in /repo/gpytorch (None if there is none)."""
    best = None
    for fs in traceback.extract_tb(tb):
        if fs.filename.startswith(REPO_PKG):
            best = f"{fs.filename[len(REPO_PKG):]}:{fs.name}"
    return best


# dependency (linear_operator) code paths with known defects of their own; an exception that passes through one of them is tagged
# "|via:<function>" in its class so that known_findings.json can name exactly that path and nothing else
DEPENDENCY_PATHS = ("add_low_rank",)


def via_dependency_path(tb) -> str:
    for fs in traceback.extract_tb(tb):
        if "linear_operator" in fs.filename and fs.name in DEPENDENCY_PATHS:
            return f"|via:{fs.name}"
    return ""


def innermost_frame(tb) -> str:
    fss = traceback.extract_tb(tb)
    if not fss:
        return "?"
    fs = fss[-1]
    return f"{os.path.basename(fs.filename)}:{fs.name}"


@dataclass
class Violation:
    subcheck: str
    name: str  # which assertion inside the subcheck
    kind: str  # value | shape | exception | invariant
    cls: str  # coarse class of the case (used for bucketing and for known-findings matching)
    detail: str

    @property
    def bucket(self) -> str:
        return f"{self.subcheck}|{self.name}|{self.kind}|{self.cls}"

    def to_json(self):
        return dict(subcheck=self.subcheck, name=self.name, kind=self.kind, cls=self.cls, detail=self.detail)


class Ctx:
    """Collects what one case produced."""

    def __init__(self, subcheck: str = "?"):
        self.subcheck = subcheck
        self.violations: list[Violation] = []
        self.labels: list[str] = []
        self.nontrivial: Optional[bool] = None
        self.cls = ""  # default coarse class for violations of this case
        self.notes: dict[str, Any] = {}
        self.comparisons = 0

    # -- bookkeeping ---------------------------------------------------------------------------------
    def label(self, *labels: str):
        self.labels.extend(labels)

    def set_nontrivial(self, flag: bool):
        self.nontrivial = bool(flag) if self.nontrivial is None else (self.nontrivial or bool(flag))

    def fail(self, name: str, kind: str, detail: str, cls: Optional[str] = None):
        self.violations.append(Violation(self.subcheck, name, kind, self.cls if cls is None else cls, detail[:600]))

    # -- observing the library -----------------------------------------------------------------------
    @contextmanager
    def observing(self, name: str, cls: Optional[str] = None, reject: tuple = (), reject_match: str = ""):
        """Run library calls.  Any exception inside is a violation (the property says a value is returned),
        unless it is an instance of ``reject`` (and its message contains ``reject_match``): then the case is a
        documented rejection."""
        try:
            yield
        except (Reject, Discard, LibraryFailure):
            raise
        except BaseException as e:  # noqa: BLE001
            if isinstance(e, (KeyboardInterrupt, SystemExit, MemoryError)):
                raise
            if reject and isinstance(e, reject) and (reject_match in str(e)):
                raise Reject(f"{type(e).__name__}: {str(e)[:120]}") from None
            where = innermost_repo_frame(e.__traceback__) or innermost_frame(e.__traceback__)
            c = self.cls if cls is None else cls
            self.violations.append(
                Violation(
                    self.subcheck,
                    name,
                    "exception",
                    f"{c}|{type(e).__name__}@{where}{via_dependency_path(e.__traceback__)}",
                    f"{type(e).__name__}: {str(e)[:400]}",
                )
            )
            raise LibraryFailure(name) from e

    # -- comparisons ---------------------------------------------------------------------------------
    def close(self, name: str, got, want, rtol: float = 1e-9, atol: float = 1e-11, cls: Optional[str] = None,
              scale: Optional[float] = None) -> bool:
        """|got-want| <= atol*scale + rtol*|want| elementwise; shapes must agree exactly."""
        import torch

        self.comparisons += 1
        got = _as_tensor(got)
        want = _as_tensor(want)
        if tuple(got.shape) != tuple(want.shape):
            self.fail(name, "shape", f"got shape {tuple(got.shape)}, expected {tuple(want.shape)}", cls)
            return False
        if got.numel() == 0:
            return True
        got = got.detach().to(torch.float64)
        want = want.detach().to(torch.float64)
        if not bool(torch.isfinite(got).all()):
            if bool(torch.isfinite(want).all()):
                self.fail(name, "value", f"non-finite output {_short(got)} where {_short(want)} expected", cls)
                return False
        sc = float(want.abs().max()) if scale is None else scale
        if not math.isfinite(sc):
            sc = 1.0
        sc = max(sc, 1.0) if scale is None else sc
        err = (got - want).abs()
        bound = atol * sc + rtol * want.abs()
        bad = ~(err <= bound)
        if bool(bad.any()):
            worst = float(torch.where(bad, err, torch.zeros_like(err)).max())
            self.fail(name, "value", f"max|err|={worst:.3e} (rtol={rtol:g}, atol={atol:g}*{sc:.3g}) got={_short(got)} want={_short(want)}", cls)
            return False
        return True

    def equal(self, name: str, got, want, cls: Optional[str] = None) -> bool:
        self.comparisons += 1
        if got != want:
            self.fail(name, "value", f"got {got!r}, expected {want!r}", cls)
            return False
        return True

    def check(self, name: str, cond: bool, detail: str = "", cls: Optional[str] = None, kind: str = "invariant") -> bool:
        self.comparisons += 1
        if not cond:
            self.fail(name, kind, detail, cls)
            return False
        return True


def _as_tensor(x):
    import torch

    if isinstance(x, torch.Tensor):
        return x
    if hasattr(x, "to_dense"):
        return x.to_dense()
    return torch.as_tensor(x, dtype=torch.float64)


def _short(t, k: int = 6) -> str:
    flat = t.reshape(-1)
    vals = ", ".join(f"{float(v):.6g}" for v in flat[:k])
    return f"[{vals}{', ...' if flat.numel() > k else ''}]"


@dataclass
class Subcheck:
    name: str
    run: Callable[[dict, Ctx], None]
    strategy: Any = None  # hypothesis strategy (or zero-arg callable returning one) producing case dicts
    enumerate: Optional[Callable[[str], Iterable[dict]]] = None  # tier -> iterable of cases (deterministic)
    quick: int = 200  # number of generated cases per tier (ignored for enumerations)
    thorough: int = 5000
    rule: str = ""  # the non-triviality rule in words
    exhaustive_note: str = ""  # set for enumerations that cover a finite space completely
    min_shard: int = 25  # do not split below this many examples per shard
    weight: float = 1.0  # relative cost, used to order work
    stateful: Any = None  # callable(ctx_factory) -> RuleBasedStateMachine class (cases are recorded by the machine)
    max_shards: int = 16

    def get_strategy(self):
        s = self.strategy
        if callable(s) and not hasattr(s, "example"):
            s = s()
        return s


@dataclass
class PropertySpec:
    pid: str
    subchecks: list
    level_text: str = ""
    assumptions: list = field(default_factory=list)
    rule: str = ""

"""Prior recipes: strategy, builder and torch-differentiable reference log densities (closed forms)."""
from __future__ import annotations

import math

import torch
from hypothesis import strategies as st

from gpytorch import priors as P

from pbt.kern import pos

KINDS = ["Normal", "LogNormal", "Gamma", "HalfNormal", "HalfCauchy", "Uniform"]


@st.composite
def prior_recipe(draw, positive=True):
    kinds = KINDS if positive else ["Normal"]
    k = draw(st.sampled_from(kinds))
    if k == "Normal":
        return {"pr": k, "loc": draw(st.sampled_from([-1.0, 0.0, 0.5, 2.0])), "scale": draw(pos(0.2, 3.0))}
    if k == "LogNormal":
        return {"pr": k, "loc": draw(st.sampled_from([-1.0, 0.0, 0.5])), "scale": draw(pos(0.2, 2.0))}
    if k == "Gamma":
        return {"pr": k, "concentration": draw(pos(0.5, 5.0)), "rate": draw(pos(0.2, 5.0))}
    if k in ("HalfNormal", "HalfCauchy"):
        return {"pr": k, "scale": draw(pos(0.2, 3.0))}
    return {"pr": "Uniform", "a": 0.0, "b": draw(st.sampled_from([50.0, 100.0]))}


def build_prior(r):
    k = r["pr"]
    if k == "Normal":
        return P.NormalPrior(r["loc"], r["scale"])
    if k == "LogNormal":
        return P.LogNormalPrior(r["loc"], r["scale"])
    if k == "Gamma":
        return P.GammaPrior(r["concentration"], r["rate"])
    if k == "HalfNormal":
        return P.HalfNormalPrior(r["scale"])
    if k == "HalfCauchy":
        return P.HalfCauchyPrior(r["scale"])
    if k == "Uniform":
        return P.UniformPrior(r["a"], r["b"])
    raise KeyError(k)


def ref_logpdf(r, x):
    """elementwise log density (torch, differentiable)"""
    k = r["pr"]
    if k == "Normal":
        return -0.5 * ((x - r["loc"]) / r["scale"]) ** 2 - math.log(r["scale"]) - 0.5 * math.log(2 * math.pi)
    if k == "LogNormal":
        lx = torch.log(x)
        return -0.5 * ((lx - r["loc"]) / r["scale"]) ** 2 - math.log(r["scale"]) - 0.5 * math.log(2 * math.pi) - lx
    if k == "Gamma":
        a, b = r["concentration"], r["rate"]
        return a * math.log(b) - math.lgamma(a) + (a - 1) * torch.log(x) - b * x
    if k == "HalfNormal":
        return 0.5 * math.log(2 / math.pi) - math.log(r["scale"]) - x**2 / (2 * r["scale"] ** 2)
    if k == "HalfCauchy":
        return math.log(2 / (math.pi * r["scale"])) - torch.log1p((x / r["scale"]) ** 2)
    if k == "Uniform":
        return torch.zeros_like(x) - math.log(r["b"] - r["a"])
    raise KeyError(k)

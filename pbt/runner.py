"""Runner: shards subchecks over processes, aggregates, applies the known-findings file, writes evidence.

usage:  python -m pbt.runner <Cxx> <quick|thorough>            (VERIF_SEED, VERIF_SCALE, VERIF_JOBS honoured)
        python -m pbt.runner <Cxx> --replay <file>
        python -m pbt.runner <Cxx> <tier> --only <subcheck-glob>   (development)
exit 0: held on everything explored (KNOWN-FINDING lines allowed); 1: violation(s); 2: harness error.
"""
from __future__ import annotations

import collections
import fnmatch
import glob
import importlib
import json
import os
import sys
import time
import traceback
import zlib

import torch

VERIF = os.path.dirname(os.path.dirname(os.path.abspath(__file__)))
if VERIF not in sys.path:
    sys.path.insert(0, VERIF)

from pbt.core import (  # noqa: E402
    REPO,
    Ctx,
    Discard,
    LibraryFailure,
    Reject,
    Violation,
    canonical,
    case_hash,
    innermost_frame,
    innermost_repo_frame,
    via_dependency_path,
)

MAX_SAMPLES = 3


# ----------------------------------------------------------------------------------------------------
# worker side
# ----------------------------------------------------------------------------------------------------
_ENV_READY = False


def _prepare_env():
    global _ENV_READY
    if _ENV_READY:
        return
    import warnings

    warnings.filterwarnings("ignore")
    if REPO not in sys.path:
        sys.path.insert(0, REPO)
    import torch

    torch.set_num_threads(1)
    try:
        torch.set_num_interop_threads(1)
    except RuntimeError:
        pass
    torch.set_default_dtype(torch.float64)
    import gpytorch

    assert os.path.abspath(gpytorch.__file__).startswith(os.path.abspath(REPO) + os.sep), (
        f"gpytorch imported from {gpytorch.__file__}, expected {REPO}"
    )
    _ENV_READY = True


def load_property(pid: str):
    _prepare_env()
    mod = importlib.import_module(f"pbt.props.{pid.lower()}")
    return mod.SPEC


class Stats:
    def __init__(self):
        self.evaluations = 0
        self.nontrivial = set()
        self.labels = collections.Counter()
        self.rejected = collections.Counter()
        self.discarded = collections.Counter()
        self.buckets = {}  # bucket -> dict(violation=..., case=..., count=int)
        self.harness_errors = []
        self.samples = []
        self.comparisons = 0
        self.skipped_budget = 0

    def to_json(self):
        return dict(
            evaluations=self.evaluations,
            nontrivial=sorted(self.nontrivial),
            labels=dict(self.labels),
            rejected=dict(self.rejected),
            discarded=dict(self.discarded),
            buckets=self.buckets,
            harness_errors=self.harness_errors[:5],
            n_harness_errors=len(self.harness_errors),
            samples=self.samples,
            comparisons=self.comparisons,
            skipped_budget=self.skipped_budget,
        )


def evaluate_case(sub, case, stats: Stats):
    """Run one case; returns the list of violations it produced."""
    ctx = Ctx(sub.name)
    stats.evaluations += 1
    # every case is a pure function of its content: random numbers the library draws on its own (initialisations, probe vectors)
    # come from a generator seeded by the case, never from what an earlier case of the same worker process left behind
    torch.manual_seed(zlib.crc32(canonical(case).encode()) & 0x7FFFFFFF)
    try:
        sub.run(case, ctx)
    except Reject as e:
        stats.rejected[str(e)[:80]] += 1
    except Discard as e:
        stats.discarded[str(e)[:80]] += 1
        return []
    except LibraryFailure:
        pass
    except (KeyboardInterrupt, SystemExit, MemoryError):
        raise
    except BaseException as e:  # noqa: BLE001
        frame = innermost_repo_frame(e.__traceback__)
        if frame is not None:
            ctx.violations.append(
                Violation(sub.name, "escaped", "exception", f"{ctx.cls}|{type(e).__name__}@{frame}{via_dependency_path(e.__traceback__)}",
                          f"{type(e).__name__}: {str(e)[:400]}")
            )
        else:
            stats.harness_errors.append(
                dict(subcheck=sub.name, error=f"{type(e).__name__}: {str(e)[:300]}", where=innermost_frame(e.__traceback__),
                     tb=traceback.format_exc()[-1500:], case=json.loads(canonical(case)))
            )
            return []
    stats.comparisons += ctx.comparisons
    for lab in ctx.labels:
        stats.labels[lab] += 1
    if ctx.nontrivial:
        h = case_hash(case)
        if h not in stats.nontrivial:
            stats.nontrivial.add(h)
            if len(stats.samples) < MAX_SAMPLES:
                stats.samples.append(json.loads(canonical(case)))
    for v in ctx.violations:
        b = stats.buckets.get(v.bucket)
        if b is None:
            stats.buckets[v.bucket] = dict(violation=v.to_json(), case=json.loads(canonical(case)), count=1)
        else:
            b["count"] += 1
    return ctx.violations


def _hyp_settings(n, shrink):
    from hypothesis import HealthCheck, Phase, settings

    phases = [Phase.generate, Phase.target] + ([Phase.shrink] if shrink else [])
    return settings(
        max_examples=max(1, n),
        database=None,
        deadline=None,
        derandomize=False,
        report_multiple_bugs=False,
        phases=phases,
        suppress_health_check=[HealthCheck.too_slow, HealthCheck.data_too_large, HealthCheck.large_base_example,
                               HealthCheck.differing_executors],
        print_blob=False,
    )


_CONSTANTS_FROZEN = False


def _freeze_hypothesis_constants():
    """Hypothesis (>= 6.131) seeds its generators with constants collected from the *local* modules present in sys.modules (here: /repo's
    gpytorch and /verif's pbt - thresholds such as -11.3137 get drawn on purpose, which is welcome), re-collecting whenever a module is
    imported.  Which modules a worker process has imported depends on the tasks it happened to run before, which made runs depend on
    scheduling.  The pool is therefore computed once per process, after the property module and gpytorch are loaded, and frozen."""
    global _CONSTANTS_FROZEN
    if _CONSTANTS_FROZEN:
        return
    _CONSTANTS_FROZEN = True
    try:
        import gpytorch  # noqa: F401
        from hypothesis.internal.conjecture import providers as _p

        frozen = _p._get_local_constants()
        _p._get_local_constants = lambda: frozen
    except Exception:  # noqa: BLE001  (another Hypothesis version: nothing to freeze)
        pass


def run_task(task: dict) -> dict:
    """One unit of work in a worker process."""
    t0 = time.time()
    try:
        spec = load_property(task["pid"])
        _freeze_hypothesis_constants()
        sub = next(s for s in spec.subchecks if s.name == task["sub"])
        stats = Stats()
        deadline = task.get("deadline")
        if task["mode"] == "replay":
            for c in task["cases"]:
                evaluate_case(sub, c, stats)
        elif task["mode"] == "enumerate":
            for i, c in enumerate(sub.enumerate(task["tier"])):
                if i % task["nshards"] != task["shard"]:
                    continue
                if deadline and time.time() > deadline:
                    stats.skipped_budget += 1
                    continue
                evaluate_case(sub, c, stats)
        elif task["mode"] == "generate":
            import hypothesis
            from hypothesis import given

            strat = sub.get_strategy()

            @hypothesis.seed(task["seed"])
            @_hyp_settings(task["n"], shrink=False)
            @given(strat)
            def t(case):
                if deadline and time.time() > deadline:
                    stats.skipped_budget += 1
                    return
                evaluate_case(sub, case, stats)

            t()
        elif task["mode"] == "shrink":
            out = _shrink(sub, task)
            return dict(task=task, shrunk=out, wall=time.time() - t0)
        else:
            raise ValueError(task["mode"])
        return dict(task=task, stats=stats.to_json(), wall=time.time() - t0)
    except BaseException as e:  # noqa: BLE001
        return dict(task=task, fatal=f"{type(e).__name__}: {e}", tb=traceback.format_exc()[-3000:], wall=time.time() - t0)


def _shrink(sub, task):
    """Re-run the generating shard with the shrink phase; the test fails iff the wanted bucket shows up."""
    import hypothesis
    from hypothesis import given

    want = task["bucket"]
    budget = task.get("shrink_budget", 60.0)
    state = dict(best=None, t0=None, fails=0)

    class _Hit(Exception):
        pass

    strat = sub.get_strategy()

    @hypothesis.seed(task["seed"])
    @_hyp_settings(task["n"], shrink=True)
    @given(strat)
    def t(case):
        if state["t0"] is not None and time.time() - state["t0"] > budget:
            # budget over: only the best known example keeps failing, so the shrinker stops quickly
            if state["best"] is not None and canonical(case) == canonical(state["best"]):
                raise _Hit()
            return
        st = Stats()
        vs = evaluate_case(sub, case, st)
        if any(v.bucket == want for v in vs):
            if state["t0"] is None:
                state["t0"] = time.time()
            state["best"] = json.loads(canonical(case))
            state["fails"] += 1
            raise _Hit()

    try:
        t()
    except _Hit:
        pass
    except BaseException:  # noqa: BLE001  (Flaky etc.: keep whatever we have)
        pass
    return state["best"]


# ----------------------------------------------------------------------------------------------------
# driver side
# ----------------------------------------------------------------------------------------------------
def _seed_for(base: int, subname: str, shard: int) -> int:
    return (base * 1_000_003 + (zlib.crc32(subname.encode()) % 9973) * 1009 + shard) % (2**31 - 1)


def load_known(pid: str):
    path = os.path.join(VERIF, "known_findings.json")
    if not os.path.exists(path):
        return []
    with open(path) as f:
        data = json.load(f)
    out = [e for e in data.get("findings", []) if e.get("property") == pid]
    extra = os.environ.get("VERIF_EXTRA_KNOWN")  # development aid only; never set by the registered commands
    if extra and os.path.exists(extra):
        with open(extra) as f:
            d2 = json.load(f)
        out += [e for e in (d2.get("findings", d2) if isinstance(d2, dict) else d2) if e.get("property") == pid]
    return out


def match_known(entry, v: dict) -> bool:
    m = entry.get("match", {})
    for k in ("subcheck", "name", "kind", "cls"):
        if k in m and not fnmatch.fnmatchcase(str(v.get(k, "")), m[k]):
            return False
    return True


def main(argv=None):
    argv = list(sys.argv[1:] if argv is None else argv)
    if len(argv) < 2:
        print(__doc__)
        return 2
    pid = argv[0].upper()
    if argv[1] == "--replay":
        return replay(pid, argv[2])
    tier = argv[1]
    assert tier in ("quick", "thorough"), tier
    only = None
    if "--only" in argv:
        only = argv[argv.index("--only") + 1]
    collect = "--collect" in argv
    seed = int(os.environ.get("VERIF_SEED", "1") or "1")
    scale = float(os.environ.get("VERIF_SCALE", "1") or "1")
    jobs = int(os.environ.get("VERIF_JOBS", "16") or "16")
    budget = float(os.environ.get("VERIF_BUDGET_S", "900" if tier == "quick" else "7200"))
    t0 = time.time()
    deadline = t0 + budget

    # import in the driver only to read the spec (names, counts) - done in a subprocess-free way but cheap enough
    spec = load_property(pid)
    subs = [s for s in spec.subchecks if only is None or fnmatch.fnmatchcase(s.name, only)]
    known_all = load_known(pid)
    known = [e for e in known_all if e.get("status") == "known"]

    tasks = []
    # regression tier: committed replays first
    reg_files = sorted(glob.glob(os.path.join(VERIF, "replays", pid, "*.json")))
    reg_by_sub = collections.defaultdict(list)
    for fpath in reg_files:
        with open(fpath) as f:
            r = json.load(f)
        reg_by_sub[r["subcheck"]].append(r["case"])
    for sname, cases in reg_by_sub.items():
        if any(s.name == sname for s in subs):
            tasks.append(dict(pid=pid, sub=sname, mode="replay", cases=cases, tier=tier))
    for s in subs:
        if s.enumerate is not None:
            nsh = min(jobs, s.max_shards)
            for sh in range(nsh):
                tasks.append(dict(pid=pid, sub=s.name, mode="enumerate", tier=tier, shard=sh, nshards=nsh, deadline=deadline,
                                  weight=s.weight))
        if s.strategy is not None:
            n = int(round((s.quick if tier == "quick" else s.thorough) * scale))
            if n <= 0:
                continue
            nsh = max(1, min(jobs, s.max_shards, n // max(1, s.min_shard)))
            per = -(-n // nsh)
            for sh in range(nsh):
                tasks.append(dict(pid=pid, sub=s.name, mode="generate", tier=tier, shard=sh, nshards=nsh, n=per,
                                  seed=_seed_for(seed, s.name, sh), deadline=deadline, weight=s.weight * per))
    tasks.sort(key=lambda t: -t.get("weight", 1e9))

    results = _run_pool(tasks, jobs)

    # aggregate
    agg = Stats()
    per_sub = collections.defaultdict(lambda: dict(evaluations=0, distinct_nontrivial=0, wall_cpu_s=0.0))
    sub_nontriv = collections.defaultdict(set)
    fatal = []
    replayed = 0
    bucket_origin = {}
    for r in results:
        if "fatal" in r:
            fatal.append(r)
            continue
        st = r["stats"]
        t = r["task"]
        if t["mode"] == "replay":
            replayed += st["evaluations"]
        agg.evaluations += st["evaluations"]
        agg.comparisons += st["comparisons"]
        agg.skipped_budget += st["skipped_budget"]
        sub_nontriv[t["sub"]].update(st["nontrivial"])
        per_sub[t["sub"]]["evaluations"] += st["evaluations"]
        per_sub[t["sub"]]["wall_cpu_s"] += r["wall"]
        for k, v in st["labels"].items():
            agg.labels[k] += v
        for k, v in st["rejected"].items():
            agg.rejected[k] += v
        for k, v in st["discarded"].items():
            agg.discarded[k] += v
        for b, info in st["buckets"].items():
            if b not in agg.buckets:
                agg.buckets[b] = info
                bucket_origin[b] = t
            else:
                agg.buckets[b]["count"] += info["count"]
        agg.harness_errors.extend(st["harness_errors"])
        if len(agg.samples) < 8:
            for s_ in st["samples"]:
                if len(agg.samples) < 8 and all(canonical(s_) != canonical(x) for x in agg.samples):
                    agg.samples.append(dict(subcheck=t["sub"], case=s_))
    n_harness = sum(r["stats"]["n_harness_errors"] for r in results if "stats" in r)
    for sname, hs in sub_nontriv.items():
        per_sub[sname]["distinct_nontrivial"] = len(hs)
    distinct_nontrivial = sum(len(h) for h in sub_nontriv.values())

    # classify buckets
    known_hits = collections.defaultdict(lambda: dict(count=0, buckets=0))
    new_buckets = []
    for b, info in sorted(agg.buckets.items()):
        v = info["violation"]
        ent = next((e for e in known if match_known(e, v)), None)
        if ent is not None:
            known_hits[ent["key"]]["count"] += info["count"]
            known_hits[ent["key"]]["buckets"] += 1
            known_hits[ent["key"]]["what"] = ent.get("what", "")
        else:
            new_buckets.append((b, info))

    # group new buckets by root-cause key (subcheck, name, kind-with-frame) to limit output; shrink the first of each
    out_dir = os.path.join(VERIF, "out", "replays", pid)
    os.makedirs(out_dir, exist_ok=True)
    violation_lines = []
    if new_buckets:
        groups = collections.OrderedDict()
        for b, info in new_buckets:
            v = info["violation"]
            gkey = (v["name"], v["kind"], v["cls"].split("|")[-1] if v["kind"] == "exception" else v["cls"])
            groups.setdefault(gkey, []).append((b, info))
        shrink_tasks = []
        for gkey, members in groups.items():
            b, info = members[0]
            origin = bucket_origin.get(b)
            if origin and origin["mode"] == "generate" and not collect and os.environ.get("VERIF_NO_SHRINK") != "1":
                t = dict(origin)
                t.update(mode="shrink", bucket=b, shrink_budget=20.0 if tier == "quick" else 240.0)
                shrink_tasks.append((gkey, t))
        shrunk = {}
        if shrink_tasks:
            res = _run_pool([t for _, t in shrink_tasks[:16]], jobs)
            for r in res:
                if r.get("shrunk") is not None:
                    shrunk[r["task"]["bucket"]] = r["shrunk"]
        for gkey, members in groups.items():
            b, info = members[0]
            case = shrunk.get(b, info["case"])
            fname = os.path.join(out_dir, f"{zlib.crc32(b.encode()):08x}.json")
            with open(fname, "w") as f:
                json.dump(dict(property=pid, subcheck=info["violation"]["subcheck"], violation=info["violation"],
                               shrunk=b in shrunk, n_buckets_in_group=len(members),
                               occurrences=sum(m[1]["count"] for m in members), case=case), f, indent=1, default=str)
            violation_lines.append((fname, info["violation"], len(members), sum(m[1]["count"] for m in members)))

    wall = time.time() - t0
    exhaustive_notes = [s.exhaustive_note for s in subs if s.exhaustive_note and s.enumerate is not None]
    evidence = dict(
        property_id=pid,
        tier=tier,
        seed=seed,
        level="exploration",
        coverage=dict(
            evaluations=agg.evaluations,
            distinct_nontrivial=distinct_nontrivial,
            rule=spec.rule,
            samples=agg.samples[:6],
            comparisons=agg.comparisons,
            classes=dict(sorted(agg.labels.items(), key=lambda kv: (-kv[1], kv[0]))[:250]),
            per_subcheck={k: dict(v, wall_cpu_s=round(v["wall_cpu_s"], 1)) for k, v in sorted(per_sub.items())},
            rejected_cleanly=dict(agg.rejected),
            discarded_out_of_domain=dict(agg.discarded),
            known_finding_hits={k: dict(v) for k, v in known_hits.items()},
            replayed_regressions=replayed,
            exhaustive=bool(exhaustive_notes) and agg.skipped_budget == 0,
            exhaustive_subspaces=exhaustive_notes,
            inconclusive_budget=agg.skipped_budget > 0,
            skipped_for_budget=agg.skipped_budget,
            scale=scale,
        ),
        assumptions=list(spec.assumptions),
        wall_s=round(wall, 2),
        violations=len(violation_lines),
    )
    if only is None and scale == 1.0 and os.environ.get("VERIF_NO_EVIDENCE") != "1":
        os.makedirs(os.path.join(VERIF, "evidence"), exist_ok=True)
        with open(os.path.join(VERIF, "evidence", f"{pid}.json"), "w") as f:
            json.dump(evidence, f, indent=1, sort_keys=True, default=str)
            f.write("\n")

    # report
    print(f"[{pid} {tier} seed={seed}] evaluations={agg.evaluations} distinct_nontrivial={distinct_nontrivial} "
          f"comparisons={agg.comparisons} rejected={sum(agg.rejected.values())} discarded={sum(agg.discarded.values())} "
          f"replayed={replayed} wall={wall:.1f}s")
    for sname, v in sorted(per_sub.items()):
        print(f"   {sname:42s} eval={v['evaluations']:8d} nontrivial={v['distinct_nontrivial']:8d} cpu={v['wall_cpu_s']:.1f}s")
    if os.environ.get("VERIF_VERBOSE"):
        for k, v in sorted(agg.labels.items(), key=lambda kv: -kv[1])[:80]:
            print(f"      label {k}: {v}")
        for k, v in agg.rejected.items():
            print(f"      rejected {k}: {v}")
        for k, v in agg.discarded.items():
            print(f"      discarded {k}: {v}")
    for key, h in sorted(known_hits.items()):
        print(f"KNOWN-FINDING: property={pid} {key}: {h.get('what','')} (hit {h['count']} times in {h['buckets']} classes)")
    if fatal or n_harness:
        for r in fatal[:3]:
            print(f"HARNESS-ERROR task={r['task'].get('sub')} {r['fatal']}\n{r.get('tb','')}")
        for h in agg.harness_errors[:3]:
            print(f"HARNESS-ERROR subcheck={h['subcheck']} {h['error']} at {h['where']}\n{h['tb']}\ncase={json.dumps(h['case'])[:800]}")
        print(f"harness errors: {len(fatal)} fatal tasks, {n_harness} cases")
    if len(violation_lines) > 25:
        print(f"({len(violation_lines)} violation groups; the first 25 are listed, all replays are in {out_dir})")
    for fname, v, nb, occ in violation_lines[:25]:
        print(f"VIOLATION property={pid} replay={fname}")
        print(f"   subcheck={v['subcheck']} assert={v['name']} kind={v['kind']} class={v['cls']} ({occ} occurrences, {nb} classes)")
        print(f"   {v['detail']}")
    if collect:
        os.makedirs(os.path.join(out_dir, "buckets"), exist_ok=True)
        for b, info in new_buckets:
            bf = os.path.join(out_dir, "buckets", f"{zlib.crc32(b.encode()):08x}.json")
            with open(bf, "w") as f:
                json.dump(dict(property=pid, subcheck=info["violation"]["subcheck"], violation=info["violation"], case=info["case"]), f, default=str)
            print(f"   BUCKET {b} x{info['count']} [{os.path.basename(bf)}]: {info['violation']['detail'][:200]}")
    if violation_lines:
        return 1
    if fatal or n_harness:
        return 2
    return 0


def _run_pool(tasks, jobs):
    import multiprocessing as mp
    from concurrent.futures import ProcessPoolExecutor

    if not tasks:
        return []
    if jobs <= 1 or len(tasks) == 1:
        return [run_task(t) for t in tasks]
    ctx = mp.get_context("spawn")
    with ProcessPoolExecutor(max_workers=min(jobs, len(tasks)), mp_context=ctx) as ex:
        return list(ex.map(run_task, tasks))


def replay(pid: str, path: str) -> int:
    with open(path) as f:
        r = json.load(f)
    spec = load_property(pid)
    sub = next(s for s in spec.subchecks if s.name == r["subcheck"])
    st = Stats()
    vs = evaluate_case(sub, r["case"], st)
    known = [e for e in load_known(pid) if e.get("status") == "known"]
    if st.harness_errors:
        print("HARNESS-ERROR", st.harness_errors[0]["error"], "\n", st.harness_errors[0]["tb"])
        return 2
    rc = 0
    for v in vs:
        ent = next((e for e in known if match_known(e, v.to_json())), None)
        if ent:
            print(f"KNOWN-FINDING: property={pid} {ent['key']}: {ent.get('what','')}")
        else:
            print(f"VIOLATION property={pid} replay={path}")
            print(f"   subcheck={v.subcheck} assert={v.name} kind={v.kind} class={v.cls}\n   {v.detail}")
            rc = 1
    if not vs:
        print(f"[{pid}] replay {path}: property held")
    return rc


if __name__ == "__main__":
    sys.exit(main())

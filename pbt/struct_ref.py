"""Independent references for C09: Keys' cubic-convolution interpolation on a regular grid (with the library's
documented boundary convention), grid enumeration orders, Nystrom / Titsias / RFF dense formulas.

Nothing here calls gpytorch."""
from __future__ import annotations

import math

import torch

from pbt import kern

T = torch.tensor


# ---------------------------------------------------------------------------------------------------
# grids
# ---------------------------------------------------------------------------------------------------
def lex_points(axes):
    """all grid points, first dimension varying SLOWEST (index = i0*g1*g2 + i1*g2 + i2) - meshgrid(indexing='ij')"""
    mesh = torch.meshgrid(*axes, indexing="ij")
    return torch.stack([m.reshape(-1) for m in mesh], -1)


def colmajor_points(axes):
    """all grid points, first dimension varying FASTEST (index = i0 + g0*i1 + g0*g1*i2)"""
    d = len(axes)
    mesh = torch.meshgrid(*axes[::-1], indexing="ij")  # last axis slowest ... first axis fastest
    cols = [m.reshape(-1) for m in mesh][::-1]
    return torch.stack(cols, -1) if d else torch.zeros(1, 0)


# ---------------------------------------------------------------------------------------------------
# cubic convolution interpolation (Keys 1981, a = -1/2)
# ---------------------------------------------------------------------------------------------------
def keys_kernel(s: float) -> float:
    s = abs(s)
    if s < 1:
        return (1.5 * s - 2.5) * s * s + 1.0
    if s < 2:
        return ((-0.5 * s + 2.5) * s - 4.0) * s + 2.0
    return 0.0


def interp_matrix_1d(axis: torch.Tensor, x: torch.Tensor):
    """(n, G) dense weights of 1-d cubic-convolution interpolation from the nodes `axis` (regular, spacing axis[1]-axis[0],
    G >= 4) to the points x; points whose 4-node stencil would leave the grid (first / last cell) take the value of the
    NEAREST of the four boundary nodes (the library's boundary convention).  Also returns the 'interior' mask."""
    G = axis.numel()
    g0 = float(axis[0])
    h = float(axis[1] - axis[0])
    n = x.numel()
    W = torch.zeros(n, G, dtype=torch.float64)
    interior = torch.zeros(n, dtype=torch.bool)
    for p in range(n):
        xp = float(x[p])
        u = (xp - g0) / h
        low = math.floor(u)
        left = low - 1
        if left < 0:
            cand = list(range(0, 4))
        elif left > G - 4:
            cand = list(range(G - 4, G))
        else:
            cand = None
        if cand is None:
            frac = u - low
            for k, j in enumerate(range(left, left + 4)):
                W[p, j] = keys_kernel(frac - (k - 1))
            interior[p] = True
        else:
            dists = [abs(float(axis[j]) - xp) for j in cand]
            W[p, cand[dists.index(min(dists))]] = 1.0
    return W, interior


def interp_matrix(axes, x):
    """(n, prod G_i) dense interpolation matrix for points x (n, d): row-wise Kronecker product of the 1-d matrices,
    node index lexicographic (first dimension slowest)."""
    n, d = x.shape
    W = torch.ones(n, 1, dtype=torch.float64)
    interior = torch.ones(n, dtype=torch.bool)
    for i in range(d):
        Wi, ins = interp_matrix_1d(axes[i], x[:, i])
        W = (W.unsqueeze(-1) * Wi.unsqueeze(-2)).reshape(n, -1)
        interior &= ins
    return W, interior


def scatter_dense(idx, val, ncols):
    """dense (n, ncols) matrix from (indices, values) rows; duplicate indices accumulate"""
    W = torch.zeros(idx.shape[0], ncols, dtype=torch.float64)
    W.scatter_add_(1, idx, val.to(torch.float64))
    return W


# ---------------------------------------------------------------------------------------------------
# Nystrom / SGPR
# ---------------------------------------------------------------------------------------------------
def nystrom(Kaz, Kzz, Kzb):
    return Kaz @ torch.linalg.solve(Kzz, Kzb)


def cond(A):
    sv = torch.linalg.svdvals(A)
    return float((sv[..., 0] / sv[..., -1].clamp_min(1e-300)).max())


def gauss_logpdf(y, m, C):
    n = y.shape[-1]
    r = (y - m).unsqueeze(-1)
    sol = torch.linalg.solve(C, r)
    _, ld = torch.linalg.slogdet(C)
    return -0.5 * ((r * sol).sum((-1, -2)) + ld + n * math.log(2 * math.pi))


# ---------------------------------------------------------------------------------------------------
# random Fourier features
# ---------------------------------------------------------------------------------------------------
def rff_features(x, weights, lengthscale):
    """z(x) = [cos(x W / l), sin(x W / l)]  (n, 2D);  k(x, x') = z z'^T / D"""
    proj = x @ (weights / lengthscale.transpose(-1, -2))
    return torch.cat([torch.cos(proj), torch.sin(proj)], -1)


def task_cov(factor, var):
    F = kern._t(factor)
    return F @ F.transpose(-1, -2) + torch.diag_embed(kern._t(var))

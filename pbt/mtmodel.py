"""Kronecker multitask exact-GP recipes (MultitaskMean + MultitaskKernel + MultitaskGaussianLikelihood) and their dense
reference (interleaved layout: flat index = point * t + task)."""
from __future__ import annotations

import torch
from hypothesis import strategies as st

import gpytorch
from gpytorch import kernels as K
from gpytorch import means as M

from pbt import gpmodel as G
from pbt import kern

T = torch.tensor


@st.composite
def multitask_case(draw, nmax=4, nsmax=3, test_batches=True, names=None):
    d = draw(st.integers(1, 2))
    t = draw(st.integers(2, 3))
    n = draw(st.integers(1, nmax))
    ns = draw(st.integers(1, nsmax))
    rank = draw(st.integers(1, t))
    lrank = draw(st.integers(0, t))
    has_task = draw(st.integers(0, 3)) != 0
    has_global = True if not has_task else draw(st.integers(0, 3)) != 0
    lik = {"l": "Multitask", "t": t, "rank": lrank if has_task else 0, "task": has_task, "global": has_global}
    if has_global:
        lik["noise"] = [draw(kern.pos(0.02, 1.0))]
    if has_task:
        if lik["rank"] == 0:
            lik["task_noises"] = draw(kern.arr([t], kern.pos(0.02, 1.0)))
        else:
            lik["factor"] = draw(kern.arr([t, lik["rank"]], kern.REAL))
    tb = draw(st.sampled_from([[], [], [2]])) if test_batches else []
    return {
        "d": d, "t": t, "n": n, "ns": ns, "tb": tb,
        "kernel": draw(kern.kernel_tree(d, [], depth=1, names=names or kern.STATIONARY + ["Periodic", "Linear"], psd_only=True)),
        "task": {"rank": rank, "covar_factor": draw(kern.arr([t, rank], kern.REAL)), "var": draw(kern.arr([t], kern.pos(0.05, 2.0)))},
        "means": [draw(kern.mean_recipe(d, [])) for _ in range(t)],
        "lik": lik,
        "X": draw(kern.points(n, d)),
        "y": draw(kern.arr([n, t], kern.REAL)),
        "Xs": draw(kern.points(ns, d, tb)),
    }


def build_multitask(case):
    t = case["t"]
    lr = case["lik"]
    lik = gpytorch.likelihoods.MultitaskGaussianLikelihood(num_tasks=t, rank=lr["rank"], has_global_noise=lr["global"], has_task_noise=lr["task"])
    if lr["global"]:
        lik.noise = T(lr["noise"])
    if lr["task"]:
        if lr["rank"] == 0:
            lik.task_noises = T(lr["task_noises"])
        else:
            lik.initialize(task_noise_covar_factor=T(lr["factor"]))
    mean = M.MultitaskMean([kern.build_mean(m) for m in case["means"]], num_tasks=t)
    covar = K.MultitaskKernel(kern.build_kernel(case["kernel"]), num_tasks=t, rank=case["task"]["rank"])
    covar.task_covar_module.initialize(covar_factor=T(case["task"]["covar_factor"]))
    covar.task_covar_module.var = T(case["task"]["var"])
    model = G.RecipeMultitaskGP(T(case["X"]), T(case["y"]), lik, mean, covar)
    return model, lik


def ref_task_cov(case):
    F = kern._t(case["task"]["covar_factor"])
    return F @ F.transpose(-1, -2) + torch.diag_embed(kern._t(case["task"]["var"]))


def ref_task_noise(case):
    lr = case["lik"]
    t = case["t"]
    D = torch.zeros(t, t)
    if lr["task"]:
        if lr["rank"] == 0:
            D = D + torch.diag_embed(kern._t(lr["task_noises"]))
        else:
            F = kern._t(lr["factor"])
            D = D + F @ F.transpose(-1, -2)
    if lr["global"]:
        D = D + kern._t(lr["noise"]) * torch.eye(t)
    return D


def kron(A, B):
    """batched Kronecker product, index (i*t + a, j*t + b)"""
    out = A[..., :, None, :, None] * B[..., None, :, None, :]
    return out.reshape(*out.shape[:-4], A.shape[-2] * B.shape[-2], A.shape[-1] * B.shape[-1])


def ref_blocks(case, X, Xs):
    Kt = ref_task_cov(case)
    Kxx = kron(kern.ref_kernel(case["kernel"], X, X), Kt)
    Kxs = kron(kern.ref_kernel(case["kernel"], X, Xs), Kt)
    Kss = kron(kern.ref_kernel(case["kernel"], Xs, Xs), Kt)
    mx = torch.stack([kern.ref_mean(m, X) for m in case["means"]], -1).reshape(*X.shape[:-2], -1)
    ms = torch.stack([kern.ref_mean(m, Xs) for m in case["means"]], -1).reshape(*Xs.shape[:-2], -1)
    return Kxx, Kxs, Kss, mx, ms


def ref_noise(case, n):
    return kron(torch.eye(n), ref_task_noise(case))


def cell(case):
    """'tnoise-singular' when the task-noise matrix D (+ sigma^2 I) is numerically singular (rank < t, or a degenerate factor, without
    global noise): the cell in which the dependency's SumKroneckerLinearOperator (generalised eigen-decomposition with the noise
    summand) is wrong."""
    lr = case["lik"]
    sing = False
    if lr["task"] and lr["rank"] > 0 and not lr["global"]:
        with torch.no_grad():
            ev = torch.linalg.eigvalsh(ref_task_noise(case).detach())
        sing = bool(ev[0] <= 1e-8 * ev[-1])
    return f"tnoise{'-singular' if sing else ''}"

"""Exact-GP model recipes shared by C01-C04, C07, C08, C16, C18: strategies, builders and the dense reference
conditional.  Model classes are module-level so that pickling exercises the library and not a local-class limit."""
from __future__ import annotations

import math

import torch
from hypothesis import strategies as st

import gpytorch
from gpytorch import settings as S
from gpytorch.distributions import MultitaskMultivariateNormal, MultivariateNormal

from pbt import kern
from pbt.core import Discard

T = torch.tensor


class RecipeGP(gpytorch.models.ExactGP):
    def __init__(self, train_x, train_y, likelihood, mean_module, covar_module):
        super().__init__(train_x, train_y, likelihood)
        self.mean_module = mean_module
        self.covar_module = covar_module

    def forward(self, x):
        return MultivariateNormal(self.mean_module(x), self.covar_module(x))


class RecipeMultitaskGP(gpytorch.models.ExactGP):
    def __init__(self, train_x, train_y, likelihood, mean_module, covar_module):
        super().__init__(train_x, train_y, likelihood)
        self.mean_module = mean_module
        self.covar_module = covar_module

    def forward(self, x):
        return MultitaskMultivariateNormal(self.mean_module(x), self.covar_module(x))


# ---------------------------------------------------------------------------------------------------
# likelihood recipes (single output)
# ---------------------------------------------------------------------------------------------------
@st.composite
def likelihood_recipe(draw, mb, xb, n, kinds=("Gaussian", "Gaussian", "FixedNoise", "FixedNoise+")):
    kind = draw(st.sampled_from(list(kinds)))
    mb, xb = list(mb), list(xb)
    if kind == "Gaussian":
        return {"l": "Gaussian", "batch": mb, "noise": draw(kern.arr(mb + [1], kern.pos(0.02, 2.0)))}
    nb = draw(st.sampled_from([[], xb])) if xb else []
    r = {"l": "FixedNoise", "noise": draw(kern.arr(nb + [n], kern.pos(0.02, 2.0))), "learn": kind.endswith("+"), "batch": mb}
    if r["learn"]:
        r["second_noise"] = draw(kern.arr(mb + [1], kern.pos(0.02, 1.0)))
    return r


def build_likelihood(r):
    if r["l"] == "Gaussian":
        lik = gpytorch.likelihoods.GaussianLikelihood(batch_shape=torch.Size(r["batch"]), **kern._prior_kwargs(r))
        lik.noise = T(r["noise"])
        return lik
    lik = gpytorch.likelihoods.FixedNoiseGaussianLikelihood(
        noise=T(r["noise"]), learn_additional_noise=r["learn"], batch_shape=torch.Size(r["batch"]), **kern._prior_kwargs(r)
    )
    if r["learn"]:
        lik.second_noise = T(r["second_noise"])
    return lik


def ref_noise_diag(r, n, batch_shape, test_noise=None):
    """diagonal of the noise covariance S the likelihood adds for n points (broadcast to batch_shape + (n,))"""
    if r["l"] == "Gaussian":
        s = kern._t(r["noise"])  # (*mb, 1)
        return s.expand(*torch.broadcast_shapes(s.shape[:-1], batch_shape), n).clone()
    base = kern._t(r["noise"]) if test_noise is None else T(test_noise)
    bs = torch.broadcast_shapes(base.shape[:-1], batch_shape)
    out = base.expand(*bs, base.shape[-1]).clone()
    if r["learn"]:
        s2 = kern._t(r["second_noise"])
        out = out + s2
    return out


# ---------------------------------------------------------------------------------------------------
# model recipes
# ---------------------------------------------------------------------------------------------------
MODEL_BATCH = [[], [], [], [2], [2], [3], [2, 2]]


@st.composite
def exact_case(draw, names=None, depth=2, nmax=6, nsmax=4, nmin=1, lik_kinds=("Gaussian", "Gaussian", "FixedNoise", "FixedNoise+"),
               test_batches=True, model_batches=None):
    d = draw(st.integers(1, 3))
    mb = draw(st.sampled_from(model_batches or MODEL_BATCH))
    xb = draw(st.sampled_from([[], mb])) if mb else []
    n = draw(st.integers(nmin, nmax))
    ns = draw(st.integers(1, nsmax))
    topts = [[], mb, [3] + mb] if mb else [[], [2], [3, 2]]
    tb = draw(st.sampled_from(topts if test_batches else [mb]))
    # the targets carry the broadcast of model and train-input batch
    yb = mb if mb else xb
    case = {
        "d": d, "mb": mb, "xb": xb, "tb": tb, "n": n, "ns": ns,
        "mean": draw(kern.mean_recipe(d, mb)),
        "kernel": draw(kern.kernel_tree(d, mb, depth=depth, names=names, psd_only=True)),
        "lik": draw(likelihood_recipe(mb, xb, n, lik_kinds)),
        "X": draw(kern.points(n, d, xb)),
        "y": draw(kern.arr(yb + [n], kern.REAL)),
        "Xs": draw(kern.points(ns, d, tb)),
    }
    if case["lik"]["l"] == "FixedNoise":
        case["test_noise"] = draw(kern.arr([ns], kern.pos(0.02, 2.0)))
    # a test point coinciding with a training point, sometimes
    if draw(st.integers(0, 4)) == 0:
        Xs = T(case["Xs"])
        X = T(case["X"])
        Xs[..., 0, :] = X[..., 0, :] if X.dim() <= Xs.dim() else X.reshape(-1, n, d)[0, 0, :]
        case["Xs"] = Xs.tolist()
    return case


def build_exact(case):
    lik = build_likelihood(case["lik"])
    model = RecipeGP(T(case["X"]), T(case["y"]), lik, kern.build_mean(case["mean"]), kern.build_kernel(case["kernel"]))
    return model, lik


# ---------------------------------------------------------------------------------------------------
# dense reference
# ---------------------------------------------------------------------------------------------------
def own_prior_blocks(model, X, Xs):
    """K and m 'as the model's kernel and mean evaluate to': eager, block by block, default settings otherwise."""
    with torch.no_grad(), S.lazily_evaluate_kernels(False):
        k, m = model.covar_module, model.mean_module
        Kxx = k(X, X).to_dense()
        Kxs = k(X, Xs).to_dense()
        Kss = k(Xs, Xs).to_dense()
        mx = m(X)
        ms = m(Xs)
    return Kxx, Kxs, Kss, mx, ms


def ref_prior_blocks(case, X, Xs):
    Kxx = kern.ref_kernel(case["kernel"], X, X)
    Kxs = kern.ref_kernel(case["kernel"], X, Xs)
    Kss = kern.ref_kernel(case["kernel"], Xs, Xs)
    return Kxx, Kxs, Kss, kern.ref_mean(case["mean"], X), kern.ref_mean(case["mean"], Xs)


def dense_conditional(Kxx, Kxs, Kss, mx, ms, sdiag, y, kappa_max=1e8, smat=None):
    """mean, cov, kappa of the Gaussian conditional; all operands broadcast over leading batch dims.
    The noise is diag(sdiag), or the full matrix smat when given."""
    n, ns = Kxx.shape[-1], Kss.shape[-1]
    if smat is None:
        smat = torch.diag_embed(sdiag)
    bs = torch.broadcast_shapes(Kxx.shape[:-2], Kxs.shape[:-2], Kss.shape[:-2], mx.shape[:-1], ms.shape[:-1], smat.shape[:-2], y.shape[:-1])
    Kxx = Kxx.expand(*bs, n, n)
    Kxs = Kxs.expand(*bs, n, ns)
    Kss = Kss.expand(*bs, ns, ns)
    A = Kxx + smat.expand(*bs, n, n)
    sv = torch.linalg.svdvals(A)
    kappa = float((sv[..., 0] / sv[..., -1].clamp_min(1e-300)).max())
    if not math.isfinite(kappa) or kappa > kappa_max:
        raise Discard(f"ill-conditioned (kappa>{kappa_max:g})")
    r = (y - mx).expand(*bs, n).unsqueeze(-1)
    sol = torch.linalg.solve(A, torch.cat([r, Kxs], -1))
    mean = ms.expand(*bs, ns) + (Kxs.transpose(-1, -2) @ sol[..., :1]).squeeze(-1)
    cov = Kss - Kxs.transpose(-1, -2) @ sol[..., 1:]
    return mean, cov, kappa, A


def chol_tol(kappa, smooth=True):
    """one dense solve: 1e3*eps*kappa clipped to [1e-10, 1e-6]; kernels with a kink at r=0 evaluated on coincident
    train/test rows carry sqrt(8*eps*R^2) ~ 1e-6 from the quadratic-expansion distance, amplified by the solve: floor 1e-5"""
    eps = 2.2e-16
    t = min(max(1e3 * eps * kappa, 1e-10), 1e-6)
    return t if smooth else max(t, 1e-5)


# ---------------------------------------------------------------------------------------------------
# prediction-relevant settings
# ---------------------------------------------------------------------------------------------------
@st.composite
def pred_settings(draw, n_total, allow_skip=True):
    return {
        "lazy": draw(st.booleans()),
        "eager_size": draw(st.sampled_from([0, max(n_total - 1, 0), n_total, 512])),
        "fc": [draw(st.booleans()), draw(st.booleans()), draw(st.booleans())],
        "max_chol": draw(st.sampled_from([0, 800, 800])),
        "fpv": draw(st.booleans()),
        "detach": draw(st.booleans()),
        "skip_var": draw(st.integers(0, 7)) == 0 if allow_skip else False,
        "precond": draw(st.sampled_from([0, 15])),
        # eval_cg_tolerance is the tolerance of every solve of a prediction; the training tolerance cg_tolerance must not matter
        "train_cg": draw(st.sampled_from(["tight", "default"])),
    }


def default_settings():
    return {"lazy": True, "eager_size": 512, "fc": [True, True, True], "max_chol": 800, "fpv": False, "detach": True,
            "skip_var": False, "precond": 15}


class settings_ctx:
    """applies a pred_settings dict; iterative algorithms run at tight tolerance / full rank"""

    def __init__(self, s):
        self.s = s
        self.stack = None

    def __enter__(self):
        from contextlib import ExitStack

        s = self.s
        st_ = ExitStack()
        for cm in (
            S.lazily_evaluate_kernels(s["lazy"]), S.max_eager_kernel_size(s["eager_size"]),
            S.fast_computations(covar_root_decomposition=s["fc"][0], log_prob=s["fc"][1], solves=s["fc"][2]),
            S.max_cholesky_size(s["max_chol"]), S.fast_pred_var(s["fpv"]), S.detach_test_caches(s["detach"]),
            S.skip_posterior_variances(s["skip_var"]), S.max_preconditioner_size(s["precond"]),
            S.cg_tolerance(1e-12 if s.get("train_cg", "tight") == "tight" else 1.0), S.eval_cg_tolerance(1e-12), S.max_cg_iterations(2000), S.max_root_decomposition_size(200),
            S.max_lanczos_quadrature_iterations(200),
        ):
            st_.enter_context(cm)
        self.stack = st_
        return self

    def __exit__(self, *a):
        return self.stack.__exit__(*a)


def is_iterative(s):
    return s["max_chol"] == 0 and (s["fc"][2] or (s["fpv"] and s["fc"][0]))


def cg_calibration(A, rhs, s, limit=1e-7):
    """The dependency's CG (linear_operator.utils.linear_cg) is not an exact algorithm on every system even at tolerance
    1e-12 (it stops updating a column at an absolute residual of 1e-10 and regularises its step lengths): solve the dense
    system A x = rhs with it directly and discard the case if the *solver* misses the dense solution.  This calibrates
    the domain of the CG path; it is not the oracle."""
    from linear_operator import to_linear_operator

    with settings_ctx({**s, "train_cg": "tight"}), torch.no_grad():
        sol = to_linear_operator(A).solve(rhs)
    ref = torch.linalg.solve(A, rhs)
    err = float((sol - ref).abs().max() / ref.abs().max().clamp_min(1e-300))
    if not err <= limit:
        raise Discard("cg path: the dependency's CG misses the dense solution of this system by > 1e-7")


def uses_lanczos(s):
    return s["max_chol"] == 0 and s["fpv"] and s["fc"][0]


def settings_label(s):
    return (f"lazy={int(s['lazy'])},eager={'lt' if s['eager_size'] == 0 else ('big' if s['eager_size'] == 512 else 'edge')},"
            f"fc={''.join(str(int(b)) for b in s['fc'])},chol={s['max_chol']},fpv={int(s['fpv'])},det={int(s['detach'])},skip={int(s['skip_var'])}"
            f"{',traincg=default' if s.get('train_cg') == 'default' else ''}")

"""Closed-form references for variational GPs (C14, reused by C15): q(u) encoders for every variational
distribution class, the predictive q(f) obtained by pushing q(u) through the prior conditional p(f | u), the KL
terms, and the mixing rules of the multitask / decoupled / grid strategies.

Everything is dense float64 torch written from the formulas in the property text and the class docstrings; nothing
here imports gpytorch.  All functions broadcast over leading batch dimensions.

API (stable - C15 builds on it)
    spd(Lq)                                S = Lq Lq^T from a lower-triangular factor given as nested lists / tensor
    cond(A)                                largest 2-norm condition number over the batch
    kl_mvn(m0, S0, m1, S1)                 KL(N(m0,S0) || N(m1,S1))
    kl_std(m, S)                           KL(N(m,S) || N(0,I))
    kl_delta(m, m1, S1)                    "KL" of a point mass used by gpytorch: -log N(m; m1, S1)
    DISTS / representable(dist, m, S)      the (m, S) a variational-distribution class can represent (diag / no S)
    encode(dist, m, S)                     {parameter name: value} encoding (m, S) in that class' parameterisation
    prior_blocks(kernel, mean, Z, X, jitter, batch=())   -> Blocks(Kzz (jittered), Kzz0, Kxz, Kxx, mz, mx, kappa)
    decode_whitened(blk, mw, Sw, root)     u = mz + R e,  R = chol(Kzz~) ("chol") or Kzz~^{1/2} ("sym", CIQ)
    predictive(blk, m_u, S_u)              mean, cov of q(f);  S_u=None means a point mass (Delta)
    qf_whitened(...)/qf_unwhitened(...)    the two above chained, plus the KL
    lmc_mix / independent_mix              multitask wrappers
    batch_decoupled(...) / orthogonal(...) decoupled strategies
    grid_1d(lo, hi, g) / keys_weights(...) grid-interpolation strategy: node coordinates and dense cubic weights
    best_of(got, candidates)               pick the candidate closest to `got` (used where the library may or may not
                                           add its jitter to K_xx - a difference <= jitter the property leaves open)
"""
from __future__ import annotations

import math
from dataclasses import dataclass
from typing import Optional

import torch

from pbt import kern

T = torch.tensor
DISTS = ["Cholesky", "MeanField", "Delta", "Natural", "TrilNatural"]
GAUSSIAN_DISTS = ["Cholesky", "MeanField", "Natural", "TrilNatural"]


def _t(v):
    return v if isinstance(v, torch.Tensor) else T(v, dtype=torch.float64)


def mT(A):
    return A.transpose(-1, -2)


def mv(A, v):
    return (A @ v.unsqueeze(-1)).squeeze(-1)


def eye_like(A):
    return torch.eye(A.shape[-1], dtype=A.dtype)


# ---------------------------------------------------------------------------------------------------
# small linear algebra
# ---------------------------------------------------------------------------------------------------
def spd(Lq):
    """S = Lq Lq^T; only the lower triangle of Lq is used"""
    Lq = _t(Lq).tril()
    return Lq @ mT(Lq)


def cond(A) -> float:
    sv = torch.linalg.svdvals(A)
    k = float((sv[..., 0] / sv[..., -1].clamp_min(1e-300)).max())
    return k if math.isfinite(k) else float("inf")


def kl_mvn(m0, S0, m1, S1):
    """KL(N(m0,S0) || N(m1,S1)) = 1/2 [tr(S1^-1 S0) + (m1-m0)^T S1^-1 (m1-m0) - k + log|S1| - log|S0|]"""
    k = S0.shape[-1]
    bs = torch.broadcast_shapes(m0.shape[:-1], S0.shape[:-2], m1.shape[:-1], S1.shape[:-2])
    S0 = S0.expand(*bs, k, k)
    S1 = S1.expand(*bs, k, k)
    d = (m1 - m0).expand(*bs, k)
    tr = torch.linalg.solve(S1, S0).diagonal(dim1=-1, dim2=-2).sum(-1)
    quad = (d * mv(torch.linalg.inv(S1), d)).sum(-1)
    return 0.5 * (tr + quad - k + torch.linalg.slogdet(S1)[1] - torch.linalg.slogdet(S0)[1])


def kl_std(m, S):
    """KL(N(m,S) || N(0,I)) = 1/2 [tr S + m^T m - k - log|S|]"""
    k = S.shape[-1]
    return 0.5 * (S.diagonal(dim1=-1, dim2=-2).sum(-1) + (m * m).sum(-1) - k - torch.linalg.slogdet(S)[1])


def kl_delta(m, m1, S1):
    """gpytorch registers KL(Delta(m) || N(m1,S1)) := -log N(m; m1, S1) (the MAP objective)"""
    k = S1.shape[-1]
    bs = torch.broadcast_shapes(m.shape[:-1], m1.shape[:-1], S1.shape[:-2])
    d = (m - m1).expand(*bs, k)
    S1 = S1.expand(*bs, k, k)
    quad = (d * torch.linalg.solve(S1, d.unsqueeze(-1)).squeeze(-1)).sum(-1)
    return 0.5 * (quad + torch.linalg.slogdet(S1)[1] + k * math.log(2 * math.pi))


def kl_delta_std(m):
    return 0.5 * (m * m).sum(-1) + 0.5 * m.shape[-1] * math.log(2 * math.pi)


def sym_sqrt(A):
    ev, U = torch.linalg.eigh(A)
    return (U * ev.clamp_min(0).sqrt().unsqueeze(-2)) @ mT(U)


# ---------------------------------------------------------------------------------------------------
# variational distributions: what each class can represent and how (m, S) is written into its parameters
# ---------------------------------------------------------------------------------------------------
def representable(dist: str, m, S):
    """(m, S') the class can hold: MeanField keeps diag(S); Delta has no covariance (None)."""
    if dist == "MeanField":
        return m, torch.diag_embed(S.diagonal(dim1=-1, dim2=-2))
    if dist == "Delta":
        return m, None
    return m, S


def encode(dist: str, m, S, upper_junk=None, sign=None):
    """parameter values (public parameter names of the class) that encode N(m, S).
    Cholesky:    variational_mean = m, chol_variational_covar = chol(S)  (+ `upper_junk` above the diagonal: the class
                 documents that only the lower triangle is used)
    MeanField:   variational_mean = m, _variational_stddev = +-sqrt(diag S)  (`sign`: entries may be negative, the
                 class squares them)
    Delta:       variational_mean = m
    Natural:     natural_vec = S^-1 m,  natural_mat = -1/2 S^-1
    TrilNatural: natural_vec = S^-1 m,  natural_tril_mat = C lower triangular with C^T C = S^-1, i.e. C = chol(S)^-1"""
    if dist == "Delta":
        return {"variational_mean": m.clone()}
    if dist == "MeanField":
        sd = S.diagonal(dim1=-1, dim2=-2).sqrt()
        if sign is not None:
            sd = sd * _t(sign)
        return {"variational_mean": m.clone(), "_variational_stddev": sd}
    if dist == "Cholesky":
        L = torch.linalg.cholesky(S)
        if upper_junk is not None:
            L = L + _t(upper_junk).triu(1)
        return {"variational_mean": m.clone(), "chol_variational_covar": L}
    P = torch.linalg.inv(S)
    P = 0.5 * (P + mT(P))
    eta1 = mv(P, m)
    if dist == "Natural":
        return {"natural_vec": eta1, "natural_mat": -0.5 * P}
    if dist == "TrilNatural":
        C = torch.linalg.solve_triangular(torch.linalg.cholesky(S), eye_like(S).expand_as(S), upper=False)
        return {"natural_vec": eta1, "natural_tril_mat": C}
    raise KeyError(dist)


# ---------------------------------------------------------------------------------------------------
# prior blocks and the conditional
# ---------------------------------------------------------------------------------------------------
@dataclass
class Blocks:
    Kzz: torch.Tensor  # K(Z,Z) + jitter I   (*bs, M, M)
    Kzz0: torch.Tensor  # K(Z,Z)
    Kxz: torch.Tensor  # (*bs, n, M)
    Kxx: torch.Tensor  # (*bs, n, n)
    mz: torch.Tensor  # (*bs, M)
    mx: torch.Tensor  # (*bs, n)
    kappa: float  # cond(Kzz + jitter I)
    jitter: float
    batch: torch.Size


def prior_blocks(kernel_recipe, mean_recipe, Z, X, jitter: float, batch=()) -> Blocks:
    """prior mean / covariance blocks from the recipes' reference formulas, broadcast to the common batch shape of
    Z, X, the kernel / mean batch shapes and `batch` (the batch shape of the variational parameters)"""
    Z, X = _t(Z), _t(X)
    Kzz0 = kern.ref_kernel(kernel_recipe, Z, Z)
    Kxz = kern.ref_kernel(kernel_recipe, X, Z)
    Kxx = kern.ref_kernel(kernel_recipe, X, X)
    mz = kern.ref_mean(mean_recipe, Z)
    mx = kern.ref_mean(mean_recipe, X)
    bs = torch.broadcast_shapes(Kzz0.shape[:-2], Kxz.shape[:-2], Kxx.shape[:-2], mz.shape[:-1], mx.shape[:-1], torch.Size(batch))
    M, n = Z.shape[-2], X.shape[-2]
    Kzz0 = Kzz0.expand(*bs, M, M)
    Kzz = Kzz0 + jitter * torch.eye(M)
    return Blocks(Kzz, Kzz0, Kxz.expand(*bs, n, M), Kxx.expand(*bs, n, n), mz.expand(*bs, M), mx.expand(*bs, n),
                  cond(Kzz), jitter, torch.Size(bs))


def decode_whitened(blk: Blocks, mw, Sw: Optional[torch.Tensor], root: str = "chol"):
    """whitened strategies parameterise u = mz + R e with e ~ N(mw, Sw):  R = chol(Kzz~) (standard, batch-decoupled)
    or the symmetric square root Kzz~^{1/2} (contour-integral quadrature)"""
    R = torch.linalg.cholesky(blk.Kzz) if root == "chol" else sym_sqrt(blk.Kzz)
    m_u = blk.mz + mv(R, mw)
    S_u = None if Sw is None else R @ Sw @ mT(R)
    return m_u, S_u


def predictive(blk: Blocks, m_u, S_u: Optional[torch.Tensor]):
    """q(f) = int p(f|u) q(u) du:  mean = mx + Kxz Kzz~^-1 (m_u - mz),
    cov = Kxx - Kxz Kzz~^-1 (Kzz~ - S_u) Kzz~^-1 Kzx   (S_u = None: point mass, S_u := 0)"""
    A = torch.linalg.solve(blk.Kzz, mT(blk.Kxz))  # Kzz~^-1 Kzx
    mean = blk.mx + mv(mT(A), m_u - blk.mz)
    mid = blk.Kzz if S_u is None else blk.Kzz - S_u
    cov = blk.Kxx - mT(A) @ mid @ A
    return mean, 0.5 * (cov + mT(cov))


def qf_whitened(blk: Blocks, dist: str, mw, Sw, root: str = "chol"):
    """(mean, cov, kl) for a whitened strategy whose variational distribution of class `dist` encodes N(mw, Sw)"""
    mw, Sw_eff = representable(dist, mw, Sw)
    m_u, S_u = decode_whitened(blk, mw, Sw_eff, root)
    mean, cov = predictive(blk, m_u, S_u)
    kl = kl_delta_std(mw) if Sw_eff is None else kl_std(mw, Sw_eff)
    return mean, cov, kl.expand(blk.batch) if kl.dim() < len(blk.batch) else kl


def qf_unwhitened(blk: Blocks, dist: str, m_u, S_u):
    m_u, S_eff = representable(dist, m_u, S_u)
    mean, cov = predictive(blk, m_u, S_eff)
    kl = kl_delta(m_u, blk.mz, blk.Kzz) if S_eff is None else kl_mvn(m_u, S_eff, blk.mz, blk.Kzz)
    return mean, cov, kl


def with_diag(cov, c: float):
    return cov + c * torch.eye(cov.shape[-1])


def best_of(got, candidates):
    """the candidate with the smallest max-abs distance to `got` (all shapes must agree, else the first)"""
    best, best_err = candidates[0], None
    for c in candidates:
        if tuple(c.shape) != tuple(got.shape):
            continue
        e = float((got.detach() - c).abs().max()) if c.numel() else 0.0
        if best_err is None or e < best_err:
            best, best_err = c, e
    return best


# ---------------------------------------------------------------------------------------------------
# multitask wrappers
# ---------------------------------------------------------------------------------------------------
def lmc_mix(A, mean_l, cov_l, latent_dim: int = -1, task_indices=None):
    """Linear model of coregionalisation.  A: (*vb, T) coefficients whose batch dimension `latent_dim` indexes the
    latent functions; mean_l (*b, n), cov_l (*b, n, n) latent q(f) with the same latent batch dimension.
    All tasks:  mean[..., i, t] = sum_l a[l,t] mu_l[i];  cov[(i,t),(j,s)] = sum_l a[l,t] a[l,s] C_l[i,j]  (interleaved)
    task_indices (n,): mean[i] = sum_l a[l,ti[i]] mu_l[i];  cov[i,j] = sum_l a[l,ti[i]] a[l,ti[j]] C_l[i,j]"""
    nb = mean_l.dim() - 1
    ld = nb + latent_dim  # position of the latent dimension among the batch dimensions
    A = A.expand(*mean_l.shape[:-1], A.shape[-1])
    mean_l = mean_l.movedim(ld, 0)
    cov_l = cov_l.movedim(ld, 0)
    A = A.movedim(ld, 0)  # (L, *rest, T)
    n = mean_l.shape[-1]
    if task_indices is None:
        mean = torch.einsum("l...t,l...i->...it", A, mean_l)
        cov = torch.einsum("l...t,l...s,l...ij->...itjs", A, A, cov_l)
        t = A.shape[-1]
        return mean, cov.reshape(*cov.shape[:-4], n * t, n * t)
    ti = torch.as_tensor(task_indices, dtype=torch.long)
    Asel = A[..., ti]  # (L, *rest, n)
    mean = (Asel * mean_l).sum(0)
    cov = (Asel.unsqueeze(-1) * Asel.unsqueeze(-2) * cov_l).sum(0)
    return mean, cov


def independent_mix(mean_t, cov_t, task_dim: int = -1, task_indices=None):
    """Independent multitask: the batch dimension `task_dim` of the base q(f) becomes the task dimension.
    All tasks: mean[..., i, t] = mu_t[i], cov[(i,t),(j,s)] = delta_ts C_t[i,j];  task_indices: entry i from task ti[i]"""
    nb = mean_t.dim() - 1
    td = nb + task_dim
    mean_t = mean_t.movedim(td, 0)
    cov_t = cov_t.movedim(td, 0)
    t, n = mean_t.shape[0], mean_t.shape[-1]
    if task_indices is None:
        mean = mean_t.movedim(0, -1)
        cov = torch.zeros(*cov_t.shape[1:-2], n, t, n, t)
        for a in range(t):
            cov[..., :, a, :, a] = cov_t[a]
        return mean, cov.reshape(*cov.shape[:-4], n * t, n * t)
    ti = torch.as_tensor(task_indices, dtype=torch.long)
    onehot = torch.nn.functional.one_hot(ti, t).to(mean_t.dtype).T  # (t, n)
    oh = onehot.reshape(t, *([1] * (mean_t.dim() - 2)), n)
    mean = (oh * mean_t).sum(0)
    cov = (oh.unsqueeze(-1) * oh.unsqueeze(-2) * cov_t).sum(0)
    return mean, cov


# ---------------------------------------------------------------------------------------------------
# decoupled strategies
# ---------------------------------------------------------------------------------------------------
def batch_decoupled(blk_mean: Blocks, blk_var: Blocks, dist: str, mw, Sw):
    """Jankowiak et al. (2020) as documented by BatchDecoupledVariationalStrategy: the mean uses the first inducing set /
    hyper-parameter slice, the covariance the second; both whitened with their own Cholesky factor.
    KL := KL(delta_m || N(0,I)) + KL(N(0,S) || N(0,I))"""
    mw, Sw_eff = representable(dist, mw, Sw)
    m_u, _ = decode_whitened(blk_mean, mw, None)
    mean, _ = predictive(blk_mean, m_u, None)
    _, S_u = decode_whitened(blk_var, torch.zeros_like(mw), Sw_eff)
    _, cov = predictive(blk_var, blk_var.mz, S_u)
    kl = kl_delta_std(mw) + kl_std(torch.zeros_like(mw), Sw_eff)
    return mean, cov, kl


def orthogonal(mean_full, cov_full, n: int, a):
    """Salimbeni et al. (2018) as implemented: with (mean_full, cov_full) the base strategy's q(f) over [X; Z_beta],
    mean = base mean(X) + C[X, beta] a,  cov = C[X, X];  the extra KL term is 1/2 a^T C[beta, beta] a"""
    mean = mean_full[..., :n] + mv(cov_full[..., :n, n:], a)
    cov = cov_full[..., :n, :n]
    Cbb = cov_full[..., n:, n:]
    return mean, cov, Cbb


# ---------------------------------------------------------------------------------------------------
# grid interpolation
# ---------------------------------------------------------------------------------------------------
def grid_1d(lo: float, hi: float, g: int):
    """GridInterpolationVariationalStrategy docstring/constructor: g nodes, the bounds padded by one `grid_diff` =
    (hi-lo)/(g-2) on each side"""
    diff = float(hi - lo) / (g - 2)
    return torch.linspace(lo - diff, hi + diff, g, dtype=torch.float64)


def keys_kernel(u):
    """cubic convolution interpolation kernel (Keys 1981, a = -1/2)"""
    u = u.abs()
    return torch.where(u < 1, (1.5 * u - 2.5) * u * u + 1, torch.where(u < 2, ((-0.5 * u + 2.5) * u - 4) * u + 2, torch.zeros_like(u)))


def keys_weights(X, nodes, spacings):
    """dense interpolation matrix W (..., n, M): W[i, k] = prod_dim keys((x_i[dim] - node_k[dim]) / h_dim), where
    nodes (M, d) are the coordinates of the M grid nodes *in the order in which the inducing values are stored*.
    Valid for x at least one cell away from the border of the grid (all 4 neighbours exist)."""
    X = _t(X)
    W = torch.ones(*X.shape[:-1], nodes.shape[0], dtype=torch.float64)
    for j in range(nodes.shape[-1]):
        W = W * keys_kernel((X[..., j].unsqueeze(-1) - nodes[:, j]) / spacings[j])
    return W

"""Variational-GP model recipes shared by C14 / C15: module-level (picklable) model class, builders that go through the
public constructors / `initialize`, and the Hypothesis strategies for the pieces of a case.

A model recipe is a JSON dict
    {"strategy": "Variational" | "Unwhitened" | "BatchDecoupled" | "Ciq" | "Grid",
     "Z": (*zb, M, d) nested lists, "learn_z": bool, "jitter": float | None,
     "dist": one of var_oracle.DISTS, "vb": batch shape of the variational parameters, "mean_init_std": float,
     "mean": kern mean recipe, "kernel": kern kernel recipe,
     BatchDecoupled: "mvbd": None | -1;   Grid: "grid_size": g, "bounds": [[lo, hi], ...]  (no "Z");
     optional wrappers (at most one): "orth": {"Zb": (Mb, d), "jitter": j},  "lmc": {"T", "L", "latent_dim", "jitter", "coef"},
                                      "indep": {"T", "task_dim"}}
"""
from __future__ import annotations

import torch
from hypothesis import strategies as st

import gpytorch
from gpytorch import variational as V
from gpytorch.distributions import MultivariateNormal

from pbt import kern
from pbt import var_oracle as VO

T = torch.tensor

DIST_CLS = {
    "Cholesky": V.CholeskyVariationalDistribution,
    "MeanField": V.MeanFieldVariationalDistribution,
    "Delta": V.DeltaVariationalDistribution,
    "Natural": V.NaturalVariationalDistribution,
    "TrilNatural": V.TrilNaturalVariationalDistribution,
}
STRATEGY_CLS = {
    "Variational": V.VariationalStrategy,
    "Unwhitened": V.UnwhitenedVariationalStrategy,
    "BatchDecoupled": V.BatchDecoupledVariationalStrategy,
    "Ciq": V.CiqVariationalStrategy,
    "Grid": V.GridInterpolationVariationalStrategy,
}


class RecipeSVGP(gpytorch.models.ApproximateGP):
    """The documented construction pattern: the strategy is created inside __init__ with `self` as its model."""

    def __init__(self, recipe):
        strategy = build_strategy(self, recipe)
        super().__init__(strategy)
        self.mean_module = kern.build_mean(recipe["mean"])
        self.covar_module = kern.build_kernel(recipe["kernel"])

    def forward(self, x):
        return MultivariateNormal(self.mean_module(x), self.covar_module(x))


def build_distribution(dist, num, batch, mean_init_std=1e-3):
    return DIST_CLS[dist](num, batch_shape=torch.Size(batch), mean_init_std=mean_init_std)


def num_inducing(r):
    if r["strategy"] == "Grid":
        return r["grid_size"] ** len(r["bounds"])
    return len(_lastdims(r["Z"]))


def _lastdims(z):
    t = T(z)
    return t.reshape(-1, t.shape[-2], t.shape[-1])[0].tolist()


def build_strategy(model, r):
    vd = build_distribution(r["dist"], num_inducing(r), r.get("vb", []), r.get("mean_init_std", 1e-3))
    name = r["strategy"]
    if name == "Grid":
        vs = V.GridInterpolationVariationalStrategy(model, r["grid_size"], [tuple(b) for b in r["bounds"]], vd)
    elif name == "BatchDecoupled":
        vs = V.BatchDecoupledVariationalStrategy(model, T(r["Z"]), vd, learn_inducing_locations=r.get("learn_z", True),
                                                 mean_var_batch_dim=r.get("mvbd"), jitter_val=r.get("jitter"))
    else:
        vs = STRATEGY_CLS[name](model, T(r["Z"]), vd, learn_inducing_locations=r.get("learn_z", True), jitter_val=r.get("jitter"))
    if r.get("orth"):
        o = r["orth"]
        Zb = T(o["Zb"])
        mean_vd = V.DeltaVariationalDistribution(Zb.shape[-2], batch_shape=torch.Size(o.get("vb", [])),
                                                 mean_init_std=r.get("mean_init_std", 1e-3))
        vs = V.OrthogonallyDecoupledVariationalStrategy(vs, Zb, mean_vd, jitter_val=o.get("jitter"))
    if r.get("lmc"):
        l = r["lmc"]
        vs = V.LMCVariationalStrategy(vs, num_tasks=l["T"], num_latents=l["L"], latent_dim=l.get("latent_dim", -1), jitter_val=l.get("jitter"))
        vs.initialize(lmc_coefficients=T(l["coef"]))
    if r.get("indep"):
        i = r["indep"]
        vs = V.IndependentMultitaskVariationalStrategy(vs, num_tasks=i["T"], task_dim=i.get("task_dim", -1))
    return vs


def base_strategy(model):
    """the innermost strategy (the one that owns q(u) of the covariance / latent functions)"""
    vs = model.variational_strategy
    while hasattr(vs, "base_variational_strategy"):
        vs = vs.base_variational_strategy
    return vs


def set_q(strategy, params, mark=True):
    """write variational parameters with `initialize` and (optionally) mark the strategy as initialised, which is what
    loading a state dict does - otherwise the first call overwrites them with the prior + mean_init_std noise"""
    strategy._variational_distribution.initialize(**params)
    if mark:
        strategy.variational_params_initialized.fill_(1)


# ---------------------------------------------------------------------------------------------------
# strategies for the pieces
# ---------------------------------------------------------------------------------------------------
SVGP_KERNELS = ["RBF", "RBF", "Matern0.5", "Matern1.5", "Matern2.5", "RQ"]
JITTERS = [1e-10, 1e-8, 1e-6, 1e-4]
_ZL = [-2.0, -1.5, -1.0, -0.5, 0.0, 0.5, 1.0, 1.5, 2.0]


@st.composite
def svgp_leaf(draw, d, batch, names=None, ls=(0.4, 2.0)):
    name = draw(st.sampled_from(names or SVGP_KERNELS))
    batch = list(batch)
    ard = draw(st.booleans()) if d >= 2 else False
    r = {"k": name, "batch": batch, "ad": None, "d": d, "ard": ard, "p": {}}
    r["p"]["lengthscale"] = draw(kern.arr(batch + [1, d if ard else 1], kern.pos(*ls)))
    if name == "RQ":
        r["p"]["alpha"] = draw(kern.arr(batch + [1], kern.pos(0.3, 4.0)))
    return r


@st.composite
def svgp_kernel(draw, d, batch, names=None, ls=(0.4, 2.0)):
    """a short list: stationary leaf, Scale(leaf), leaf + Scale(leaf); lengthscales from the range `ls`"""
    batch = list(batch)
    kind = draw(st.sampled_from(["leaf", "scale", "scale", "add"]))
    leaf = draw(svgp_leaf(d, batch, names, ls))
    if kind == "leaf":
        return leaf
    sc = {"k": "Scale", "batch": batch, "base": leaf, "p": {"outputscale": draw(kern.arr(batch, kern.pos(0.2, 4.0)))}}
    if kind == "scale":
        return sc
    return {"k": "Add", "batch": batch, "parts": [draw(svgp_leaf(d, batch, names, ls)), sc]}


@st.composite
def inducing(draw, M, d, batch=()):
    """M pairwise distinct points (per batch element): lattice points of spacing 1/2, sometimes general 2-decimal floats"""
    def one():
        if draw(st.integers(0, 3)) == 0:
            elem = st.tuples(*[st.floats(-2, 2, allow_nan=False).map(lambda v: round(v, 2) + 0.0) for _ in range(d)])
        else:
            elem = st.tuples(*[st.sampled_from(_ZL) for _ in range(d)])
        return [list(p) for p in draw(st.lists(elem, min_size=M, max_size=M, unique=True))]

    batch = list(batch)
    if not batch:
        return one()

    def rec(shape):
        if not shape:
            return one()
        return [rec(shape[1:]) for _ in range(shape[0])]

    return rec(batch)


@st.composite
def q_params(draw, M, vb=(), zero_mean=False):
    """q as (mean, lower-triangular factor): S = L L^T with diag in [0.3, 1.5], off-diagonals in [-0.75, 0.75]"""
    vb = list(vb)
    m = draw(kern.arr(vb + [M], st.just(0.0) if zero_mean else kern.REAL))
    diag = draw(kern.arr(vb + [M], kern.pos(0.3, 1.5)))
    off = draw(kern.arr(vb + [M, M], st.sampled_from([0.0, 0.0, 0.25, -0.25, 0.5, -0.5, 0.75, -0.75])))
    L = torch.tril(T(off, dtype=torch.float64).reshape(*vb, M, M), -1) + torch.diag_embed(T(diag, dtype=torch.float64).reshape(*vb, M))
    return {"m": m, "L": L.tolist()}


def q_tensors(q):
    return T(q["m"], dtype=torch.float64), VO.spd(q["L"])


def q_is_nontrivial(m, S):
    """m != 0 and S not proportional to the identity (in whitened coordinates: m_u != m_z, S_u not prop. to Kzz)"""
    Sd = S.diagonal(dim1=-1, dim2=-2)
    off = (S - torch.diag_embed(Sd)).abs().max() if S.shape[-1] > 1 else torch.tensor(0.0)
    spread = (Sd.max(-1)[0] - Sd.min(-1)[0]).max()
    return bool(m.abs().max() > 0) and bool(off > 1e-6 or spread > 1e-6)

"""C05 (continued) - exotic, structured and derivative kernels against formulas written from their docstrings."""
from __future__ import annotations

import itertools
import math

import torch
from hypothesis import strategies as st

import gpytorch
from gpytorch import kernels as K

from pbt import kern
from pbt.core import Ctx, Subcheck

T = torch.tensor
SPECIAL = ["Cylindrical", "HammingIMQ", "GaussianSymKL", "SpectralDelta", "RFF", "Arc", "AdditiveStructure", "ProductStructure", "NewtonGirard",
           "SumInteraction", "Multitask", "Index", "LCM"]


def _unit_ball(draw, n, d):
    pts = T(draw(kern.arr([n, d], kern.REAL)))
    # the kernel is singular at the origin and the library jitters coordinates that are exactly 0 by its `eps`: keep the
    # generated coordinates away from exact zeros (|coordinate| >= 1e-3 before scaling)
    pts = torch.where(pts.abs() < 1e-3, torch.full_like(pts, 0.125), pts)
    nrm = pts.norm(dim=-1, keepdim=True)
    rad = T(draw(kern.arr([n, 1], st.floats(0.05, 0.95).map(lambda v: float(f"{v:.3g}")))))
    return (pts / nrm * rad).tolist()


@st.composite
def special_case(draw):
    kind = draw(st.sampled_from(SPECIAL))
    n1, n2 = draw(st.integers(1, 4)), draw(st.integers(1, 4))
    c = {"kind": kind, "n1": n1, "n2": n2, "same": draw(st.integers(0, 4)) == 0}
    d = draw(st.integers(1, 3))
    c["d"] = d
    if kind == "Cylindrical":
        d = draw(st.integers(2, 3))
        c.update(d=d, P=draw(st.integers(1, 4)), alpha=draw(kern.pos(0.5, 3.0)), beta=draw(kern.pos(0.5, 3.0)), ls=draw(kern.pos(0.3, 3.0)))
        c["weights"] = draw(kern.arr([c["P"]], kern.pos(0.1, 2.0)))
        c["x1"], c["x2"] = _unit_ball(draw, n1, d), _unit_ball(draw, n2, d)
    elif kind == "HammingIMQ":
        V, L = draw(st.integers(2, 4)), draw(st.integers(1, 4))
        c.update(V=V, L=L, alpha=draw(kern.pos(0.3, 3.0)), beta=draw(kern.pos(0.3, 3.0)))
        c["s1"] = draw(kern.arr([n1, L], st.integers(0, V - 1)))
        c["s2"] = draw(kern.arr([n2, L], st.integers(0, V - 1)))
    elif kind == "GaussianSymKL":
        h = draw(st.integers(1, 2))
        c.update(h=h, ls=draw(kern.pos(0.3, 5.0)))
        c["x1"] = draw(kern.arr([n1, 2 * h], st.floats(-2, 2).map(lambda v: float(f"{v:.3g}"))))
        c["x2"] = draw(kern.arr([n2, 2 * h], st.floats(-2, 2).map(lambda v: float(f"{v:.3g}"))))
    elif kind in ("SpectralDelta", "RFF"):
        c.update(num=draw(st.integers(1, 6)), ls=draw(kern.pos(0.3, 3.0)), ard=draw(st.booleans()) if kind == "SpectralDelta" else False,
                 torch_seed=draw(st.integers(0, 2**31 - 1)))
        c["x1"], c["x2"] = draw(kern.points(n1, d)), draw(kern.points(n2, d))
    elif kind == "Arc":
        c.update(angle=draw(kern.arr([1, d], st.floats(0.15, 0.85).map(lambda v: float(f"{v:.3g}")))), radius=draw(kern.arr([1, d], kern.pos(0.3, 3.0))),
                 ls=draw(kern.arr([1, d], kern.pos(0.5, 3.0))), nu=draw(st.sampled_from([0.5, 1.5, 2.5])),
                 # conditional dimensions: delta_i(x) = (x_i > threshold); None = the default (all dimensions active)
                 delta_thresh=draw(st.sampled_from([None, None, -0.5, 0.0, 0.6])))
        c["x1"], c["x2"] = draw(kern.points(n1, d)), draw(kern.points(n2, d))
    elif kind in ("AdditiveStructure", "ProductStructure", "NewtonGirard", "SumInteraction"):
        d = draw(st.integers(1, 4))
        c.update(d=d, base=draw(st.sampled_from(["RBF", "Matern2.5", "RQ"])), ls=draw(kern.pos(0.3, 3.0)), alpha=draw(kern.pos(0.3, 3.0)))
        if kind in ("NewtonGirard", "SumInteraction"):
            md = draw(st.integers(1, d))
            c.update(max_degree=md, outputscale=draw(kern.arr([md], kern.pos(0.1, 3.0))))
        c["x1"], c["x2"] = draw(kern.points(n1, d)), draw(kern.points(n2, d))
    elif kind in ("Multitask", "LCM"):
        t = draw(st.integers(1, 3))
        nk = 1 if kind == "Multitask" else draw(st.integers(1, 3))
        c.update(t=t, members=[])
        for _ in range(nk):
            rank = draw(st.integers(1, t))
            c["members"].append({"kernel": draw(kern.kernel_tree(d, [], depth=1, names=kern.STATIONARY + ["Periodic", "Poly2"], allow_ad=True)),
                                 "rank": rank,
                                 "covar_factor": draw(kern.arr([t, rank], kern.REAL)), "var": draw(kern.arr([t], kern.pos(0.05, 2.0)))})
        c["x1"], c["x2"] = draw(kern.points(n1, d)), draw(kern.points(n2, d))
    elif kind == "Index":
        t = draw(st.integers(1, 4))
        rank = draw(st.integers(1, t))
        c.update(t=t, rank=rank, covar_factor=draw(kern.arr([t, rank], kern.REAL)), var=draw(kern.arr([t], kern.pos(0.05, 2.0))))
        c["i1"] = draw(kern.arr([n1, 1], st.integers(0, t - 1)))
        c["i2"] = draw(kern.arr([n2, 1], st.integers(0, t - 1)))
    return c


def _base(c, d=None):
    name = c["base"]
    if name == "RBF":
        k = K.RBFKernel()
        f = lambda r2: torch.exp(-0.5 * r2)  # noqa: E731
    elif name == "RQ":
        k = K.RQKernel()
        k.alpha = T([c["alpha"]])
        f = lambda r2: (1 + r2 / (2 * c["alpha"])).pow(-c["alpha"])  # noqa: E731
    else:
        k = K.MaternKernel(nu=2.5)
        f = lambda r2: (1 + math.sqrt(5) * kern._safe_sqrt(r2) + 5.0 / 3.0 * r2) * torch.exp(-math.sqrt(5) * kern._safe_sqrt(r2))  # noqa: E731
    k.lengthscale = T([[c["ls"]]])
    return k, f


def _matern(nu, rr):
    e = torch.exp(-math.sqrt(2 * nu) * rr)
    if nu == 0.5:
        return e
    if nu == 1.5:
        return (1 + math.sqrt(3) * rr) * e
    return (1 + math.sqrt(5) * rr + 5.0 / 3.0 * rr**2) * e


def run_special(c, ctx: Ctx):
    kind = c["kind"]
    ctx.cls = kind
    same = c["same"]
    atol = 1e-11
    with ctx.observing("build"):
        if kind == "Cylindrical":
            k = K.CylindricalKernel(num_angular_weights=c["P"], radial_base_kernel=K.MaternKernel(nu=2.5))
            k.angular_weights = T(c["weights"])
            k.alpha = T([c["alpha"]])
            k.beta = T([c["beta"]])
            k.radial_base_kernel.lengthscale = T([[c["ls"]]])
            x1, x2 = T(c["x1"]), T(c["x2"])
            if same:
                x2 = x1
            r1, r2 = x1.norm(dim=-1, keepdim=True), x2.norm(dim=-1, keepdim=True)
            kuma = lambda r: 1 - (1 - r ** c["alpha"] + k.eps) ** c["beta"]  # noqa: E731
            cosang = (x1 / r1) @ (x2 / r2).T
            ang = sum(c["weights"][p] * cosang**p for p in range(c["P"]))
            rr = (kuma(r1) - kuma(r2).T).abs() / c["ls"]
            want = ang * _matern(2.5, rr)
            atol = 1e-9
        elif kind == "HammingIMQ":
            V = c["V"]
            k = K.HammingIMQKernel(vocab_size=V)
            k.alpha = T([c["alpha"]])
            k.beta = T([c["beta"]])
            s1, s2 = torch.tensor(c["s1"]), torch.tensor(c["s2"])
            if same:
                s2 = s1
            oh = lambda s: torch.nn.functional.one_hot(s, V).to(torch.float64).reshape(s.shape[0], -1)  # noqa: E731
            x1, x2 = oh(s1), oh(s2)
            ham = (s1.unsqueeze(1) != s2.unsqueeze(0)).sum(-1).to(torch.float64)
            want = ((1 + c["alpha"]) / (c["alpha"] + ham)) ** c["beta"]
        elif kind == "GaussianSymKL":
            k = K.GaussianSymmetrizedKLKernel()
            k.lengthscale = T([[c["ls"]]])
            x1, x2 = T(c["x1"]), T(c["x2"])
            if same:
                x2 = x1
            h = c["h"]
            m1, v1 = x1[:, :h], x1[:, h:].exp() + 1e-8
            m2, v2 = x2[:, :h], x2[:, h:].exp() + 1e-8
            kl = lambda ma, va, mb, vb: 0.5 * (va / vb + (ma - mb) ** 2 / vb - 1 + torch.log(vb / va))  # noqa: E731
            skl = (kl(m1[:, None], v1[:, None], m2[None], v2[None]) + kl(m2[None], v2[None], m1[:, None], v1[:, None])).sum(-1)
            want = torch.exp(-skl / c["ls"])
            atol = 1e-8  # the library clamps/normalises tiny negative distances
        elif kind == "SpectralDelta":
            torch.manual_seed(c["torch_seed"])
            d = c["d"]
            k = K.SpectralDeltaKernel(num_dims=d, num_deltas=c["num"], ard_num_dims=d if c["ard"] else None)
            k.lengthscale = T([[c["ls"]] * (d if c["ard"] else 1)])
            x1, x2 = T(c["x1"]), T(c["x2"])
            if same:
                x2 = x1
            Z = k.Z.detach()
            tau = (x1.unsqueeze(1) - x2.unsqueeze(0)) / c["ls"]
            want = torch.cos(2 * math.pi * (tau @ Z.T)).mean(-1)
        elif kind == "RFF":
            torch.manual_seed(c["torch_seed"])
            d = c["d"]
            k = K.RFFKernel(num_samples=c["num"], num_dims=d)
            k.lengthscale = T([[c["ls"]]])
            x1, x2 = T(c["x1"]), T(c["x2"])
            if same:
                x2 = x1
            W = k.randn_weights / c["ls"]
            want = torch.cos((x1.unsqueeze(1) - x2.unsqueeze(0)) @ W).mean(-1)
        elif kind == "Arc":
            d = c["d"]
            thr = c.get("delta_thresh")
            k = K.ArcKernel(K.MaternKernel(nu=c["nu"]), ard_num_dims=d, delta_func=None if thr is None else (lambda x: x > thr))
            k.angle, k.radius, k.lengthscale = T(c["angle"]), T(c["radius"]), T(c["ls"])
            x1, x2 = T(c["x1"]), T(c["x2"])
            if same:
                x2 = x1
            act = lambda x: torch.ones_like(x) if thr is None else (x > thr).to(x.dtype)  # noqa: E731
            emb = lambda x: torch.cat([act(x) * T(c["radius"]) * torch.sin(math.pi * T(c["angle"]) * x / T(c["ls"])),  # noqa: E731
                                       act(x) * T(c["radius"]) * torch.cos(math.pi * T(c["angle"]) * x / T(c["ls"]))], -1)
            e1, e2 = emb(x1), emb(x2)
            rr = kern._safe_sqrt((e1.unsqueeze(1) - e2.unsqueeze(0)).pow(2).sum(-1))
            want = _matern(c["nu"], rr)
            atol = 1e-6 if c["nu"] < 2 else 1e-9
        elif kind in ("AdditiveStructure", "ProductStructure", "NewtonGirard", "SumInteraction"):
            d = c["d"]
            base, f = _base(c)
            x1, x2 = T(c["x1"]), T(c["x2"])
            if same:
                x2 = x1
            per_dim = torch.stack([f(((x1[:, i].unsqueeze(-1) - x2[:, i].unsqueeze(-2)) / c["ls"]) ** 2) for i in range(d)])
            if kind == "AdditiveStructure":
                k = K.AdditiveStructureKernel(base, d)
                want = per_dim.sum(0)
            elif kind == "ProductStructure":
                k = K.ProductStructureKernel(base, d)
                want = per_dim.prod(0)
            else:
                md = c["max_degree"]
                want = 0
                for deg in range(1, md + 1):
                    e = sum(torch.stack([per_dim[i] for i in comb]).prod(0) for comb in itertools.combinations(range(d), deg))
                    want = want + (c["outputscale"][deg - 1] if kind == "NewtonGirard" else 1.0) * e
                if kind == "NewtonGirard":
                    k = K.NewtonGirardAdditiveKernel(base, d, max_degree=md)
                    k.outputscale = T(c["outputscale"])
                else:
                    k = None
            atol = 1e-9
        elif kind in ("Multitask", "LCM"):
            t = c["t"]
            x1, x2 = T(c["x1"]), T(c["x2"])
            if same:
                x2 = x1
            want = 0
            subs = []
            for mrec in c["members"]:
                F = T(mrec["covar_factor"])
                Bt = F @ F.T + torch.diag(T(mrec["var"]))
                Kd = kern.ref_kernel(mrec["kernel"], x1, x2)
                want = want + (Kd[:, None, :, None] * Bt[None, :, None, :]).reshape(Kd.shape[0] * t, Kd.shape[1] * t)
                subs.append(kern.build_kernel(mrec["kernel"]))
            if kind == "Multitask":
                k = K.MultitaskKernel(subs[0], num_tasks=t, rank=c["members"][0]["rank"])
                mods = [k]
            else:
                # LCMKernel takes one rank for all members: use the first member's rank and truncate / pad the factors accordingly
                rank = c["members"][0]["rank"]
                k = K.LCMKernel(subs, num_tasks=t, rank=rank)
                mods = list(k.covar_module_list)
                want = 0
                for mrec in c["members"]:
                    F = T(mrec["covar_factor"])[:, :rank]
                    F = torch.cat([F, torch.zeros(t, rank - F.shape[1])], -1) if F.shape[1] < rank else F
                    mrec = dict(mrec, _F=F)
                    Bt = F @ F.T + torch.diag(T(mrec["var"]))
                    Kd = kern.ref_kernel(mrec["kernel"], x1, x2)
                    want = want + (Kd[:, None, :, None] * Bt[None, :, None, :]).reshape(Kd.shape[0] * t, Kd.shape[1] * t)
            for mod, mrec in zip(mods, c["members"]):
                F = T(mrec["covar_factor"])
                if kind == "LCM":
                    rank = c["members"][0]["rank"]
                    F = F[:, :rank]
                    F = torch.cat([F, torch.zeros(t, rank - F.shape[1])], -1) if F.shape[1] < rank else F
                mod.task_covar_module.initialize(covar_factor=F)
                mod.task_covar_module.var = T(mrec["var"])
            atol = 1e-9 if all(kern.smooth_at_zero(m["kernel"]) for m in c["members"]) else 1e-6
        elif kind == "Index":
            t = c["t"]
            k = K.IndexKernel(num_tasks=t, rank=c["rank"])
            k.initialize(covar_factor=T(c["covar_factor"]))
            k.var = T(c["var"])
            x1, x2 = torch.tensor(c["i1"]), torch.tensor(c["i2"])
            if same:
                x2 = x1
            F = T(c["covar_factor"])
            M = F @ F.T + torch.diag(T(c["var"]))
            want = M[x1[:, 0]][:, x2[:, 0]]
    with ctx.observing("evaluate"):
        if kind == "SumInteraction":
            from gpytorch.utils.sum_interaction_terms import sum_interaction_terms

            got = sum_interaction_terms(per_dim, max_degree=c["max_degree"])
        else:
            out = k(x1) if (same and kind not in ("Index",)) else k(x1, x2)
            got = out.to_dense()
            gotd = k(x1, x2, diag=True) if same else None
    ctx.close("value", got, want, rtol=1e-9, atol=atol)
    if kind != "SumInteraction" and same and gotd is not None:
        ctx.close("diag", gotd, want.diagonal(), rtol=1e-9, atol=atol)
    ctx.label(f"special={kind}", f"same={same}", *([f"arc.delta={c.get('delta_thresh') is not None}"] if kind == "Arc" else []))
    ctx.set_nontrivial(c["n1"] != c["n2"] or c["d"] >= 2 or same)


# ---------------------------------------------------------------------------------------------------
# derivative kernels: joint covariance of [f, df/dx_1..d (, d2f/dx_1^2..d^2)] by nested autograd of a scalar reference
# ---------------------------------------------------------------------------------------------------
def deriv_gram(kfun, x1, x2, order):
    n1, d = x1.shape
    n2 = x2.shape[0]
    P = 1 + d * order
    out = torch.zeros(n1 * P, n2 * P)

    def functional(g, a, idx):
        if idx == 0:
            return g(a)
        if idx <= d:
            return torch.autograd.grad(g(a), a, create_graph=True)[0][idx - 1]
        j = idx - d - 1
        g1 = torch.autograd.grad(g(a), a, create_graph=True)[0][j]
        return torch.autograd.grad(g1, a, create_graph=True)[0][j]

    for i in range(n1):
        for j in range(n2):
            a = x1[i].clone().requires_grad_(True)
            b = x2[j].clone().requires_grad_(True)
            for ai in range(P):
                for bi in range(P):
                    val = functional(lambda bb: functional(lambda aa: kfun(aa, bb), a, ai), b, bi)
                    out[i * P + ai, j * P + bi] = val.detach()
    return out


DERIV = ["RBFGrad", "RBFGradGrad", "Matern52Grad", "PolyGrad2", "PolyGrad3"]


@st.composite
def deriv_case(draw):
    kind = draw(st.sampled_from(DERIV))
    d = draw(st.integers(1, 2))
    n1, n2 = draw(st.integers(1, 3)), draw(st.integers(1, 3))
    same = draw(st.integers(0, 3)) == 0
    ard = draw(st.booleans())
    c = {"kind": kind, "d": d, "n1": n1, "n2": n1 if same else n2, "same": same, "ard": ard, "ls": draw(kern.arr([1, d if ard else 1], kern.pos(0.4, 3.0))),
         "offset": draw(kern.pos(0.1, 2.0)), "x1": draw(kern.points(n1, d)), "x2": draw(kern.points(n2, d))}
    return c


def run_deriv(c, ctx: Ctx):
    kind, d = c["kind"], c["d"]
    ctx.cls = f"{kind}|d{d}|{'n1=n2' if c['n1'] == c['n2'] else 'n1!=n2'}"
    x1 = T(c["x1"])
    x2 = x1 if c["same"] else T(c["x2"])
    ls = T(c["ls"])[0]
    order = 2 if kind == "RBFGradGrad" else 1
    if kind.startswith("RBF"):
        kf = lambda a, b: torch.exp(-0.5 * (((a - b) / ls) ** 2).sum())  # noqa: E731
        cls = K.RBFKernelGrad if kind == "RBFGrad" else K.RBFKernelGradGrad
    elif kind == "Matern52Grad":
        def kf(a, b):
            u = (((a - b) / ls) ** 2).sum()
            if float(u) < 1e-8:
                # autograd cannot differentiate sqrt at 0 and loses everything to cancellation (terms in 1/r) next to it:
                # k = 1 - 5/6 r^2 + 25/24 r^4 - 1.242 r^5 + ...; the r^5 term contributes < 25 r^3 / l^2 < 1e-10 to the (<= 2nd order,
                # one per argument) derivatives for r < 1e-4
                return 1 - 5.0 / 6.0 * u + 25.0 / 24.0 * u**2
            r = u.sqrt()
            return (1 + math.sqrt(5) * r + 5.0 / 3.0 * r**2) * torch.exp(-math.sqrt(5) * r)

        cls = K.Matern52KernelGrad
    else:
        power = int(kind[-1])
        kf = lambda a, b: ((a * b).sum() + c["offset"]) ** power  # noqa: E731
        cls = None
    with ctx.observing("build"):
        if cls is not None:
            k = cls(ard_num_dims=d if c["ard"] else None)
            k.lengthscale = T(c["ls"])
        else:
            k = K.PolynomialKernelGrad(power=int(kind[-1]))
            k.offset = T([c["offset"]])
    want = deriv_gram(kf, x1, x2, order)
    with ctx.observing("evaluate"):
        got = (k(x1) if c["same"] else k(x1, x2)).to_dense()
        gotd = k(x1, diag=True) if c["same"] else None
    # Matern-5/2 derivative blocks at coincident points: third-order smoothness only, 1e-6 for the finite-precision distance
    atol = 1e-6 if kind == "Matern52Grad" else 1e-9
    ctx.close("value", got, want, rtol=1e-8, atol=atol)
    if gotd is not None:
        ctx.close("diag", gotd, want.diagonal(), rtol=1e-8, atol=atol)
    ctx.label(f"deriv={kind}", f"d={d}", f"n1!=n2={c['n1'] != c['n2']}", f"ard={c['ard']}")
    ctx.set_nontrivial(c["n1"] != c["n2"] or d >= 2 or c["ard"])


SUBCHECKS = [
    Subcheck("kernel.special", run_special, strategy=special_case, quick=2000, thorough=50000, min_shard=100),
    Subcheck("kernel.derivative", run_deriv, strategy=deriv_case, quick=500, thorough=12000, min_shard=30),
]

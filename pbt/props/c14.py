"""C14 - the variational predictive q(f) and kl_divergence() equal their closed forms for every variational strategy and
variational distribution class.

Every case generates q(u) as an explicit (mean, SPD covariance), *encodes* it into the parameters of the chosen
variational-distribution class with an independent encoder (pbt.var_oracle.encode), builds the model through the
public constructors, and compares `model(X)` / `kl_divergence()` with the dense closed forms of pbt.var_oracle
(q(u) pushed through p(f | u); KL(q(u) || p(u))).  Prior means / covariances come from the reference kernel and mean
formulas of pbt.kern, never from the library.

Conventions the oracle takes from the documentation: the strategy's `jitter_val` is part of the model (Kzz~ = Kzz +
jitter I; None = settings.variational_cholesky_jitter, 1e-6 in double); whitened strategies additionally add jitter I
to K_xx, which the property leaves open - every covariance is compared with the closed form +{0, 1[, 2]} x jitter x I
and the closest candidate is asserted."""
from __future__ import annotations

import contextlib
import copy
import math

import torch
from hypothesis import strategies as st

import gpytorch
from gpytorch import settings as S

from pbt import kern
from pbt import var_model as VM
from pbt import var_oracle as VO
from pbt.core import Ctx, Discard, PropertySpec, Subcheck

T = torch.tensor
F64 = torch.float64
DEFAULT_JITTER = 1e-6  # documented default of settings.variational_cholesky_jitter for double
GRID_PRIOR_JITTER = 1e-3  # GridInterpolationVariationalStrategy.prior_distribution: fixed, no constructor argument
MINVAR = 1e-10  # documented settings.min_variance for double: MultivariateNormal.variance is clamped there


# ---------------------------------------------------------------------------------------------------
# helpers
# ---------------------------------------------------------------------------------------------------
def jit_of(v):
    return DEFAULT_JITTER if v is None else float(v)


def tol_for(kappa, kernel_recipe, extra=1.0):
    """one dense solve (DESIGN 1.4): 1e3 eps kappa clipped to [1e-10, 1e-6]; kernels with a kink at r = 0 get the 1e-5
    floor used throughout (quadratic-expansion distances lose sqrt(eps) at near-coincident rows)"""
    t = min(max(1e3 * 2.2e-16 * kappa * extra, 1e-10), 1e-6)
    return t if kern.smooth_at_zero(kernel_recipe) else max(t, 1e-5)


def scale_of(*ts):
    return max([1.0] + [float(t.abs().max()) for t in ts if t is not None and t.numel()])


def close_best(ctx, name, got, candidates, tol, scale):
    return ctx.close(name, got, VO.best_of(got, candidates), rtol=tol, atol=tol, scale=scale)


def close_bcast(ctx, name, got, want, tol, scale=None):
    """compare after broadcasting `got` and `want` against each other (a KL that does not depend on a batch dimension
    may legitimately come back without it); incompatible shapes are reported as a shape violation"""
    try:
        bs = torch.broadcast_shapes(got.shape, want.shape)
    except RuntimeError:
        return ctx.close(name, got, want, rtol=tol, atol=tol)
    sc = scale if scale is not None else scale_of(want)
    return ctx.close(name, got.expand(bs), want.expand(bs), rtol=tol, atol=tol, scale=sc)


def cov_candidates(cov, jitter, ks):
    return [VO.with_diag(cov, k * jitter) for k in ks]


def var_candidates(cov, jitter, ks):
    d = cov.diagonal(dim1=-1, dim2=-2)
    return [(d + k * jitter).clamp_min(MINVAR) for k in ks]


def x_equals_z(X, Z):
    """the condition under which UnwhitenedVariationalStrategy returns q(u) itself (x and Z equal after broadcasting)"""
    Zt = T(Z, dtype=F64) if not isinstance(Z, torch.Tensor) else Z
    if X.shape[-2:] != Zt.shape[-2:]:
        return False
    bxz = torch.broadcast_shapes(X.shape[:-2], Zt.shape[:-2])
    return torch.equal(X.expand(*bxz, *X.shape[-2:]), Zt.expand(*bxz, *Zt.shape[-2:]))


def bp_labels(bp):
    """coarse labels of a batch pattern (kept few so that every strategy x distribution cell stays visible in the
    evidence histogram)"""
    model_b = bp["zb"] or bp["vb"] or bp["mb"]
    xb = bp["xb"]
    xkind = "none" if not xb else ("model" if xb == model_b else ("extra" if len(xb) > len(model_b) else "other"))
    return [f"batch:Z={int(bool(bp['zb']))},q={int(bool(bp['vb']))},hyper={int(bool(bp['mb']))}", f"batch:x={xkind}",
            ]


class ciq_settings:
    """'CIQ at tight settings': 30 quadrature nodes, msMINRES / CG at 1e-10 / 1e-12"""

    def __enter__(self):
        from contextlib import ExitStack

        self.stack = ExitStack()
        for cm in (S.num_contour_quadrature(30), S.minres_tolerance(1e-10), S.max_cg_iterations(2000), S.cg_tolerance(1e-12),
                   S.eval_cg_tolerance(1e-12), S.max_lanczos_quadrature_iterations(50)):
            self.stack.enter_context(cm)
        return self

    def __exit__(self, *a):
        return self.stack.__exit__(*a)


class no_settings:
    def __enter__(self):
        return self

    def __exit__(self, *a):
        return False


def ciq_calibration(blk):
    """The dependency's contour-integral quadrature (linear_operator sqrt_inv_matmul) estimates the spectrum of Kzz with a
    few Lanczos steps started at the right-hand side; where that estimate is poor the quadrature misses K^{-1/2} however
    many nodes are used.  Apply it to the *reference* matrix and discard the case if the solver itself misses the dense
    K^{-1/2} Kzx: this calibrates the domain ('CIQ at tight tolerance'), it is not the oracle."""
    from linear_operator import to_linear_operator

    rhs = VO.mT(blk.Kxz)
    with ciq_settings(), S.max_preconditioner_size(0), torch.no_grad():
        got = to_linear_operator(blk.Kzz).sqrt_inv_matmul(rhs)
    ev, U = torch.linalg.eigh(blk.Kzz)
    ref = (U * ev.rsqrt().unsqueeze(-2)) @ VO.mT(U) @ rhs
    err = float((got - ref).abs().max() / ref.abs().max().clamp_min(1e-300))
    if not err <= 1e-8:
        raise Discard("ciq: the dependency's contour quadrature misses K^-1/2 of the reference matrix by > 1e-8")


# ---------------------------------------------------------------------------------------------------
# generators
# ---------------------------------------------------------------------------------------------------
@st.composite
def batch_pattern(draw, mode="mixed"):
    """batch shapes of inducing points (zb), variational parameters (vb), kernel / mean hyper-parameters (mb), data (xb)"""
    if mode == "none" or (mode == "mixed" and draw(st.integers(0, 2)) > 0):
        xb = draw(st.sampled_from([[], [], [], [2]])) if mode == "mixed" else []
        return {"zb": [], "vb": [], "mb": [], "xb": xb}
    b = draw(st.sampled_from([[2], [2], [3], [2, 2], [3, 2]]))
    zb, vb, mb = [draw(st.sampled_from([[], b])) for _ in range(3)]
    if not (zb or vb or mb):
        which = draw(st.integers(0, 2))
        zb, vb, mb = (b if which == 0 else []), (b if which == 1 else []), (b if which == 2 else [])
    xb = draw(st.sampled_from([[], b, [2] + b, [2] + [1] * len(b), [1] * len(b)]))
    return {"zb": zb, "vb": vb, "mb": mb, "xb": xb}


def _touch(X, Z, xb, zb, xmode):
    """make the data coincide with inducing points: one row ('touch') or all of them ('is_z')"""
    Xt, Zt = T(X, dtype=F64), T(Z, dtype=F64)
    if xmode == "is_z" and xb == zb:
        return Zt.tolist(), "is_z"
    if xmode in ("touch", "is_z"):
        if not zb:
            Xt[..., 0, :] = Zt[0]
            return Xt.tolist(), "touch"
        if xb == zb:
            Xt[..., 0, :] = Zt[..., 0, :]
            return Xt.tolist(), "touch"
    return X, "free"


@st.composite
def svgp_case(draw, strategies, dists=tuple(VO.DISTS), batch="mixed", modes=("eval", "eval", "train"), ls=(0.4, 2.0), Mmax=5):
    strategy = draw(st.sampled_from(list(strategies)))
    dist = draw(st.sampled_from(list(dists)))
    d = draw(st.integers(1, 2))
    M = draw(st.integers(1, Mmax))
    n = draw(st.integers(1, 5))
    bp = draw(batch_pattern(batch))
    model = {
        "strategy": strategy, "Z": draw(VM.inducing(M, d, bp["zb"])), "learn_z": draw(st.booleans()),
        "jitter": draw(st.sampled_from(VM.JITTERS + [None])), "dist": dist, "vb": bp["vb"],
        "mean": draw(kern.mean_recipe(d, bp["mb"])), "kernel": draw(VM.svgp_kernel(d, bp["mb"], ls=ls)),
    }
    X = draw(kern.points(n, d, bp["xb"]))
    X, xmode = _touch(X, model["Z"], bp["xb"], bp["zb"], draw(st.sampled_from(["free"] * 6 + ["touch", "is_z"])))
    if xmode == "is_z":
        n = M
    init = draw(st.sampled_from(["flag", "flag", "forward_first"]))
    if strategy == "Unwhitened" and bp["vb"] != (bp["zb"] or bp["mb"]):
        # q(u) lives in u-space: a fresh unwhitened model can only be initialised from p(u) when the variational
        # parameters carry the batch shape of p(u) - otherwise the parameters are written directly
        init = "flag"
    return {"d": d, "M": M, "n": n, "bp": bp, "model": model, "X": X, "xmode": xmode, "q": draw(VM.q_params(M, bp["vb"])),
            "mode": draw(st.sampled_from(list(modes))), "init": init, "torch_seed": draw(st.integers(0, 2**31 - 1)),
            # settings.trace_mode (the documented setting for torch.jit.trace of a variational GP): dense branch of the strategies
            "trace": draw(st.integers(0, 3)) == 0, "stale_probe": draw(st.integers(0, 2)) == 0}


def encode_extras(draw, dist, M, vb):
    """exercise the documented freedom of the raw parameters: junk above the diagonal of the Cholesky factor, negative
    mean-field standard deviations"""
    if dist == "Cholesky" and draw(st.integers(0, 2)) == 0:
        return {"upper_junk": draw(kern.arr(list(vb) + [M, M], kern.REAL))}
    if dist == "MeanField" and draw(st.integers(0, 2)) == 0:
        return {"sign": draw(kern.arr(list(vb) + [M], st.sampled_from([1.0, -1.0])))}
    return {}


# ---------------------------------------------------------------------------------------------------
# 1. variational distributions return exactly the encoded (m, S)
# ---------------------------------------------------------------------------------------------------
@st.composite
def dist_case(draw):
    dist = draw(st.sampled_from(VO.DISTS))
    M = draw(st.integers(1, 6))
    vb = draw(st.sampled_from([[], [], [2], [3], [2, 3]]))
    via = draw(st.sampled_from(["params", "params", "library_init"]))
    case = {"dist": dist, "M": M, "vb": vb, "q": draw(VM.q_params(M, vb)), "via": via}
    if via == "params":
        case["extras"] = encode_extras(draw, dist, M, vb)
    return case


def run_dist(case, ctx: Ctx):
    dist, M, vb = case["dist"], case["M"], case["vb"]
    ctx.cls = f"{dist}|{case['via']}|vb{vb}"
    m, Sq = VM.q_tensors(case["q"])
    kS = VO.cond(Sq)
    # natural parameterisations invert S (twice: encoder and class): 1e3 eps cond(S), at least 1e-10
    tol = min(max(1e3 * 2.2e-16 * kS, 1e-10), 1e-6)
    wm, wS = VO.representable(dist, m, Sq)
    with ctx.observing("build"):
        vd = VM.build_distribution(dist, M, vb, mean_init_std=0.0)
        if case["via"] == "params":
            vd.initialize(**VO.encode(dist, m, Sq, **case.get("extras", {})))
        else:
            # the library's own encoder: initialise from N(m, S) with mean_init_std = 0
            vd.initialize_variational_distribution(gpytorch.distributions.MultivariateNormal(m, Sq))
    with ctx.observing("forward"):
        q = vd()
        gm = q.mean
        gS = None if dist == "Delta" else q.covariance_matrix
        gshape = tuple(vd.shape())
        gbatch, gevent = tuple(q.batch_shape), tuple(q.event_shape)
        kind = type(q).__name__
    ctx.equal("shape()", gshape, tuple(vb) + (M,))
    if dist != "Delta":  # (the library's Delta keeps the M values as batch dimensions of a scalar event: representation only)
        ctx.equal("batch_shape", gbatch, tuple(vb))
        ctx.equal("event_shape", gevent, (M,))
    ctx.equal("distribution_type", kind, "Delta" if dist == "Delta" else "MultivariateNormal")
    sc = scale_of(wm, wS)
    ctx.close("mean", gm, wm, rtol=tol, atol=tol, scale=sc)
    if wS is not None:
        ctx.close("covariance", gS, wS, rtol=tol, atol=tol, scale=sc)
    ctx.set_nontrivial(VM.q_is_nontrivial(m, Sq) and M >= 2)
    ctx.label(f"cell=dist:{dist}", f"dist.via={case['via']}", *[f"dist.extra={k}" for k in case.get("extras", {})])


# ---------------------------------------------------------------------------------------------------
# 2-4, 9. standard / unwhitened / CIQ strategies (+ batch shapes)
# ---------------------------------------------------------------------------------------------------
def build_and_call(ctx, case, r, params_by_strategy, X, call_kwargs=None, want_cov=True, reject=(), reject_match=""):
    """build the model from recipe r, write the variational parameters, put it in the requested mode, call it.
    params_by_strategy: list of (getter(model) -> strategy, params dict).  Returns a dict of dense observations."""
    call_kwargs = call_kwargs or {}
    settings_cm = ciq_settings() if r["strategy"] == "Ciq" else no_settings()
    with ctx.observing("build"):
        model = VM.RecipeSVGP(r)
        if case.get("init") == "forward_first":
            # a fresh model initialises q(u) randomly on its first call (mean_init_std): call first, then encode
            model.train()
            torch.manual_seed(case["torch_seed"])
            with settings_cm:
                model(X, **call_kwargs)
        for getter, params in params_by_strategy:
            VM.set_q(getter(model), params, mark=True)
        model.train(case["mode"] == "train")
    nograd = contextlib.nullcontext()
    if case.get("stale_probe") and case["mode"] == "train":
        # training mode memoizes nothing across calls: call once with autograd on, change q(u) (as an optimiser step would), and make
        # the observed call under torch.no_grad() (monitoring the fit without switching to eval()): it must see the new parameters
        with ctx.observing("forward.warm"):
            with torch.no_grad():
                for getter, params in params_by_strategy:
                    for prm in getter(model)._variational_distribution.parameters():
                        prm.mul_(0.5)  # every parameterisation (Cholesky factor, natural parameters, ...) stays valid under scaling
            with settings_cm:
                model(X, **call_kwargs)
            for getter, params in params_by_strategy:
                VM.set_q(getter(model), params, mark=True)
        nograd = torch.no_grad()
        ctx.label("train_call_under_no_grad_after_change")
    obs = {}
    if case.get("trace"):
        # under trace_mode q(f) is a dense-tensor MultivariateNormal, which torch factorises at construction: a numerically singular
        # covariance (duplicate inputs, a point-mass q(u) at an inducing point) cannot be represented that way - counted, not judged
        pass
    with ctx.observing("forward", reject=reject, reject_match=reject_match):
        torch.manual_seed(case.get("torch_seed", 0))
        with settings_cm, S.trace_mode(bool(case.get("trace"))), nograd:
            try:
                out = model(X, **call_kwargs)
            except torch.linalg.LinAlgError as e:
                if case.get("trace") and "cholesky" in str(e):
                    raise Discard("trace_mode: numerically singular dense covariance cannot be wrapped in a dense MultivariateNormal") from None
                raise
            obs["mean"] = out.mean
            obs["variance"] = out.variance
            if want_cov:
                obs["cov"] = out.covariance_matrix
            obs["kl"] = model.variational_strategy.kl_divergence()
            obs["initialized"] = int(VM.base_strategy(model).variational_params_initialized.item())
    obs["model"] = model
    return obs


def run_svgp(case, ctx: Ctx):
    r = case["model"]
    strat, dist, bp, mode = r["strategy"], r["dist"], case["bp"], case["mode"]
    batched = bool(bp["zb"] or bp["vb"] or bp["mb"] or bp["xb"])
    ctx.cls = f"{strat}|{dist}|{mode}|{'batch' if batched else 'plain'}"
    X = T(case["X"], dtype=F64)
    jit = jit_of(r["jitter"])
    m, Sq = VM.q_tensors(case["q"])
    blk = VO.prior_blocks(r["kernel"], r["mean"], r["Z"], X, jit, bp["vb"])
    ciq = strat == "Ciq"
    if blk.kappa > (1e3 if ciq else 1e8):
        raise Discard("ill-conditioned Kzz (kappa > 1e3 for CIQ)" if ciq else "ill-conditioned Kzz (kappa > 1e8)")
    if ciq:
        ciq_calibration(blk)
    # ---- oracle
    x_is_z = False
    if strat == "Unwhitened":
        wm, wc, wkl = VO.qf_unwhitened(blk, dist, m, Sq)
        x_is_z = x_equals_z(X, r["Z"])
        if x_is_z:
            if dist == "Delta":
                raise Discard("x == Z with a Delta q(u) on the unwhitened strategy (a point mass at u: no Gaussian to return)")
            # x == Z: q(f) = q(u) exactly (the jitter in Kzz~ is a numerical device, not part of p(f|u) at u itself);
            # the library hands back q(u) as stored, i.e. without the batch dimensions of the data
            wm, wc = VO.representable(dist, m, Sq)
        ks = (0,)
    else:
        wm, wc, wkl = VO.qf_whitened(blk, dist, m, Sq, "sym" if ciq else "chol")
        wkl = wkl if dist == "Delta" else VO.kl_std(*VO.representable(dist, m, Sq))
        ks = (0, 1, 2) if ciq else (0, 1)
    if ciq:
        tol = 1e-5  # CG / Lanczos class of DESIGN 1.4 (rtol 1e-4, atol 1e-5 x scale); the unchanged tree sits at 1e-10
        rtol = 1e-4
    else:
        tol = rtol = tol_for(max(blk.kappa, VO.cond(Sq)), r["kernel"])
    sc = scale_of(wm, wc)
    # ---- library
    params = VO.encode(dist, m, Sq)
    ngd = ciq and dist == "Natural"  # documented: only the diagonal of the covariance is computed on this path
    obs = build_and_call(ctx, case, r, [(VM.base_strategy, params)], X)
    if x_is_z:
        close_bcast(ctx, "mean", obs["mean"], wm, tol, scale=sc)
        close_bcast(ctx, "variance", obs["variance"], wc.diagonal(dim1=-1, dim2=-2).clamp_min(MINVAR), tol, scale=sc)
        close_bcast(ctx, "cov", obs["cov"], wc, tol, scale=sc)
    else:
        ctx.close("mean", obs["mean"], wm, rtol=rtol, atol=tol, scale=sc)
        ctx.close("variance", obs["variance"], VO.best_of(obs["variance"], var_candidates(wc, jit, ks)), rtol=rtol, atol=tol, scale=sc)
        if (mode == "eval" or strat != "Unwhitened") and not ngd:
            ctx.close("cov", obs["cov"], VO.best_of(obs["cov"], cov_candidates(wc, jit, ks)), rtol=rtol, atol=tol, scale=sc)
    # kl_divergence(): whitened strategies any time; unwhitened the way the objective uses it (training mode, after the
    # forward call - in eval mode that strategy adds a fixed 1e-3 to p(u), noted in DESIGN section 4, not asserted)
    # (the x == Z shortcut returns before p(u) is cached, so that call leaves the 1e-3 prior in place as well)
    if strat != "Unwhitened" or (mode == "train" and not x_is_z):
        ktol = tol_for(max(blk.kappa if strat == "Unwhitened" else 1.0, VO.cond(Sq)), r["kernel"]) if not ciq else 1e-9
        close_bcast(ctx, "kl", obs["kl"], wkl, ktol, scale=scale_of(wkl))
    ctx.equal("variational_params_initialized", obs["initialized"], 1)
    ctx.set_nontrivial(VM.q_is_nontrivial(m, Sq) and case["n"] >= 2)
    ctx.label(f"cell={strat}/{dist}", f"mode={mode}", *bp_labels(bp), f"init={case['init']}", f"xmode={case['xmode']}",
              f"trace_mode={bool(case.get('trace'))}")


# ---------------------------------------------------------------------------------------------------
# 5. whitened == unwhitened for the same q(u)  (metamorphic: library against library)
# ---------------------------------------------------------------------------------------------------
@st.composite
def meta_case(draw):
    case = draw(svgp_case(["Variational"], batch="mixed", modes=("eval", "train")))
    case["twin_dist"] = "Delta" if case["model"]["dist"] == "Delta" else draw(st.sampled_from(["Cholesky", "Cholesky", "Natural", "TrilNatural"]))
    case["init"] = "flag"
    return case


def run_meta(case, ctx: Ctx):
    r = case["model"]
    dist, bp, mode = r["dist"], case["bp"], case["mode"]
    ctx.cls = f"{dist}->{case['twin_dist']}|{mode}"
    X = T(case["X"], dtype=F64)
    jit = jit_of(r["jitter"])
    mw, Sw = VM.q_tensors(case["q"])
    blk = VO.prior_blocks(r["kernel"], r["mean"], r["Z"], X, jit, bp["vb"])
    if blk.kappa > 1e8:
        raise Discard("ill-conditioned Kzz (kappa > 1e8)")
    # the same q(u) in unwhitened coordinates: u = mz + L e, L = chol(Kzz~) of the *reference* kernel matrix
    mw_e, Sw_e = VO.representable(dist, mw, Sw)
    m_u, S_u = VO.decode_whitened(blk, mw_e, Sw_e)
    tol = tol_for(max(blk.kappa, VO.cond(Sw)), r["kernel"])
    a = build_and_call(ctx, case, r, [(VM.base_strategy, VO.encode(dist, mw, Sw))], X)
    r2 = copy.deepcopy(r)
    r2["strategy"], r2["dist"] = "Unwhitened", case["twin_dist"]
    # the unwhitened parameters carry the batch shape of q(u) itself (inducing / hyper-parameter batch included)
    r2["vb"] = list(m_u.shape[:-1])
    if S_u is None:
        p2 = VO.encode("Delta", m_u, None)
    else:
        S_u = 0.5 * (S_u + VO.mT(S_u))
        p2 = VO.encode(case["twin_dist"], m_u, S_u)
    if x_equals_z(X, r["Z"]):
        raise Discard("x == Z takes the unwhitened strategy's shortcut (covered in unwhitened.qf)")
    b = build_and_call(ctx, case, r2, [(VM.base_strategy, p2)], X)
    sc = scale_of(a["mean"], a["variance"])
    ctx.close("mean", b["mean"], a["mean"], rtol=tol, atol=tol, scale=sc)
    ctx.close("variance", b["variance"], VO.best_of(b["variance"], [a["variance"], (a["variance"] - jit).clamp_min(MINVAR)]), rtol=tol, atol=tol, scale=sc)
    if mode == "eval":
        ctx.close("cov", b["cov"], VO.best_of(b["cov"], [a["cov"], VO.with_diag(a["cov"], -jit)]), rtol=tol, atol=tol, scale=sc)
    if mode == "train" and dist != "Delta":
        # KL is invariant under the change of variables u = mz + L e (a point mass has no density: not comparable)
        close_bcast(ctx, "kl", b["kl"], a["kl"], tol, scale=scale_of(a["kl"]))
    ctx.set_nontrivial(VM.q_is_nontrivial(mw, Sw) and case["n"] >= 2)
    ctx.label(f"cell=meta:{dist}", f"meta.twin={case['twin_dist']}", f"mode={mode}", *bp_labels(bp))


# ---------------------------------------------------------------------------------------------------
# 6. q(u) = p(u)  =>  q(f) = prior and KL = 0
# ---------------------------------------------------------------------------------------------------
@st.composite
def prior_case(draw):
    strategy = draw(st.sampled_from(["Variational", "Variational", "Unwhitened", "Ciq", "BatchDecoupled"]))
    dist = draw(st.sampled_from(VO.GAUSSIAN_DISTS))
    via = draw(st.sampled_from(["encode", "encode", "library_init"]))
    if strategy == "Ciq" and dist == "Natural":
        via = "encode"  # this path initialises with a hard-coded 1e-3 noise on the mean (mean_init_std is not consulted)
    if strategy == "Unwhitened":
        via = "encode"  # its initialisation uses p(u) + 1e-3 I (DESIGN section 4 note), which is not p(u)
        if dist == "MeanField":
            dist = "Cholesky"  # p(u) = N(mz, Kzz) is not diagonal
    case = draw(svgp_case([strategy], dists=[dist], batch="none" if strategy == "BatchDecoupled" else "mixed",
                          ls=(0.3, 0.8) if strategy == "Ciq" else (0.4, 2.0)))
    case["via"] = via
    case["init"] = "flag"
    if strategy == "BatchDecoupled":
        case["model"]["mvbd"] = None
        case["model"]["learn_z"] = True
    if via == "library_init":
        case["model"]["mean_init_std"] = 0.0
    return case


def run_prior(case, ctx: Ctx):
    r = case["model"]
    strat, dist, bp, mode = r["strategy"], r["dist"], case["bp"], case["mode"]
    ctx.cls = f"{strat}|{dist}|{case['via']}|{mode}"
    X = T(case["X"], dtype=F64)
    jit = jit_of(r["jitter"])
    blk = VO.prior_blocks(r["kernel"], r["mean"], r["Z"], X, jit, bp["vb"])
    ciq = strat == "Ciq"
    if blk.kappa > (1e3 if ciq else 1e8):
        raise Discard("ill-conditioned Kzz (kappa > 1e3 for CIQ)" if ciq else "ill-conditioned Kzz (kappa > 1e8)")
    if ciq:
        ciq_calibration(blk)
    M = case["M"]
    vb = bp["vb"]
    if strat == "Unwhitened":
        m_q, S_q = blk.mz, blk.Kzz  # p(u) with the constructor's jitter
        r = copy.deepcopy(r)
        r["vb"] = list(blk.batch)
    else:
        m_q, S_q = torch.zeros(*vb, M), torch.eye(M).expand(*vb, M, M).clone()  # whitened: e ~ N(0, I)
    tol, rtol = (1e-5, 1e-4) if ciq else (tol_for(blk.kappa, r["kernel"]),) * 2
    wm, wc = blk.mx, blk.Kxx
    # (x == Z on the unwhitened strategy returns q(u) = N(mz, Kzz + jitter I) itself)
    xz = strat == "Unwhitened" and x_equals_z(X, r["Z"])
    ks = ((0, 1) if xz else (0,)) if strat == "Unwhitened" else ((0, 1, 2) if ciq else (0, 1))
    sc = scale_of(wm, wc)
    if case["via"] == "library_init":
        # fresh model, mean_init_std = 0: the first call initialises q(u) := p(u)
        settings_cm = ciq_settings() if ciq else no_settings()
        with ctx.observing("build"):
            model = VM.RecipeSVGP(r)
            model.train(mode == "train")
        obs = {}
        with ctx.observing("forward"):
            torch.manual_seed(case["torch_seed"])
            with settings_cm:
                out = model(X)
                obs["mean"], obs["variance"], obs["cov"] = out.mean, out.variance, out.covariance_matrix
                obs["kl"] = model.variational_strategy.kl_divergence()
                obs["initialized"] = int(model.variational_strategy.variational_params_initialized.item())
    else:
        obs = build_and_call(ctx, case, r, [(VM.base_strategy, VO.encode(dist, m_q, S_q))], X)
    ngd = ciq and dist == "Natural"
    ctx.close("mean", obs["mean"], wm, rtol=rtol, atol=tol, scale=sc)
    ctx.close("variance", obs["variance"], VO.best_of(obs["variance"], var_candidates(wc, jit, ks)), rtol=rtol, atol=tol, scale=sc)
    if (mode == "eval" or strat != "Unwhitened") and not ngd:
        ctx.close("cov", obs["cov"], VO.best_of(obs["cov"], cov_candidates(wc, jit, ks)), rtol=rtol, atol=tol, scale=sc)
    if strat != "Unwhitened" or (mode == "train" and not xz):
        # BatchDecoupled defines its KL as KL(delta_m || p) + KL(N(0, S) || p): the point-mass term is M/2 log(2 pi) at m = 0
        wkl = torch.full(tuple(vb), 0.5 * M * math.log(2 * math.pi)) if strat == "BatchDecoupled" else torch.zeros(tuple(vb))
        ktol = tol_for(blk.kappa if strat == "Unwhitened" else 1.0, r["kernel"]) if not ciq else 1e-9
        close_bcast(ctx, "kl", obs["kl"], wkl, ktol, scale=1.0)
    ctx.equal("variational_params_initialized", obs["initialized"], 1)
    ctx.set_nontrivial(case["n"] >= 2 and M >= 2)
    ctx.label(f"cell=prior:{strat}", f"prior.via={case['via']}", f"mode={mode}", *bp_labels(bp))


# ---------------------------------------------------------------------------------------------------
# 7. BatchDecoupledVariationalStrategy
# ---------------------------------------------------------------------------------------------------
def slice_batch(recipe, idx, pos=-1):
    """the recipe restricted to entry `idx` of batch dimension `pos` (negative; size-1 dimensions broadcast)"""
    rec = copy.deepcopy(recipe)

    def visit(o):
        if isinstance(o, dict):
            b = o.get("batch")
            if b:
                k = len(b) + pos
                j = idx if b[k] > 1 else 0
                for pn, pv in list(o.get("p", {}).items()):
                    o["p"][pn] = T(pv, dtype=F64).select(k, j).tolist()
                o["batch"] = b[:k] + b[k + 1:]
            for v in o.values():
                visit(v)
        elif isinstance(o, list):
            for v in o:
                if isinstance(v, (dict, list)):
                    visit(v)

    visit(rec)
    return rec


@st.composite
def bdecoupled_case(draw):
    dist = draw(st.sampled_from(VO.GAUSSIAN_DISTS * 3 + ["Delta"]))
    d = draw(st.integers(1, 2))
    M = draw(st.integers(1, 4))
    n = draw(st.integers(1, 4))
    vb = draw(st.sampled_from([[], [], [2], [3], [3, 2]]))
    mvbd = draw(st.sampled_from([None, None, -1, -1, -2])) if vb else draw(st.sampled_from([None, -1]))
    # documented: shared hyper-parameters -> modules of batch shape vb + [1] (or none); different ones -> vb + [2]
    # (mean_var_batch_dim = -1), or the 2 in front of the last batch dimension (mean_var_batch_dim = -2)
    if mvbd is None:
        mb = draw(st.sampled_from([[], vb + [1]]))
    elif mvbd == -1:
        mb = draw(st.sampled_from([vb + [2], vb + [2], [2]]))
    else:
        mb = vb[:-1] + [2] + vb[-1:]
    # (mean_var_batch_dim = -2 is exercised with data that carry the model's batch dimensions: unbatched x raises there)
    xb = draw(st.sampled_from(([[]] if mvbd != -2 else []) + [vb, [3] + vb, [2] + vb]))
    learn_z = draw(st.integers(0, 3)) > 0
    model = {"strategy": "BatchDecoupled", "Z": draw(VM.inducing(M, d, vb)), "learn_z": learn_z, "mvbd": mvbd,
             "jitter": draw(st.sampled_from(VM.JITTERS + [None])), "dist": dist, "vb": vb,
             "mean": draw(kern.mean_recipe(d, mb)), "kernel": draw(VM.svgp_kernel(d, mb))}
    case = {"d": d, "M": M, "n": n, "bp": {"zb": vb, "vb": vb, "mb": mb, "xb": xb}, "model": model, "X": draw(kern.points(n, d, xb)),
            "q": draw(VM.q_params(M, vb)), "mode": draw(st.sampled_from(["eval", "eval", "train"])),
            "init": draw(st.sampled_from(["flag", "flag", "forward_first"])), "torch_seed": draw(st.integers(0, 2**31 - 1)), "xmode": "free"}
    # a second, different inducing set for the covariance (only reachable when the locations are parameters)
    case["Z2"] = draw(VM.inducing(M, d, vb)) if learn_z and draw(st.booleans()) else None
    return case


def run_bdecoupled(case, ctx: Ctx):
    r = case["model"]
    dist, bp, mode, vb = r["dist"], case["bp"], case["mode"], case["bp"]["vb"]
    # the strategy stacks the two inducing sets along a new batch dimension of size 2: a data batch shape equal to the
    # stacked shape is the cell where that internal dimension and a genuine data batch dimension coincide
    pos = -2 if r["mvbd"] == -2 else -1
    collide = bp["xb"] == (vb + [2] if pos == -1 else vb[:-1] + [2] + vb[-1:])
    ctx.cls = f"BatchDecoupled|{dist}|{mode}|mvbd{r['mvbd']}|{'xb=stacked' if collide else 'regular'}"
    X = T(case["X"], dtype=F64)
    jit = jit_of(r["jitter"])
    if dist == "Delta":
        with ctx.observing("build", reject=(NotImplementedError,), reject_match="does not work with DeltaVariationalDistribution"):
            VM.RecipeSVGP(r)
        ctx.check("delta_refused", False, "BatchDecoupledVariationalStrategy accepted a DeltaVariationalDistribution")
        return
    mw, Sw = VM.q_tensors(case["q"])
    Z1 = T(r["Z"], dtype=F64)
    Z2 = Z1 if case["Z2"] is None else T(case["Z2"], dtype=F64)
    k0, k1 = slice_batch(r["kernel"], 0, pos), slice_batch(r["kernel"], 1, pos)
    m0, m1 = slice_batch(r["mean"], 0, pos), slice_batch(r["mean"], 1, pos)
    b0 = VO.prior_blocks(k0, m0, Z1, X, jit, vb)
    b1 = VO.prior_blocks(k1, m1, Z2, X, jit, vb)
    if max(b0.kappa, b1.kappa) > 1e8:
        raise Discard("ill-conditioned Kzz (kappa > 1e8)")
    wm, wc, wkl = VO.batch_decoupled(b0, b1, dist, mw, Sw)
    tol = tol_for(max(b0.kappa, b1.kappa, VO.cond(Sw)), r["kernel"])
    sc = scale_of(wm, wc)

    def strategy_with_z2(model):
        vs = VM.base_strategy(model)
        if case["Z2"] is not None:
            vs.initialize(inducing_points=torch.stack([Z1, Z2], dim=pos - 2))
        return vs

    obs = build_and_call(ctx, case, r, [(strategy_with_z2, VO.encode(dist, mw, Sw))], X)
    ctx.close("mean", obs["mean"], wm, rtol=tol, atol=tol, scale=sc)
    ctx.close("variance", obs["variance"], VO.best_of(obs["variance"], var_candidates(wc, jit, (0, 1))), rtol=tol, atol=tol, scale=sc)
    ctx.close("cov", obs["cov"], VO.best_of(obs["cov"], cov_candidates(wc, jit, (0, 1))), rtol=tol, atol=tol, scale=sc)
    close_bcast(ctx, "kl", obs["kl"], wkl, tol_for(VO.cond(Sw), r["kernel"]), scale=scale_of(wkl))
    ctx.set_nontrivial(VM.q_is_nontrivial(mw, Sw) and case["n"] >= 2)
    ctx.label(f"cell=BatchDecoupled/{dist}", f"mode={mode}", f"BatchDecoupled.mvbd={r['mvbd']}",
              f"BatchDecoupled.hypers={'shared' if not bp['mb'] or 2 not in bp['mb'][-2:] else 'separate'}", f"BatchDecoupled.xb={'stacked' if collide else ('none' if not bp['xb'] else 'batched')}",
              f"init={case['init']}")


# ---------------------------------------------------------------------------------------------------
# 8. OrthogonallyDecoupledVariationalStrategy
# ---------------------------------------------------------------------------------------------------
@st.composite
def orth_case(draw):
    dist = draw(st.sampled_from(VO.DISTS))
    d = draw(st.integers(1, 2))
    M = draw(st.integers(1, 4))
    Mb = draw(st.integers(1, 3))
    n = draw(st.integers(1, 4))
    b = draw(st.sampled_from([[], [], [2], [3]]))
    vb, ob, zbb, mb = [draw(st.sampled_from([[], b])) for _ in range(4)]
    zb = draw(st.sampled_from([[], b]))
    xb = draw(st.sampled_from([[], b, [2] + b])) if b else draw(st.sampled_from([[], [2]]))
    model = {"strategy": "Variational", "Z": draw(VM.inducing(M, d, zb)), "learn_z": draw(st.booleans()),
             "jitter": draw(st.sampled_from(VM.JITTERS + [None])), "dist": dist, "vb": vb,
             "mean": draw(kern.mean_recipe(d, mb)), "kernel": draw(VM.svgp_kernel(d, mb)),
             "orth": {"Zb": draw(kern.points(Mb, d, zbb)), "jitter": draw(st.sampled_from(VM.JITTERS + [None])), "vb": ob}}
    case = {"d": d, "M": M, "Mb": Mb, "n": n, "bp": {"zb": zb, "vb": vb, "mb": mb, "xb": xb, "ob": ob, "zbb": zbb}, "model": model,
            "X": draw(kern.points(n, d, xb)), "q": draw(VM.q_params(M, vb)), "a": draw(kern.arr(ob + [Mb], kern.REAL)),
            "mode": draw(st.sampled_from(["eval", "eval", "train"])), "init": draw(st.sampled_from(["flag", "flag", "forward_first"])),
            "torch_seed": draw(st.integers(0, 2**31 - 1)), "xmode": "free"}
    case["bad_mean_dist"] = draw(st.integers(0, 29)) == 13  # the mean distribution must be a Delta (documented refusal)
    if ob != b:
        case["init"] = "flag"  # the mean parameters can be initialised from the base q(f) only if they carry its batch shape
    return case


def run_orth(case, ctx: Ctx):
    r = case["model"]
    dist, bp, mode = r["dist"], case["bp"], case["mode"]
    ctx.cls = f"Orthogonal|{dist}|{mode}"
    if case["bad_mean_dist"]:
        with ctx.observing("build", reject=(NotImplementedError,), reject_match="currently works with DeltaVariationalDistribution"):
            from gpytorch import variational as V

            base = V.VariationalStrategy(None, T(r["Z"], dtype=F64), VM.build_distribution(dist, case["M"], bp["vb"]))
            V.OrthogonallyDecoupledVariationalStrategy(base, T(r["orth"]["Zb"], dtype=F64), VM.build_distribution("Cholesky", case["Mb"], []))
        ctx.check("gaussian_mean_dist_refused", False, "a non-Delta mean distribution was accepted")
        return
    X = T(case["X"], dtype=F64)
    Zb = T(r["orth"]["Zb"], dtype=F64)
    n, Mb = case["n"], case["Mb"]
    jb, jo = jit_of(r["jitter"]), jit_of(r["orth"]["jitter"])
    mw, Sw = VM.q_tensors(case["q"])
    a = T(case["a"], dtype=F64)
    bs = torch.broadcast_shapes(X.shape[:-2], Zb.shape[:-2])
    full = torch.cat([X.expand(*bs, *X.shape[-2:]), Zb.expand(*bs, *Zb.shape[-2:])], -2)
    blk = VO.prior_blocks(r["kernel"], r["mean"], r["Z"], full, jb, torch.broadcast_shapes(torch.Size(bp["vb"]), torch.Size(bp["ob"])))
    if blk.kappa > 1e8:
        raise Discard("ill-conditioned Kzz (kappa > 1e8)")
    fm, fc, _ = VO.qf_whitened(blk, dist, mw, Sw)
    bkl = VO.kl_delta_std(mw) if dist == "Delta" else VO.kl_std(*VO.representable(dist, mw, Sw))
    wm, wc, Cbb = VO.orthogonal(fm, fc, n, a)
    tol = tol_for(max(blk.kappa, VO.cond(Sw)), r["kernel"])
    sc = scale_of(wm, wc)
    obs = build_and_call(ctx, case, r, [(VM.base_strategy, VO.encode(dist, mw, Sw)),
                                        (lambda mdl: mdl.variational_strategy, {"variational_mean": a})], X)
    ctx.close("mean", obs["mean"], wm, rtol=tol, atol=tol, scale=sc)
    # the covariance does not depend on the mean parameters: when only they carry a batch dimension the library returns
    # the covariance without it (broadcast-equivalent; how MultivariateNormal reports such a pair belongs to C10)
    gv, gc = obs["variance"], obs["cov"]
    if _bcastable(gc, wc):
        gv, gc = gv.expand(wc.shape[:-1]), gc.expand(wc.shape)
    ctx.close("variance", gv, VO.best_of(gv, var_candidates(wc, jb, (0, 1))), rtol=tol, atol=tol, scale=sc)
    ctx.close("cov", gc, VO.best_of(gc, cov_candidates(wc, jb, (0, 1))), rtol=tol, atol=tol, scale=sc)
    # KL = base KL + 1/2 a^T (C_bb [+ base jitter] [+ own jitter]) a  - which jitters are present depends on the mode
    quad = lambda c: 0.5 * (a * VO.mv(Cbb + c * torch.eye(Mb), a)).sum(-1)  # noqa: E731
    cands = [bkl + quad(c) for c in (0.0, jb, jo, jb + jo)]
    cands = [c.expand(torch.broadcast_shapes(c.shape, obs["kl"].shape)) if _bcastable(c, obs["kl"]) else c for c in cands]
    got = obs["kl"]
    if _bcastable(cands[0], got):
        got = got.expand(cands[0].shape)
    ctx.close("kl", got, VO.best_of(got, cands), rtol=tol, atol=tol, scale=scale_of(cands[0]))
    ctx.set_nontrivial(VM.q_is_nontrivial(mw, Sw) and n >= 2 and bool(a.abs().max() > 0))
    ctx.label(f"cell=Orthogonal/{dist}", f"mode={mode}", *bp_labels(bp), f"init={case['init']}")


def _bcastable(a, b):
    try:
        torch.broadcast_shapes(a.shape, b.shape)
        return True
    except RuntimeError:
        return False


# ---------------------------------------------------------------------------------------------------
# 10. GridInterpolationVariationalStrategy
# ---------------------------------------------------------------------------------------------------
@st.composite
def grid_case(draw):
    d = draw(st.sampled_from([1, 2, 2]))
    g = draw(st.integers(4, 6))
    dist = draw(st.sampled_from(VO.GAUSSIAN_DISTS * 4 + ["Delta"]))
    bounds = []
    for _ in range(d):
        lo = draw(st.sampled_from([-1.0, 0.0, -2.5, 0.5]))
        bounds.append([lo, lo + draw(st.sampled_from([1.0, 2.0, 3.0]))])
    if d == 2 and draw(st.integers(0, 2)) == 0:
        bounds[1] = list(bounds[0])  # the fully symmetric set-up of the repository's own example
    vb = draw(st.sampled_from([[], [], [2]]))
    xb = draw(st.sampled_from([[], vb, [3] + vb]))
    n = draw(st.integers(1, 4))
    M = g**d
    # positions inside the part of the grid where all four neighbours of the cubic stencil exist, as fractions
    U = draw(kern.arr(xb + [n, d], st.sampled_from([0.0, 0.25, 0.5, 0.75, 1.0]) | st.floats(0, 1).map(lambda v: round(v, 3))))
    q = {"m": draw(kern.arr(vb + [M], kern.REAL)), "diag": draw(kern.arr(vb + [M], kern.pos(0.3, 1.5))),
         "v": draw(kern.arr(vb + [M], st.sampled_from([0.0, 0.0, 0.5, -0.5, 1.0])))}
    model = {"strategy": "Grid", "grid_size": g, "bounds": bounds, "dist": dist, "vb": vb,
             "mean": draw(kern.mean_recipe(d, [])), "kernel": draw(VM.svgp_kernel(d, [], names=["RBF", "RBF", "Matern2.5", "RQ"]))}
    return {"d": d, "g": g, "M": M, "n": n, "bp": {"zb": [], "vb": vb, "mb": [], "xb": xb}, "model": model, "U": U, "q": q,
            "mode": draw(st.sampled_from(["eval", "eval", "train"])), "init": draw(st.sampled_from(["flag", "flag", "forward_first"])),
            "torch_seed": draw(st.integers(0, 2**31 - 1)), "xmode": "free"}


def grid_inputs(case):
    r = case["model"]
    grids = [VO.grid_1d(lo, hi, case["g"]) for lo, hi in r["bounds"]]
    U = T(case["U"], dtype=F64)
    # at least 2% of a cell away from the first / last interior node: outside that range the strategy switches to
    # nearest-neighbour weights (not part of the closed form asserted here)
    X = torch.stack([gr[1] + (0.02 + 0.96 * U[..., j]) * (gr[-2] - gr[1]) for j, gr in enumerate(grids)], -1)
    return grids, X


def run_grid(case, ctx: Ctx):
    r = case["model"]
    dist, bp, mode, d, g, M = r["dist"], case["bp"], case["mode"], case["d"], case["g"], case["M"]
    sym = d == 1 or (r["bounds"][0] == r["bounds"][1] and not any(l.get("ard") for l in kern.leaves(r["kernel"])) and r["mean"]["m"] != "Linear")
    ctx.cls = f"Grid|d{d}|{dist}|{mode}|{'symmetric' if sym else 'asymmetric'}"
    grids, X = grid_inputs(case)
    m = T(case["q"]["m"], dtype=F64)
    v = T(case["q"]["v"], dtype=F64)
    Sq = torch.diag_embed(T(case["q"]["diag"], dtype=F64)) + v.unsqueeze(-1) * v.unsqueeze(-2)
    if dist == "Delta":
        case = dict(case, init="flag")
        build_and_call(ctx, case, r, [(VM.base_strategy, VO.encode(dist, m, Sq))], X,
                       reject=(RuntimeError,), reject_match="only compatible with Gaussian variational")
        ctx.check("delta_refused", False, "GridInterpolationVariationalStrategy produced q(f) from a Delta distribution")
        return
    em, eS = VO.representable(dist, m, Sq)
    obs = build_and_call(ctx, case, r, [(VM.base_strategy, VO.encode(dist, m, Sq))], X)
    with ctx.observing("inducing_points"):
        Zg = VM.base_strategy(obs["model"]).inducing_points.detach().clone()
    # u_k is the function value at the k-th inducing point (that is where the prior p(u) = N(m(Z), K(Z,Z)) places it):
    # the interpolation weights are taken relative to those locations
    nodes = torch.cartesian_prod(*grids).reshape(-1, d)
    ctx.check("inducing_points_are_the_grid", tuple(Zg.shape) == (M, d) and bool(
        torch.allclose(torch.unique(Zg, dim=0), torch.unique(nodes, dim=0), rtol=0, atol=1e-12)),
        f"inducing_points {tuple(Zg.shape)} are not the {g}^{d} nodes of the documented grid")
    if tuple(Zg.shape) != (M, d):
        return
    W = VO.keys_weights(X, Zg, [float(gr[1] - gr[0]) for gr in grids])
    wm = VO.mv(W, em)
    wc = W @ eS @ VO.mT(W)
    wc = 0.5 * (wc + VO.mT(wc))
    Kzz = kern.ref_kernel(r["kernel"], Zg, Zg) + GRID_PRIOR_JITTER * torch.eye(M)
    mz = kern.ref_mean(r["mean"], Zg)
    kap = VO.cond(Kzz)
    wkl = VO.kl_mvn(em, eS, mz, Kzz)
    tol = min(max(1e3 * 2.2e-16 * VO.cond(Sq), 1e-10), 1e-6)
    sc = scale_of(wm, wc)
    ctx.close("mean", obs["mean"], wm, rtol=tol, atol=tol, scale=sc)
    ctx.close("variance", obs["variance"], wc.diagonal(dim1=-1, dim2=-2).clamp_min(MINVAR), rtol=tol, atol=tol, scale=sc)
    ctx.close("cov", obs["cov"], wc, rtol=tol, atol=tol, scale=sc)
    close_bcast(ctx, "kl", obs["kl"], wkl, tol_for(max(kap, VO.cond(Sq)), r["kernel"]), scale=scale_of(wkl))
    ctx.set_nontrivial(case["n"] >= 2 and bool(m.abs().max() > 0))
    ctx.label(f"cell=Grid/{dist}", f"mode={mode}", f"Grid.d={d}", f"Grid.layout={'symmetric' if sym else 'asymmetric'}",
              *bp_labels(bp), f"init={case['init']}")


# ---------------------------------------------------------------------------------------------------
# 11-12. multitask wrappers
# ---------------------------------------------------------------------------------------------------
@st.composite
def multitask_case(draw, kind):
    base = draw(st.sampled_from(["Variational", "Variational", "Variational", "Unwhitened"]))
    dist = draw(st.sampled_from(VO.DISTS))
    d = draw(st.integers(1, 2))
    M = draw(st.integers(1, 4))
    n = draw(st.integers(1, 4))
    L = draw(st.sampled_from([1, 2, 2, 3, 3]))  # latent functions (LMC) / tasks (independent)
    layout = draw(st.sampled_from(["[L]", "[L]", "[L]", "[B,L]", "[L,B]"]))
    B = draw(st.sampled_from([2, 3]))
    vb, dim = {"[L]": ([L], -1), "[B,L]": ([B, L], -1), "[L,B]": ([L, B], -2)}[layout]
    zb, mb = [draw(st.sampled_from([[], vb])) for _ in range(2)]
    use_ti = draw(st.booleans())
    xb = [] if use_ti else draw(st.sampled_from([[], [], [2] + [1] * len(vb)]))
    model = {"strategy": base, "Z": draw(VM.inducing(M, d, zb)), "learn_z": draw(st.booleans()),
             "jitter": draw(st.sampled_from(VM.JITTERS + [None])), "dist": dist, "vb": vb,
             "mean": draw(kern.mean_recipe(d, mb)), "kernel": draw(VM.svgp_kernel(d, mb))}
    if kind == "lmc":
        Tn = draw(st.integers(1, 3))
        model["lmc"] = {"T": Tn, "L": L, "latent_dim": dim, "jitter": draw(st.sampled_from(VM.JITTERS + [None])),
                        "coef": draw(kern.arr(vb + [Tn], kern.REAL))}
    else:
        Tn = L
        model["indep"] = {"T": L, "task_dim": dim}
    # the unwhitened base is used in eval mode only (its training-mode covariance is diagonal by design)
    mode = "eval" if base == "Unwhitened" else draw(st.sampled_from(["eval", "eval", "train"]))
    return {"d": d, "M": M, "n": n, "T": Tn, "L": L, "layout": layout, "dim": dim, "bp": {"zb": zb, "vb": vb, "mb": mb, "xb": xb},
            "model": model, "X": draw(kern.points(n, d, xb)), "q": draw(VM.q_params(M, vb)),
            "ti": draw(st.lists(st.integers(0, Tn - 1), min_size=n, max_size=n)) if use_ti else None,
            "mode": mode, "init": draw(st.sampled_from(["flag", "flag", "forward_first"])), "torch_seed": draw(st.integers(0, 2**31 - 1)), "xmode": "free"}


def run_multitask(case, ctx: Ctx):
    r = case["model"]
    kind = "LMC" if "lmc" in r else "Independent"
    base, dist, bp, mode, dim = r["strategy"], r["dist"], case["bp"], case["mode"], case["dim"]
    ti = case["ti"]
    ctx.cls = f"{kind}|dim{dim}|{'batched' if bp['mb'] else 'shared'}-hypers|ti{int(ti is not None)}|{base}|{dist}|{mode}"
    X = T(case["X"], dtype=F64)
    jb = jit_of(r["jitter"])
    m, Sq = VM.q_tensors(case["q"])
    blk = VO.prior_blocks(r["kernel"], r["mean"], r["Z"], X, jb, bp["vb"])
    if blk.kappa > 1e8:
        raise Discard("ill-conditioned Kzz (kappa > 1e8)")
    if base == "Unwhitened":
        if x_equals_z(X, r["Z"]):
            raise Discard("x == Z takes the unwhitened strategy's shortcut (covered in unwhitened.qf)")
        fm, fc, fkl = VO.qf_unwhitened(blk, dist, m, Sq)
        kb = (0,)
    else:
        fm, fc, _ = VO.qf_whitened(blk, dist, m, Sq)
        fkl = VO.kl_delta_std(m) if dist == "Delta" else VO.kl_std(*VO.representable(dist, m, Sq))
        kb = (0, 1)
    if ti is not None:
        # the task_indices path forms the elementwise product latent_cov * (a a^T) through root decompositions of both
        # factors (dependency: MulLinearOperator); a numerically singular latent covariance (duplicate inputs, point-mass
        # q(u) at an inducing point) only has a root after the dependency's Cholesky jitter (1e-8 ... 1e-6): outside 'exact'
        lam = torch.linalg.eigvalsh(fc)[..., 0].min()
        if float(lam) < 1e-9 * scale_of(fc):
            raise Discard("task_indices path: numerically singular latent covariance (root decomposition needs jitter)")
    cands = []
    if kind == "LMC":
        A = T(r["lmc"]["coef"], dtype=F64)
        jl = jit_of(r["lmc"]["jitter"])
        for cb in kb:
            wm, wc = VO.lmc_mix(A, fm, VO.with_diag(fc, cb * jb), dim, ti)
            cands += [wc, VO.with_diag(wc, jl)]
    else:
        for cb in kb:
            wm, wc = VO.independent_mix(fm, VO.with_diag(fc, cb * jb), dim, ti)
            cands.append(wc)
    wkl = fkl.sum(dim)  # the latent functions / tasks are independent a priori and under q: the KLs add up
    tol = tol_for(max(blk.kappa, VO.cond(Sq)), r["kernel"])
    sc = scale_of(wm, cands[0])
    kwargs = {} if ti is None else {"task_indices": torch.tensor(ti, dtype=torch.long)}
    obs = build_and_call(ctx, case, r, [(VM.base_strategy, VO.encode(dist, m, Sq))], X, call_kwargs=kwargs)
    ctx.close("mean", obs["mean"], wm, rtol=tol, atol=tol, scale=sc)
    ctx.close("cov", obs["cov"], VO.best_of(obs["cov"], cands), rtol=tol, atol=tol, scale=sc)
    if base != "Unwhitened":
        close_bcast(ctx, "kl", obs["kl"], wkl, tol_for(VO.cond(Sq), r["kernel"]), scale=scale_of(wkl))
    ctx.set_nontrivial(VM.q_is_nontrivial(m, Sq) and case["n"] >= 2 and case["L"] >= 2)
    ctx.label(f"cell={kind}/{dist}", f"{kind}.base={base}", f"{kind}.layout={case['layout']}", f"{kind}.task_indices={int(ti is not None)}", f"mode={mode}", f"init={case['init']}")


# ---------------------------------------------------------------------------------------------------
RULE = ("q(u) generated as (mean, SPD covariance) and encoded into {Cholesky, MeanField, Delta, Natural, TrilNatural}; inducing sets "
        "(M <= 5 distinct points; grid strategy up to 6^2 nodes), inputs (n <= 5, sometimes coinciding with inducing points), d <= 2, "
        "prior mean in {Zero, Constant, Linear}, stationary kernels (RBF, Matern 1/2, 3/2, 5/2, RQ; scaled, summed, ARD), jitter_val in "
        "{1e-10 ... 1e-4, default}; batch shapes of inducing points / variational parameters / hyper-parameters / data from the "
        "broadcastable patterns; strategies {Variational, Unwhitened, BatchDecoupled, OrthogonallyDecoupled, Ciq (30 nodes, 1e-10), "
        "GridInterpolation, LMC (+- task_indices, latent_dim -1/-2), IndependentMultitask}; eval mode: mean + full covariance, training "
        "mode: mean + variances; kl_divergence() against the closed form. Non-trivial: q mean != 0 (m_u != m_z), S_q not a multiple "
        "of the identity (S_u not proportional to Kzz), n >= 2; distinct = distinct canonical case.")

SPEC = PropertySpec(
    pid="C14",
    rule=RULE,
    assumptions=[
        "float64, CPU; prior means / covariances from the reference formulas of pbt.kern; cases with cond(Kzz + jitter I) > 1e8 are discarded and counted",
        "the strategy's jitter_val is part of the model (Kzz~ = Kzz + jitter I, None = 1e-6); K_xx may or may not carry +jitter (x2 for CIQ): the closest candidate is asserted",
        "UnwhitenedVariationalStrategy.kl_divergence() is asserted in training mode after a forward call (how the objective uses it); "
        "its eval-mode value uses a fixed 1e-3 jitter in p(u) and is not asserted; x == Z is expected to return q(u) itself",
        "CIQ: num_contour_quadrature 30, minres 1e-10, cond(Kzz~) <= 1e3 and only where the dependency's quadrature reproduces K^-1/2 of "
        "the reference matrix to 1e-8 (calibration, counted as discards); with NaturalVariationalDistribution only variances are compared",
        "GridInterpolationVariationalStrategy: inputs at least one cell inside the grid border (plain cubic stencil); p(u) carries the strategy's fixed 1e-3 jitter",
        "OrthogonallyDecoupled over the standard (whitened) base strategy, as in its docstring; LMC / IndependentMultitask task_indices without data batch dimensions",
    ],
    subchecks=[
        Subcheck("dist.encoded", run_dist, strategy=dist_case, quick=1500, thorough=40000, min_shard=50),
        Subcheck("whitened.qf", run_svgp, strategy=lambda: svgp_case(["Variational"], batch="mixed"), quick=2400, thorough=60000, min_shard=50),
        Subcheck("unwhitened.qf", run_svgp, strategy=lambda: svgp_case(["Unwhitened"], batch="mixed"), quick=2000, thorough=50000, min_shard=50),
        Subcheck("batch.shapes", run_svgp, strategy=lambda: svgp_case(["Variational", "Unwhitened"], batch="forced"), quick=1600, thorough=40000, min_shard=50),
        Subcheck("meta.whitened_unwhitened", run_meta, strategy=meta_case, quick=800, thorough=20000, min_shard=40),
        Subcheck("prior.q_equals_p", run_prior, strategy=prior_case, quick=1000, thorough=25000, min_shard=40),
        Subcheck("decoupled.batch", run_bdecoupled, strategy=bdecoupled_case, quick=1200, thorough=30000, min_shard=40),
        Subcheck("decoupled.orthogonal", run_orth, strategy=orth_case, quick=1000, thorough=25000, min_shard=40),
        Subcheck("ciq.qf", run_svgp, strategy=lambda: svgp_case(["Ciq"], batch="mixed", ls=(0.3, 0.8)), quick=800, thorough=20000, min_shard=40),
        Subcheck("grid.qf", run_grid, strategy=grid_case, quick=700, thorough=15000, min_shard=30),
        Subcheck("multitask.lmc", run_multitask, strategy=lambda: multitask_case("lmc"), quick=1200, thorough=30000, min_shard=40),
        Subcheck("multitask.independent", run_multitask, strategy=lambda: multitask_case("indep"), quick=700, thorough=20000, min_shard=40),
    ],
)

"""C05 - kernel values equal the documented covariance functions (and derivative kernels the derivatives).

Oracles are the explicit formulas of pbt/kern.py (basic kernels, compositions) and of pbt/kern_special.py
(exotic / structured / derivative kernels)."""
from __future__ import annotations

import torch
from hypothesis import strategies as st

import gpytorch
from gpytorch import settings as S

from pbt import kern
from pbt.core import Ctx, Discard, PropertySpec, Subcheck

T = torch.tensor


# ---------------------------------------------------------------------------------------------------
# basic kernels and compositions
# ---------------------------------------------------------------------------------------------------
KB = [[], [], [2], [2], [1], [3, 2], [2, 1]]


@st.composite
def basic_case(draw, names=None, depth=2):
    d = draw(st.integers(1, 3))
    kb = draw(st.sampled_from(KB))
    # data batch: none, same as kernel, higher rank than the kernel, broadcast (1s)
    opts = [[], list(kb), [3] + list(kb), [1] * len(kb)]
    if kb == [2, 1]:
        opts.append([2, 3])
    xb = draw(st.sampled_from(opts))
    n1 = draw(st.integers(1, 4))
    same = draw(st.integers(0, 3)) == 0
    n2 = n1 if same else draw(st.integers(1, 4))
    r = draw(kern.kernel_tree(d, kb, depth=depth, names=names))
    x1 = draw(kern.points(n1, d, xb))
    mode = draw(st.sampled_from(["call2", "call2", "same_obj", "equal_vals"])) if same else "call2"
    x2 = None if mode in ("same_obj", "equal_vals") else draw(kern.points(n2, d, xb))
    # coincident rows between x1 and x2
    if x2 is not None and draw(st.integers(0, 3)) == 0:
        t1, t2 = T(x1), T(x2)
        t2[..., 0, :] = t1[..., 0, :]
        x2 = t2.tolist()
    # data far from the origin (timestamps, map coordinates): only for trees of stationary kernels, whose value depends on x1 - x2
    offset = 0.0
    if all(l["k"] in kern.STATIONARY for l in kern.leaves(r)):
        offset = draw(st.sampled_from([0.0, 0.0, 0.0, 1e3, 1e5, 1e6]))
    return {
        "offset": offset,
        "d": d, "kb": kb, "xb": xb, "kernel": r, "x1": x1, "x2": x2, "mode": mode,
        "lazy": draw(st.booleans()), "trace": draw(st.integers(0, 4)) == 0, "req_grad": draw(st.integers(0, 4)) == 0,
        "no_grad": draw(st.booleans()),  # predictions evaluate kernels under torch.no_grad(): other branches of the distance helpers
        "diag": draw(st.integers(0, 3)) == 0 and same,
    }


def run_basic(case, ctx: Ctx):
    r = case["kernel"]
    ctx.cls = f"{kern.describe(r)}|kb{case['kb']}|xb{case['xb']}"
    off = case.get("offset", 0.0)
    x1 = T(case["x1"]) + off
    if case["mode"] == "same_obj":
        x2 = x1
    elif case["mode"] == "equal_vals":
        x2 = x1.clone()
    else:
        x2 = T(case["x2"]) + off
    want = kern.ref_kernel(r, x1, x2)
    if case["req_grad"]:
        x1 = x1.clone().requires_grad_(True)
        if case["mode"] == "same_obj":
            x2 = x1
    with ctx.observing("build"):
        k = kern.build_kernel(r)
    import contextlib

    nograd = torch.no_grad() if (case.get("no_grad") and not case["req_grad"]) else contextlib.nullcontext()
    with ctx.observing("evaluate"):
        with S.lazily_evaluate_kernels(case["lazy"]), S.trace_mode(case["trace"]), nograd:
            if case["mode"] == "same_obj":
                out = k(x1)
            else:
                out = k(x1, x2)
            got = out.to_dense() if hasattr(out, "to_dense") else out
            gotd = None
            if case["diag"]:
                gotd = k(x1, x2, diag=True) if case["mode"] != "same_obj" else k(x1, diag=True)
    # near-coincident (not identical) rows of kernels with a kink at r=0 lose sqrt(eps) in the quadratic-expansion distance
    smooth = kern.smooth_at_zero(r)
    atol = 1e-11 if smooth else 1e-6
    if off:
        # the inputs themselves carry an absolute rounding of eps * offset: a scaled distance r is known to ~ 2 eps offset / l,
        # r^2 to ~ 4 r eps offset / l  (l >= 0.3, r <= ~30): 1e-6 covers offset <= 1e6; a distance computation that does not
        # centre the data loses eps * offset^2 / l^2 ~ 1e-3 instead
        atol = max(atol, 1e-6 if smooth else 1e-4)
    ctx.close("value", got, want, rtol=1e-9, atol=atol)
    if gotd is not None:
        ctx.close("diag", gotd, want.diagonal(dim1=-2, dim2=-1), rtol=1e-9, atol=atol)
    ctx.label(*{f"leaf={l['k']}" for l in kern.leaves(r)}, f"kb={case['kb']}", f"xb={case['xb']}", f"mode={case['mode']}",
              f"composite={kern.is_composite(r)}", f"offset={off:g}", f"no_grad={bool(case.get('no_grad'))}")
    n1, n2 = x1.shape[-2], x2.shape[-2]
    ctx.set_nontrivial(n1 != n2 or case["d"] >= 2 or bool(case["kb"]) or any(l.get("ard") for l in kern.leaves(r))
                       or case["mode"] != "call2")


RULE = ("kernel recipe (class, ARD, active_dims, batch shape, hyper-parameter values set through the public setters; expression "
        "trees over +, x, ScaleKernel) x inputs (n1, n2 <= 4, d <= 3, lattice + general floats, coincident rows, data batch shapes "
        "none/equal/higher-rank/broadcast) x path (lazy/eager, trace_mode, requires_grad, diag, x1 is x2). Non-trivial: n1 != n2, "
        "d >= 2, ARD, batch, coincident rows or x1 is x2; distinct = distinct canonical case.")

SUBCHECKS = [
    Subcheck("kernel.basic", run_basic, strategy=lambda: basic_case(depth=0), quick=2500, thorough=60000, min_shard=100),
    Subcheck("kernel.composed", run_basic, strategy=lambda: basic_case(depth=2), quick=1500, thorough=40000, min_shard=100),
]

try:
    from pbt.props import c05_special

    SUBCHECKS += c05_special.SUBCHECKS
except ImportError:
    pass

SPEC = PropertySpec(
    pid="C05",
    rule=RULE,
    assumptions=[
        "float64, CPU, non-KeOps",
        "hyper-parameters are set through the public setters and the reference uses the assigned values",
        "near-coincident rows of kernels with a kink at r=0 are compared at atol 1e-6 (quadratic-expansion distance)",
    ],
    subchecks=SUBCHECKS,
)

"""C08 - batch mode equals independent replicas (no cross-talk between batch elements).

Every sub-check draws a *parameter* batch shape and a *data* batch shape independently among the broadcast-compatible
pairs of rank 0..2 (extents 1..3), builds the batched module from a recipe (parameters through the public setters) and,
for every multi-index beta of the broadcast batch, a non-batched replica from the same recipe that carries the beta-th
slice (after broadcasting) of every parameter and is applied to the beta-th slice of the data.  `batched_output[beta]`
must equal the replica's output to 1e-10.  The oracle is the library's own *non-batched* path (whose values C01/C02/C05/
C12/C14 judge against closed forms); the path being judged is the batched / broadcasting one."""
from __future__ import annotations

import itertools
import math

import torch
from hypothesis import strategies as st

import gpytorch
from gpytorch import kernels as K
from gpytorch import means as M
from gpytorch import settings as S
from gpytorch.distributions import MultitaskMultivariateNormal, MultivariateNormal

from pbt import gpmodel as G
from pbt import kern
from pbt import var_model as VM
from pbt.core import Ctx, Discard, PropertySpec, Subcheck

T = torch.tensor

# closed-form elementwise paths (kernels, means, noise): DESIGN 1.4 row 1, the property's 1e-10
RTOL, ATOL = 1e-10, 1e-11
# paths through one dense solve / Cholesky (posterior, MLL, q(f), ELBO, KL): batched and non-batched LAPACK calls may
# round differently; the model strategies bound cond(K + S) (see _kappa_guard) so that 1e3 * eps * kappa stays < 1e-8
RTOL_S, ATOL_S = 1e-8, 1e-8


# ---------------------------------------------------------------------------------------------------
# batch-shape patterns
# ---------------------------------------------------------------------------------------------------
SHAPES = [[]] + [[a] for a in (1, 2, 3)] + [[a, b] for a in (1, 2, 3) for b in (1, 2, 3)]


def compatible(*shapes):
    try:
        torch.broadcast_shapes(*[tuple(s) for s in shapes])
        return True
    except RuntimeError:
        return False


def bshape(*shapes):
    return list(torch.broadcast_shapes(*[tuple(s) for s in shapes]))


def numel(shape):
    return int(math.prod(shape))


def pattern(pb, db):
    """coarse name of the broadcast pattern between a parameter batch shape and a data batch shape"""
    pb, db = list(pb), list(db)
    if pb == db:
        return "equal" if pb else "none"
    if not db:
        return "param_only"
    if not pb:
        return "data_only"
    if len(db) > len(pb):
        return "data_higher_rank"
    if len(pb) > len(db):
        return "param_higher_rank"
    return "same_rank_broadcast"


# all broadcast-compatible (parameter, data) pairs; pairs whose broadcast batch has a single element cannot show cross-talk
# and pairs with pb == db are not a broadcast: both kinds are kept, but thin
PAIRS = [(p, d) for p in SHAPES for d in SHAPES if compatible(p, d)]
_BY_PATTERN = {}
for _pd in PAIRS:
    # within a pattern, pairs whose broadcast batch has one element only are kept thin
    _BY_PATTERN.setdefault(pattern(*_pd), []).extend([_pd] * (1 if numel(bshape(*_pd)) == 1 else 4))
_PATTERNS = ["none", "equal"] + [k for k in sorted(_BY_PATTERN) if k not in ("none", "equal") for _ in range(4)]


def batch_pair():
    """(parameter batch shape, data batch shape): every real broadcast pattern equally often, all pairs of a pattern"""
    return st.sampled_from(_PATTERNS).flatmap(lambda k: st.sampled_from(_BY_PATTERN[k]))


def sub_shape(draw, full):
    """a batch shape that broadcasts *into* `full` without enlarging it (a trailing part of it with some extents set to 1)"""
    full = list(full)
    k = draw(st.integers(0, len(full)))
    tail = full[len(full) - k:]
    return [e if draw(st.booleans()) else 1 for e in tail]


def betas(full):
    return list(itertools.product(*[range(s) for s in full]))


def sl(t, nb, full, beta):
    """beta-th slice of tensor `t` whose first `nb` dims are batch dims broadcastable to `full`"""
    t = t if isinstance(t, torch.Tensor) else T(t)
    ev = t.shape[nb:]
    return t.expand(tuple(full) + tuple(ev))[tuple(beta)]


def slice_recipe(r, full, beta):
    """non-batched copy of a (kernel / mean / likelihood) recipe carrying the beta-th slice of every parameter"""
    nb = len(r.get("batch", []))
    q = dict(r)
    q["batch"] = []
    if "p" in r:
        q["p"] = {k: sl(T(v), nb, full, beta).tolist() for k, v in r["p"].items()}
    if "base" in r:
        q["base"] = slice_recipe(r["base"], full, beta)
    if "parts" in r:
        q["parts"] = [slice_recipe(p, full, beta) for p in r["parts"]]
    return q


def dense(x):
    return x.to_dense() if hasattr(x, "to_dense") else x


def near_rows(x1, x2=None):
    """True if two rows at different positions (of the same batch element) are closer than 1e-3 - identical rows included: after
    the library centres the data, |a|^2 - 2ab + |b|^2 of two equal rows is a rounding residue, not 0.  The quadratic-expansion
    distance loses sqrt(eps) there, and batched / non-batched matmuls round differently: kernels with a
    kink at r = 0 (Matern, piecewise polynomial, cosine) are then compared at atol 1e-6 (DESIGN 1.4), everything else at 1e-11"""
    same = x2 is None
    x2 = x1 if same else x2
    d = (x1.unsqueeze(-2) - x2.unsqueeze(-3)).abs().amax(-1)
    if same:
        d = d + torch.eye(d.shape[-1]) * 1.0  # a row against itself: the diagonal is zeroed by the library
    return bool((d < 1e-3).any())


def spread(outs):
    """smallest, over pairs of replicas, of the largest absolute difference of their outputs (inf for one replica)"""
    best = math.inf
    for i in range(len(outs)):
        for j in range(i + 1, len(outs)):
            if outs[i].shape != outs[j].shape:
                continue
            best = min(best, float((outs[i] - outs[j]).abs().max()) if outs[i].numel() else 0.0)
    return best


def judge(ctx, name, got, reps, full, rtol=RTOL, atol=ATOL, own_batch=None, scale=None):
    """got: batched output (batch + event); reps: replica outputs (event) in the order of betas(full).
    The batch shape of `got` must be `full`; or, when `own_batch` is given (outputs that do not see all of the data, e.g. a
    training-mode prior or a KL term), exactly `own_batch`, a shape that broadcasts into `full`; `own_batch="any"` accepts
    every shape that broadcasts into `full`."""
    got = dense(got).detach()
    reps = [dense(r).detach() for r in reps]
    if not all(bool(torch.isfinite(v).all()) for v in reps):
        # e.g. PolynomialKernelGrad(power=1) at x1.x2 + offset == 0 (0 * inf), log of a noise that underflowed to 0: what the
        # non-batched object returns there is a value question (C05 / C12), not a batch question
        raise Discard("non-finite value in the non-batched replica")
    ev = tuple(reps[0].shape)
    full = tuple(full)
    want = torch.stack(reps).reshape(full + ev)
    gb = tuple(got.shape[: max(got.dim() - len(ev), 0)])
    if own_batch == "any":
        ok = compatible(gb, full) and tuple(bshape(gb, full)) == full
    else:
        ok = gb == (full if own_batch is None else tuple(own_batch))
    if not ok or tuple(got.shape[len(gb):]) != ev:
        ctx.fail(name + ".shape", "shape", f"batched output has shape {tuple(got.shape)}, expected batch shape "
                 f"{full if own_batch in (None, 'any') else tuple(own_batch)} + event {ev}")
        return False
    return ctx.close(name, got.expand(full + ev), want, rtol=rtol, atol=atol, scale=scale)


def nontrivial(ctx, pb, db, reps_dense):
    full = bshape(pb, db)
    sp = spread(reps_dense)
    ctx.set_nontrivial(list(pb) != list(db) and numel(full) >= 2 and sp > 1e-3 and math.isfinite(sp))


def pat_labels(ctx, pb, db):
    ctx.label(f"pat={pattern(pb, db)}", f"pb_rank={len(pb)}", f"db_rank={len(db)}", f"nbeta={numel(bshape(pb, db))}")


# ---------------------------------------------------------------------------------------------------
# kernels of the shared registry (pbt/kern.py): expression trees, every node with its own batch shape
# ---------------------------------------------------------------------------------------------------
@st.composite
def tree_case(draw, depth=2, mixed=False):
    pb, db = draw(batch_pair())
    d = draw(st.integers(1, 3))
    r = draw(kern.kernel_tree(d, pb, depth=depth))
    n1 = draw(st.integers(1, 4))
    same = draw(st.integers(0, 2)) == 0
    n2 = n1 if same else draw(st.integers(1, 4))
    x1 = draw(kern.points(n1, d, db))
    x2 = None if same else draw(kern.points(n2, d, db))
    if mixed and draw(st.booleans()):
        r = draw(thin_out(r, 1))  # nodes with thinner batch shapes that broadcast into pb
    return {"pb": pb, "db": db, "d": d, "kernel": r, "x1": x1, "x2": x2, "lazy": draw(st.booleans()),
            "diag": same and draw(st.integers(0, 2)) == 0}


def eval_kernel(k, x1, x2, lazy, diag):
    with S.lazily_evaluate_kernels(lazy), torch.no_grad():
        if diag:
            return dense(k(x1, diag=True) if x2 is None else k(x1, x2, diag=True))
        return dense(k(x1) if x2 is None else k(x1, x2))


def run_kernel(case, ctx: Ctx, build=None, desc=None, prep=None, smooth=None):
    build = build or kern.build_kernel
    r = case["kernel"]
    pb, db = recipe_batch(r), case["db"]
    full = bshape(pb, db)
    name = (desc or kern.describe)(r)
    ctx.cls = f"{name}|{pattern(pb, db)}|pb{pb}|db{db}{'|diag' if case['diag'] else ''}"
    prep = prep or (lambda c, x: T(x))
    x1 = prep(case, case["x1"])
    x2 = None if case["x2"] is None else prep(case, case["x2"])
    nb = len(db)
    with ctx.observing("build"):
        k = build(r)
    with ctx.observing("batched"):
        got = eval_kernel(k, x1, x2, case["lazy"], case["diag"])
    reps = []
    for beta in betas(full):
        rb = slice_recipe(r, full, beta)
        with ctx.observing("replica"):
            kb = build(rb)
            reps.append(eval_kernel(kb, sl(x1, nb, full, beta), None if x2 is None else sl(x2, nb, full, beta), case["lazy"], case["diag"]))
    rough = not (smooth or kern.smooth_at_zero)(r) and (r["k"] == "Cylindrical" or near_rows(x1.to(torch.float64), None if x2 is None else x2.to(torch.float64)))
    judge(ctx, "diag" if case["diag"] else "value", got, reps, full, atol=1e-6 if rough else ATOL)
    nontrivial(ctx, pb, db, reps)
    pat_labels(ctx, pb, db)
    return k, got, reps


def run_tree(case, ctx: Ctx):
    run_kernel(case, ctx)
    r = case["kernel"]
    ctx.label(*{f"kernel={l['k']}" for l in kern.leaves(r)}, f"composite={kern.is_composite(r)}", f"diag={case['diag']}",
              f"lazy={case['lazy']}",
              f"node_batches={'mixed' if recipe_batch(r) != case['pb'] or _mixed(r) else 'uniform'}")


# ---------------------------------------------------------------------------------------------------
# kernels outside the shared registry
# ---------------------------------------------------------------------------------------------------
SPECIAL = ["Cylindrical", "Hamming", "Arc", "SpectralDelta", "RFF", "Index", "Multitask", "LCM", "RBFGrad", "RBFGradGrad",
           "Matern52Grad", "PolyGrad", "GaussKL"]
_RADIAL = ["RBF", "Matern0.5", "Matern1.5", "Matern2.5", "RQ"]
UNIT = st.one_of(st.sampled_from([0.0, 0.25, 0.5, -0.25, -0.5, 0.75, -0.75]), st.floats(-0.95, 0.95, allow_nan=False).map(lambda v: float(f"{v:.3g}")))


@st.composite
def special_kernel(draw, name, d, pb):
    pb = list(pb)
    arr, pos = kern.arr, kern.pos
    r = {"k": name, "batch": pb, "d": d, "p": {}}
    if name == "Cylindrical":
        naw = draw(st.integers(1, 3))
        r["naw"] = naw
        r["base"] = draw(kern.base_kernel(1, pb, names=_RADIAL, allow_ad=False))
        r["p"] = {"angular_weights": draw(arr(pb + [naw], pos(0.1, 3.0))), "alpha": draw(arr(pb + [1], pos(0.3, 3.0))),
                  "beta": draw(arr(pb + [1], pos(0.3, 3.0)))}
    elif name == "Hamming":
        r["vocab"] = draw(st.integers(2, 3))
        r["p"] = {"alpha": draw(arr(pb + [1], pos(0.2, 4.0))), "beta": draw(arr(pb + [1], pos(0.2, 3.0)))}
    elif name == "Arc":
        ard = draw(st.booleans()) if d >= 2 else False
        r["ard"] = ard
        ld = d if ard else 1
        # the base kernel sees the 2d-dimensional embedding; ArcKernel freezes its lengthscale at 1
        r["base"] = {"k": draw(st.sampled_from(["RBF", "Matern2.5", "Matern1.5"])), "batch": draw(st.sampled_from([pb, []])),
                     "ad": None, "d": 2 * d, "ard": False, "p": {}}
        r["p"] = {"angle": draw(arr(pb + [1, ld], st.floats(0.15, 0.85).map(lambda v: float(f"{v:.3g}")))),
                  "radius": draw(arr(pb + [1, ld], pos(0.3, 3.0))), "lengthscale": draw(arr(pb + [1, ld], pos(0.5, 5.0)))}
    elif name == "SpectralDelta":
        s = draw(st.integers(1, 3))
        r["s"] = s
        r["p"] = {"Z": draw(arr(pb + [s, d], pos(0.05, 1.0))), "lengthscale": draw(arr(pb + [1, 1], pos(0.5, 4.0)))}
    elif name == "RFF":
        D = draw(st.integers(1, 4))
        ard = draw(st.booleans()) if d >= 2 else False
        r.update(D=D, ard=ard)
        r["p"] = {"randn_weights": draw(arr(pb + [d, D], kern.REAL)), "lengthscale": draw(arr(pb + [1, d if ard else 1], pos(0.4, 4.0)))}
    elif name == "Index":
        t = draw(st.integers(2, 3))
        rank = draw(st.integers(1, t))
        r.update(t=t, rank=rank)
        r["p"] = {"covar_factor": draw(arr(pb + [t, rank], kern.REAL)), "var": draw(arr(pb + [t], pos(0.05, 2.0)))}
    elif name == "Multitask":
        t = draw(st.integers(2, 3))
        rank = draw(st.integers(1, t))
        r.update(t=t, rank=rank)
        r["base"] = draw(kern.base_kernel(d, pb, names=kern.STATIONARY + ["Periodic", "Poly2", "Constant"]))
        r["p"] = {"covar_factor": draw(arr(pb + [t, rank], kern.REAL)), "var": draw(arr(pb + [t], pos(0.05, 2.0)))}
    elif name == "LCM":
        # LCMKernel has no batch_shape argument: its task covariances are unbatched, the data kernels carry the batch
        t = draw(st.integers(2, 3))
        nk = draw(st.integers(1, 2))
        r.update(t=t, rank=1)
        r["batch"] = []
        # no active_dims on the data kernels: LCMKernel.forward calls MultitaskKernel.forward directly and so ignores them
        # (the LCM half of F12 - a C06 matter, batched or not)
        r["parts"] = [draw(kern.base_kernel(d, pb, names=kern.STATIONARY + ["Periodic"], allow_ad=False)) for _ in range(nk)]
        r["p"] = {f"covar_factor{i}": draw(arr([t, 1], kern.REAL)) for i in range(nk)}
        r["p"].update({f"var{i}": draw(arr([t], pos(0.05, 2.0))) for i in range(nk)})
    elif name in ("RBFGrad", "RBFGradGrad", "Matern52Grad"):
        ard = draw(st.booleans()) if d >= 2 else False
        r["ard"] = ard
        r["p"] = {"lengthscale": draw(arr(pb + [1, d if ard else 1], pos(0.4, 4.0)))}
    elif name == "PolyGrad":
        r["power"] = draw(st.integers(1, 3))
        r["p"] = {"offset": draw(arr(pb + [1], pos(0.1, 3.0)))}
    elif name == "GaussKL":
        r["p"] = {"lengthscale": draw(arr(pb + [1, 1], pos(0.5, 5.0)))}
    else:
        raise KeyError(name)
    return r


def build_special(r):
    name = r["k"]
    bs = torch.Size(r.get("batch", []))
    p = {k: T(v) for k, v in r["p"].items()}
    d = r["d"]
    if name == "Cylindrical":
        k = K.CylindricalKernel(r["naw"], kern.build_kernel(r["base"]), batch_shape=bs)
        k.angular_weights, k.alpha, k.beta = p["angular_weights"], p["alpha"], p["beta"]
    elif name == "Hamming":
        k = K.HammingIMQKernel(vocab_size=r["vocab"], batch_shape=bs)
        k.alpha, k.beta = p["alpha"], p["beta"]
    elif name == "Arc":
        k = K.ArcKernel(kern.build_kernel(r["base"]), batch_shape=bs, ard_num_dims=d if r["ard"] else None)
        k.angle, k.radius, k.lengthscale = p["angle"], p["radius"], p["lengthscale"]
    elif name == "SpectralDelta":
        k = K.SpectralDeltaKernel(num_dims=d, num_deltas=r["s"], batch_shape=bs)
        k.Z, k.lengthscale = p["Z"], p["lengthscale"]
    elif name == "RFF":
        k = K.RFFKernel(num_samples=r["D"], num_dims=d, batch_shape=bs, ard_num_dims=d if r["ard"] else None)
        k.randn_weights = p["randn_weights"]  # registered buffer (the spectral sample of the feature map)
        k.lengthscale = p["lengthscale"]
    elif name == "Index":
        k = K.IndexKernel(num_tasks=r["t"], rank=r["rank"], batch_shape=bs)
        k.initialize(covar_factor=p["covar_factor"])
        k.var = p["var"]
    elif name == "Multitask":
        k = K.MultitaskKernel(kern.build_kernel(r["base"]), num_tasks=r["t"], rank=r["rank"], batch_shape=bs)
        k.task_covar_module.initialize(covar_factor=p["covar_factor"])
        k.task_covar_module.var = p["var"]
    elif name == "LCM":
        k = K.LCMKernel([kern.build_kernel(q) for q in r["parts"]], num_tasks=r["t"], rank=1)
        for i, m in enumerate(k.covar_module_list):
            m.task_covar_module.initialize(covar_factor=p[f"covar_factor{i}"])
            m.task_covar_module.var = p[f"var{i}"]
    elif name in ("RBFGrad", "RBFGradGrad", "Matern52Grad"):
        cls = {"RBFGrad": K.RBFKernelGrad, "RBFGradGrad": K.RBFKernelGradGrad, "Matern52Grad": K.Matern52KernelGrad}[name]
        k = cls(batch_shape=bs, ard_num_dims=d if r["ard"] else None)
        k.lengthscale = p["lengthscale"]
    elif name == "PolyGrad":
        k = K.PolynomialKernelGrad(power=r["power"], batch_shape=bs)
        k.offset = p["offset"]
    elif name == "GaussKL":
        k = K.GaussianSymmetrizedKLKernel(batch_shape=bs)
        k.lengthscale = p["lengthscale"]
    else:
        raise KeyError(name)
    return k


def prep_special(case, x):
    """inputs of the exotic kernels from the JSON payload"""
    name = case["kernel"]["k"]
    if name == "Hamming":  # integer sequences -> flattened one-hot
        seq = T(x, dtype=torch.long)
        return torch.nn.functional.one_hot(seq, case["kernel"]["vocab"]).to(torch.float64).reshape(*seq.shape[:-1], -1)
    if name == "Cylindrical":  # points strictly inside the unit ball
        return T(x) / math.sqrt(case["d"])
    if name == "Index":
        return T(x, dtype=torch.long)
    return T(x)


@st.composite
def special_case(draw, names=None):
    name = draw(st.sampled_from(names or SPECIAL))
    pb, db = draw(batch_pair())
    d = draw(st.integers(1, 3)) if name not in ("RBFGradGrad",) else draw(st.integers(1, 2))
    r = draw(special_kernel(name, d, pb))
    n1 = draw(st.integers(1, 4 if name != "RBFGradGrad" else 3))
    same = draw(st.integers(0, 2)) == 0 or name == "RBFGradGrad"  # n1 != n2 is F9's territory (C05)
    n2 = n1 if same else draw(st.integers(1, 4))

    def pts(n):
        if name == "Hamming":
            return draw(kern.arr(db + [n, d], st.integers(0, r["vocab"] - 1)))
        if name == "Cylindrical":
            return draw(kern.arr(db + [n, d], UNIT))
        if name == "Index":
            return draw(kern.arr(db + [n, 1], st.integers(0, r["t"] - 1)))
        if name == "GaussKL":
            return draw(kern.arr(db + [n, 2 * d], kern.LATTICE))
        return draw(kern.points(n, d, db))

    x1 = pts(n1)
    x2 = None if same and draw(st.booleans()) else pts(n2)
    return {"pb": pb, "db": db, "d": d, "kernel": r, "x1": x1, "x2": x2, "lazy": draw(st.booleans()),
            "diag": x2 is None and draw(st.integers(0, 2)) == 0}  # diag=True is documented for x1 == x2 only


def describe_special(r):
    return r["k"] + ("/ard" if r.get("ard") else "")


def smooth_special(r):
    """False if the kernel has a kink at r = 0 (see near_rows); the radial kernel of a CylindricalKernel sees |x|, which
    coincides up to rounding for different rows, so that one is judged at the loose atol on every input"""
    if r["k"] == "Matern52Grad":
        return False
    subs = ([r["base"]] if "base" in r else []) + list(r.get("parts", []))
    return all(kern.smooth_at_zero(q) for q in subs)


def run_special(case, ctx: Ctx):
    r = case["kernel"]
    run_kernel(case, ctx, build=build_special, desc=describe_special, prep=prep_special, smooth=smooth_special)
    ctx.label(f"kernel={r['k']}", f"diag={case['diag']}", f"lazy={case['lazy']}")




# ---------------------------------------------------------------------------------------------------
# means
# ---------------------------------------------------------------------------------------------------
MEANS = ["Constant", "Linear", "LinearNoBias", "ConstantGrad", "LinearGrad", "ConstantGradGrad", "LinearGradGrad", "Multitask"]
_MEAN_CLS = {"Linear": M.LinearMean, "LinearNoBias": M.LinearMean, "LinearGrad": M.LinearMeanGrad, "LinearGradGrad": M.LinearMeanGradGrad,
             "ConstantGrad": M.ConstantMeanGrad, "ConstantGradGrad": M.ConstantMeanGradGrad}


@st.composite
def mean_rec(draw, name, d, pb):
    pb = list(pb)
    r = {"m": name, "batch": pb, "d": d, "p": {}}
    if name == "Constant":
        r["p"]["constant"] = draw(kern.arr(pb, kern.REAL))
    elif name.startswith("Constant"):
        r["p"]["constant"] = draw(kern.arr(pb + [1], kern.REAL))
    elif name.startswith("Linear"):
        r["p"]["weights"] = draw(kern.arr(pb + [d, 1], kern.REAL))
        if name != "LinearNoBias":
            r["p"]["bias"] = draw(kern.arr(pb + [1], kern.REAL))
    elif name == "Multitask":
        t = draw(st.integers(2, 3))
        r["batch"] = []
        r["parts"] = [draw(mean_rec(draw(st.sampled_from(["Constant", "Linear"])), d, pb)) for _ in range(t)]
    return r


def build_mean8(r):
    name = r["m"]
    bs = torch.Size(r.get("batch", []))
    p = {k: T(v) for k, v in r["p"].items()}
    if name == "Zero":
        return M.ZeroMean(batch_shape=bs)
    if name == "Constant":
        m = M.ConstantMean(batch_shape=bs)
        m.constant = p["constant"]
        return m
    if name == "Multitask":
        return M.MultitaskMean([build_mean8(q) for q in r["parts"]], num_tasks=len(r["parts"]))
    if name.startswith("Constant"):
        m = _MEAN_CLS[name](batch_shape=bs)
    else:
        m = _MEAN_CLS[name](r["d"], batch_shape=bs, bias=name != "LinearNoBias")
    m.initialize(**p)
    return m


@st.composite
def mean_case(draw):
    pb, db = draw(batch_pair())
    d = draw(st.integers(1, 3))
    n = draw(st.integers(1, 4))
    return {"pb": pb, "db": db, "d": d, "mean": draw(mean_rec(draw(st.sampled_from(MEANS)), d, pb)), "x": draw(kern.points(n, d, db))}


def run_mean(case, ctx: Ctx):
    r, pb, db = case["mean"], case["pb"], case["db"]
    full = bshape(pb, db)
    ctx.cls = f"{r['m']}Mean|{pattern(pb, db)}|pb{pb}|db{db}"
    x = T(case["x"])
    with ctx.observing("build"):
        m = build_mean8(r)
    with ctx.observing("batched"), torch.no_grad():
        got = m(x)
    reps = []
    for beta in betas(full):
        with ctx.observing("replica"), torch.no_grad():
            reps.append(build_mean8(slice_recipe(r, full, beta))(sl(x, len(db), full, beta)))
    judge(ctx, "value", got, reps, full)
    nontrivial(ctx, pb, db, reps)
    pat_labels(ctx, pb, db)
    ctx.label(f"mean={r['m']}")


# ---------------------------------------------------------------------------------------------------
# likelihoods and noise models
# ---------------------------------------------------------------------------------------------------
LIKS = ["Gaussian", "Gaussian", "FixedNoise+", "Homoskedastic", "MultitaskHomoskedastic", "Multitask", "Multitask"]


@st.composite
def lik_rec(draw, kind, lb, n, nbs=([],)):
    """likelihood recipe with parameter batch shape lb; fixed noise (per point) carries one of the batch shapes `nbs`"""
    lb = list(lb)
    arr, pos = kern.arr, kern.pos
    if kind == "Gaussian":
        return {"l": "Gaussian", "batch": lb, "noise": draw(arr(lb + [1], pos(0.05, 2.0)))}
    if kind.startswith("FixedNoise"):
        nb = list(draw(st.sampled_from(list(nbs))))
        r = {"l": "FixedNoise", "batch": lb, "noise": draw(arr(nb + [n], pos(0.05, 2.0))), "learn": kind.endswith("+")}
        if r["learn"]:
            r["second_noise"] = draw(arr(lb + [1], pos(0.05, 1.0)))
        return r
    if kind == "Homoskedastic":
        return {"l": kind, "batch": lb, "noise": draw(arr(lb + [1], pos(0.05, 2.0)))}
    t = draw(st.integers(2, 3))
    if kind == "MultitaskHomoskedastic":
        return {"l": kind, "batch": lb, "t": t, "noise": draw(arr(lb + [t], pos(0.05, 2.0)))}
    has_task = draw(st.integers(0, 3)) != 0
    has_global = True if not has_task else draw(st.integers(0, 2)) != 0
    rank = draw(st.integers(0, t)) if has_task else 0
    r = {"l": "Multitask", "batch": lb, "t": t, "rank": rank, "task": has_task, "global": has_global}
    if has_global:
        r["noise"] = draw(arr(lb + [1], pos(0.05, 1.0)))
    if has_task and rank == 0:
        r["task_noises"] = draw(arr(lb + [t], pos(0.05, 1.0)))
    elif has_task:
        r["factor"] = draw(arr(lb + [t, rank], kern.REAL))
    return r


def build_lik(r):
    bs = torch.Size(r["batch"])
    if r["l"] in ("Gaussian", "FixedNoise"):
        return G.build_likelihood(r)
    if r["l"] == "Homoskedastic":
        m = gpytorch.likelihoods.noise_models.HomoskedasticNoise(batch_shape=bs)
        m.noise = T(r["noise"])
        return m
    if r["l"] == "MultitaskHomoskedastic":
        m = gpytorch.likelihoods.noise_models.MultitaskHomoskedasticNoise(num_tasks=r["t"], batch_shape=bs)
        m.noise = T(r["noise"])
        return m
    lik = gpytorch.likelihoods.MultitaskGaussianLikelihood(num_tasks=r["t"], rank=r["rank"], has_global_noise=r["global"],
                                                           has_task_noise=r["task"], batch_shape=bs)
    if r["global"]:
        lik.noise = T(r["noise"])
    if "task_noises" in r:
        lik.task_noises = T(r["task_noises"])
    if "factor" in r:
        lik.initialize(task_noise_covar_factor=T(r["factor"]))
    return lik


def slice_lik(r, full, beta):
    q = dict(r)
    lb = len(r["batch"])
    q["batch"] = []
    for key in ("noise", "second_noise", "task_noises", "factor"):
        if key in r:
            t = T(r[key])
            nb = t.dim() - 1 if (r["l"] == "FixedNoise" and key == "noise") else lb
            q[key] = sl(t, nb, full, beta).tolist()
    return q


def lik_batch(r):
    out = list(r["batch"])
    if r["l"] == "FixedNoise":  # the constructor's batch_shape only shapes the learned additional noise
        out = bshape(out if r["learn"] else [], list(T(r["noise"]).shape[:-1]))
    return out


def lik_name(r):
    return r["l"] + ("+" if r.get("learn") else "") + (f"/rank{min(r['rank'], 1)}{'g' if r['global'] else ''}{'t' if r['task'] else ''}" if r["l"] == "Multitask" else "")


@st.composite
def fdist(draw, db, n):
    """a function distribution N(mean, L L^T + 0.05 I) with batch shape db over an event of size n"""
    return {"mean": draw(kern.arr(list(db) + [n], kern.REAL)),
            "L": draw(kern.arr(list(db) + [n, n], st.sampled_from([0.0, 0.25, -0.25, 0.5, -0.5, 1.0, -1.0, 1.5])))}


def fdist_tensors(fd):
    L = torch.tril(T(fd["L"]))
    return T(fd["mean"]), L @ L.transpose(-1, -2) + 0.05 * torch.eye(L.shape[-1])


@st.composite
def lik_case(draw):
    pb, db = draw(batch_pair())
    kind = draw(st.sampled_from(LIKS))
    n = draw(st.integers(1, 4))
    r = draw(lik_rec(kind, pb, n, nbs=([], db)))
    t = r.get("t", 1)
    case = {"pb": pb, "db": db, "n": n, "lik": r}
    if kind in ("Homoskedastic", "MultitaskHomoskedastic"):
        case["via"] = draw(st.sampled_from(["shape", "input"]))
        case["x"] = draw(kern.points(n, 2, db))
    else:
        case["f"] = draw(fdist(db, n * t))
        case["y"] = draw(kern.arr(db + ([n, t] if kind == "Multitask" else [n]), kern.REAL))
    return case


def _lik_outputs(r, mod, mean, cov, y, n):
    """what a Gaussian-family likelihood hands out for f ~ N(mean, cov)"""
    if r["l"] == "Multitask":
        dist = MultitaskMultivariateNormal(mean.reshape(*mean.shape[:-1], n, r["t"]), cov)
    else:
        dist = MultivariateNormal(mean, cov)
    marg = mod(dist)
    return {"marginal.mean": marg.mean, "marginal.covariance": marg.covariance_matrix,
            "expected_log_prob": mod.expected_log_prob(y, dist), "log_marginal": mod.log_marginal(y, dist)}


def run_lik(case, ctx: Ctx):
    r, pb, db, n = case["lik"], case["pb"], case["db"], case["n"]
    pbe = lik_batch(r)
    full = bshape(pbe, db)
    ctx.cls = f"{lik_name(r)}|{pattern(pbe, db)}|pb{pbe}|db{db}"
    nb = len(db)
    with ctx.observing("build"):
        mod = build_lik(r)
    if r["l"] in ("Homoskedastic", "MultitaskHomoskedastic"):
        x = T(case["x"])

        def call(m, xx):
            with torch.no_grad():
                return dense(m(xx) if case["via"] == "input" else m(shape=xx.shape[:-1]))

        with ctx.observing("batched"):
            got = call(mod, x)
        reps = []
        for beta in betas(full):
            with ctx.observing("replica"):
                reps.append(call(build_lik(slice_lik(r, full, beta)), sl(x, nb, full, beta)))
        judge(ctx, "noise_covar", got, reps, full)
        nontrivial(ctx, pbe, db, reps)
        ctx.label(f"via={case['via']}")
    else:
        mean, cov = fdist_tensors(case["f"])
        y = T(case["y"])
        with ctx.observing("batched"), torch.no_grad():
            got = _lik_outputs(r, mod, mean, cov, y, n)
        reps = []
        for beta in betas(full):
            with ctx.observing("replica"), torch.no_grad():
                reps.append(_lik_outputs(r, build_lik(slice_lik(r, full, beta)), sl(mean, nb, full, beta), sl(cov, nb, full, beta),
                                         sl(y, nb, full, beta), n))
        for key, g in got.items():
            # log-densities are sums of terms of size ~1..100 that may cancel: absolute 1e-10 * scale
            judge(ctx, key, g, [rp[key] for rp in reps], full, atol=1e-10 if "log" in key else ATOL)
        nontrivial(ctx, pbe, db, [torch.cat([rp["marginal.covariance"].reshape(-1), rp["log_marginal"].reshape(-1)]) for rp in reps])
    pat_labels(ctx, pbe, db)
    ctx.label(f"likelihood={lik_name(r)}")


# ---------------------------------------------------------------------------------------------------
# recipes whose nodes carry different (broadcast-compatible) batch shapes
# ---------------------------------------------------------------------------------------------------
def _take(v, old, new):
    """restrict the parameter value v (batch shape old) to the batch shape new (a trailing part of old with some 1s)"""
    t = T(v)
    idx = tuple([0] * (len(old) - len(new)) + [slice(0, 1) if e == 1 else slice(None) for e in new])
    return t[idx].tolist() if idx else v


@st.composite
def thin_out(draw, r, p_keep=3):
    """give some nodes of a kernel / mean recipe a smaller batch shape that still broadcasts into the original one"""
    r = dict(r)
    old = list(r.get("batch", []))
    if "p" in r and r["p"] and old and draw(st.integers(0, p_keep)) == 0:
        new = sub_shape(draw, old)
        r["p"] = {k: _take(v, old, new) for k, v in r["p"].items()}
        r["batch"] = new
    if "base" in r:
        r["base"] = draw(thin_out(r["base"], p_keep))
    if "parts" in r:
        r["parts"] = [draw(thin_out(q, p_keep)) for q in r["parts"]]
    return r


def _mixed(r):
    bs = {tuple(q.get("batch", [])) for q in _nodes(r) if q.get("p")}
    return len(bs) > 1


def _nodes(r):
    yield r
    for q in ([r["base"]] if "base" in r else []) + list(r.get("parts", [])):
        yield from _nodes(q)


def recipe_batch(r):
    """broadcast of the batch shapes of all nodes of a recipe"""
    out = list(r.get("batch", [])) if r.get("p") or not ("base" in r or "parts" in r) else []
    for q in ([r["base"]] if "base" in r else []) + list(r.get("parts", [])):
        out = bshape(out, recipe_batch(q))
    return out


# ---------------------------------------------------------------------------------------------------
# exact GP: prior (training mode), marginal log likelihood, posterior, predictive
# ---------------------------------------------------------------------------------------------------
@st.composite
def exact_case(draw):
    pb, db = draw(batch_pair())
    d = draw(st.integers(1, 2))
    n = draw(st.integers(1, 5))
    ns = draw(st.integers(1, 3))
    mixed = draw(st.integers(0, 2)) == 0
    mean = draw(kern.mean_recipe(d, pb))
    kernel = draw(kern.kernel_tree(d, pb, depth=draw(st.sampled_from([0, 1, 2])), psd_only=True))
    lb = pb
    if mixed:
        mean, kernel = draw(thin_out(mean, 1)), draw(thin_out(kernel, 1))
        # ExactGP takes its batch shape from the prior: the likelihood never carries batch dimensions the prior lacks
        lb = sub_shape(draw, pb)
        p_model = bshape(recipe_batch(mean), recipe_batch(kernel), db)
        if bshape(p_model, lb) != p_model:
            lb = []
    lik = draw(lik_rec(draw(st.sampled_from(["Gaussian", "Gaussian", "Gaussian", "FixedNoise", "FixedNoise+"])), lb, n, nbs=([], db)))
    # the targets carry the data batch shape; the training inputs may be shared along data batch dimensions that the
    # hyper-parameters span (e.g. the "batch independent multi-output" pattern: model (2,), X (n, d)): ExactGP documents
    # targets of the shape of the prior's batch, so X may only be thinned where model x X still produces the full batch
    pbe = bshape(recipe_batch(mean), recipe_batch(kernel), lik_batch(lik))
    xb = db
    if draw(st.integers(0, 2)) == 0:
        cand = sub_shape(draw, db)
        if bshape(pbe, cand) == bshape(pbe, db) and bshape(recipe_batch(mean), recipe_batch(kernel), cand) == bshape(pbe, db):
            xb = cand
    full = bshape(pb, db)
    tbs = [s for s in SHAPES if compatible(s, full) and numel(bshape(s, full)) <= 9]
    tb = draw(st.sampled_from([db, db, full, []] + tbs))
    return {"pb": pb, "db": db, "xb": xb, "tb": tb, "d": d, "n": n, "ns": ns, "mean": mean, "kernel": kernel, "lik": lik, "mixed": mixed,
            "X": draw(kern.points(n, d, xb)), "y": draw(kern.arr(db + [n], kern.REAL)), "Xs": draw(kern.points(ns, d, tb)),
            "fpv": draw(st.integers(0, 2)) == 0, "eager": draw(st.integers(0, 3)) == 0}


def _exact_outputs(case, r_mean, r_kernel, r_lik, X, y, Xs):
    lik = build_lik(r_lik)
    model = G.RecipeGP(X, y, lik, kern.build_mean(r_mean), kern.build_kernel(r_kernel))
    mll = gpytorch.mlls.ExactMarginalLogLikelihood(lik, model)
    out = {}
    with torch.no_grad():
        model.train()
        lik.train()
        prior = model(X)
        out["prior.mean"], out["prior.covariance"] = prior.mean, prior.covariance_matrix
        out["train.marginal_covariance"] = lik(prior).covariance_matrix
        out["mll"] = mll(prior, y)
        model.eval()
        lik.eval()
        # the same computational path on both sides (below max_cholesky_size fast_pred_var is an exact Cholesky-based root)
        with S.fast_pred_var(bool(case.get("fpv"))), S.lazily_evaluate_kernels(not case.get("eager")):
            post = model(Xs)
            out["posterior.mean"], out["posterior.covariance"] = post.mean, post.covariance_matrix
            if r_lik["l"] == "Gaussian":
                out["predictive.covariance"] = lik(post).covariance_matrix
    return out


def run_exact(case, ctx: Ctx):
    pb, db, xb, tb = case["pb"], case["db"], case["xb"], case["tb"]
    pbe = bshape(recipe_batch(case["mean"]), recipe_batch(case["kernel"]), lik_batch(case["lik"]))
    f_prior = bshape(recipe_batch(case["mean"]), recipe_batch(case["kernel"]), xb)  # what the training-mode prior sees
    f_marg = bshape(pbe, xb)  # ... the likelihood applied to it
    f_train = bshape(pbe, db)  # ... the marginal log likelihood (targets carry db)
    full = bshape(f_train, tb)  # ... the posterior
    ctx.cls = f"exact|{lik_name(case['lik'])}|{pattern(pbe, db)}|pb{pbe}|db{db}|xb{xb}|tb{tb}{'|mixed' if case['mixed'] else ''}"
    X, y, Xs = T(case["X"]), T(case["y"]), T(case["Xs"])
    with ctx.observing("batched"):
        got = _exact_outputs(case, case["mean"], case["kernel"], case["lik"], X, y, Xs)
    reps, kappa = [], 1.0
    for beta in betas(full):
        with ctx.observing("replica"):
            rp = _exact_outputs(case, slice_recipe(case["mean"], full, beta), slice_recipe(case["kernel"], full, beta),
                                slice_lik(case["lik"], full, beta), sl(X, len(xb), full, beta), sl(y, len(db), full, beta),
                                sl(Xs, len(tb), full, beta))
        sv = torch.linalg.svdvals(rp["train.marginal_covariance"])
        kappa = max(kappa, float(sv[0] / sv[-1].clamp_min(1e-300)))
        reps.append(rp)
    if not kappa <= 1e8:
        raise Discard("ill-conditioned (kappa>1e+08)")
    rows = torch.cat([X.expand(*full, *X.shape[-2:]), Xs.expand(*full, *Xs.shape[-2:])], -2)
    smooth = kern.smooth_at_zero(case["kernel"]) or not near_rows(rows)
    tol = G.chol_tol(kappa, smooth)  # DESIGN 1.4: one dense solve
    if case.get("fpv"):
        tol = 30 * tol  # the cached inverse root costs an explicit triangular inverse and two more products
    for key, g in got.items():
        train_side = key in ("prior.mean", "prior.covariance", "train.marginal_covariance", "mll")
        own = None if not train_side else (f_prior if key.startswith("prior") else (f_marg if key.startswith("train") else f_train))
        solve = key in ("mll", "posterior.mean", "posterior.covariance", "predictive.covariance")
        vals = [rp[key] for rp in reps]
        sc = max(1.0, max(float(v.abs().max()) for v in vals))
        judge(ctx, key, g, vals, full, rtol=tol if solve else RTOL, atol=tol if solve else (ATOL if smooth else 1e-6), own_batch=own,
              scale=sc if solve else None)
    nontrivial(ctx, pbe, db, [torch.cat([rp["posterior.mean"], rp["posterior.covariance"].reshape(-1), rp["mll"].reshape(1)]) for rp in reps])
    pat_labels(ctx, pbe, db)
    ctx.label("model=exact", f"fpv={bool(case.get('fpv'))}", f"eager={bool(case.get('eager'))}", f"likelihood={lik_name(case['lik'])}", f"mixed={case['mixed']}", f"xb_vs_db={'same' if xb == db else 'shared'}",
              f"tb={'db' if tb == db else ('none' if not tb else ('full' if tb == full else 'other'))}",
              *{f"kernel={l['k']}" for l in kern.leaves(case["kernel"])})


# ---------------------------------------------------------------------------------------------------
# SVGP: q(f), KL, ELBO with batched inducing points / variational parameters / hyper-parameters
# ---------------------------------------------------------------------------------------------------
@st.composite
def svgp_case(draw):
    from pbt import var_oracle as VO  # noqa: F401  (kept local: var_oracle imports scipy)

    pb, db = draw(batch_pair())
    d = draw(st.integers(1, 2))
    Mi = draw(st.integers(1, 3))
    n = draw(st.integers(1, 4))

    def part():
        return pb if draw(st.integers(0, 3)) else sub_shape(draw, pb)

    kb, zb, vb, lb = part(), part(), part(), part()
    strategy = draw(st.sampled_from(["Variational", "Variational", "Unwhitened"]))
    dist = draw(st.sampled_from(["Cholesky", "Cholesky", "MeanField", "Delta", "Natural"]))
    mean = draw(kern.mean_recipe(d, kb))
    model = {"strategy": strategy, "dist": dist, "vb": vb, "learn_z": draw(st.booleans()), "jitter": draw(st.sampled_from([None, 1e-6, 1e-4])),
             "Z": draw(VM.inducing(Mi, d, zb)), "mean": mean, "kernel": draw(VM.svgp_kernel(d, kb))}
    return {"pb": pb, "db": db, "d": d, "n": n, "kb": kb, "zb": zb, "vb": vb, "model": model, "q": draw(VM.q_params(Mi, vb)),
            "lik": draw(lik_rec("Gaussian", lb, n)), "X": draw(kern.points(n, d, db)), "y": draw(kern.arr(db + [n], kern.REAL)),
            "num_data": draw(st.sampled_from([n, 10, 100])), "training": draw(st.booleans())}


def _svgp_outputs(case, r_model, q, r_lik, X, y):
    from pbt import var_oracle as VO

    model = VM.RecipeSVGP(r_model)
    lik = build_lik(r_lik)
    m, Sq = VM.q_tensors(q)
    VM.set_q(model.variational_strategy, VO.encode(r_model["dist"], m, Sq))
    model.train(case["training"])
    lik.train(case["training"])
    out = {}
    with torch.no_grad():
        qf = model(X)
        out["qf.mean"], out["qf.covariance"] = qf.mean, qf.covariance_matrix
        out["kl"] = model.variational_strategy.kl_divergence()
        out["elbo"] = gpytorch.mlls.VariationalELBO(lik, model, num_data=case["num_data"])(qf, y)
        Z = model.variational_strategy.inducing_points
        out["Kzz"] = dense(model.covar_module(Z))
    return out


def run_svgp(case, ctx: Ctx):
    pb, db = case["pb"], case["db"]
    r = case["model"]
    pbe = bshape(case["kb"], case["zb"], case["vb"], case["lik"]["batch"])
    p_model = bshape(case["kb"], case["zb"], case["vb"])
    full = bshape(pbe, db)
    ctx.cls = f"svgp|{r['strategy']}|{r['dist']}|{pattern(pbe, db)}|pb{pbe}|db{db}|kb{case['kb']}|zb{case['zb']}|vb{case['vb']}"
    X, y = T(case["X"]), T(case["y"])
    Zf, Xf = T(r["Z"]), X
    if r["strategy"] == "Unwhitened" and Zf.shape[-2] == Xf.shape[-2]:
        same = (Zf.expand(*full, *Zf.shape[-2:]) == Xf.expand(*full, *Xf.shape[-2:])).all(-1).all(-1)
        if bool(same.any()):
            # UnwhitenedVariationalStrategy short-cuts x == Z (returns q(u) itself, refuses a delta q(u)) only if *all* batch
            # elements coincide: jitter-level differences to the general path, not a batch question
            raise Discard("unwhitened strategy: inputs equal to the inducing points in some batch element")
    with ctx.observing("batched"):
        got = _svgp_outputs(case, r, case["q"], case["lik"], X, y)
    reps, kappa = [], 1.0
    for beta in betas(full):
        rb = dict(r)
        rb.update(vb=[], Z=sl(T(r["Z"]), len(case["zb"]), full, beta).tolist(), mean=slice_recipe(r["mean"], full, beta),
                  kernel=slice_recipe(r["kernel"], full, beta))
        qb = {"m": sl(T(case["q"]["m"]), len(case["vb"]), full, beta).tolist(), "L": sl(T(case["q"]["L"]), len(case["vb"]), full, beta).tolist()}
        with ctx.observing("replica"):
            rp = _svgp_outputs(case, rb, qb, slice_lik(case["lik"], full, beta), sl(X, len(db), full, beta), sl(y, len(db), full, beta))
        sv = torch.linalg.svdvals(rp["Kzz"])
        kappa = max(kappa, float(sv[0] / sv[-1].clamp_min(1e-300)))
        reps.append(rp)
    if not kappa <= 1e6:
        raise Discard("ill-conditioned inducing covariance (kappa>1e+06)")
    # the whitening solve L^-1 K_zx enters q(f) twice (L^-T S L^-1): 1e3 * eps * kappa with kappa <= 1e6, floor 1e-9
    rowsv = torch.cat([Zf.expand(*full, *Zf.shape[-2:]), Xf.expand(*full, *Xf.shape[-2:])], -2)
    tol = max(G.chol_tol(kappa, kern.smooth_at_zero(r["kernel"]) or not near_rows(rowsv)), 1e-9)
    f_model = bshape(p_model, db)  # q(f) does not see the likelihood; the KL term sees neither likelihood nor data
    for key, own in (("qf.mean", f_model), ("qf.covariance", f_model), ("kl", "any"), ("elbo", None)):
        vals = [rp[key] for rp in reps]
        sc = max(1.0, max(float(v.abs().max()) for v in vals))
        judge(ctx, key, got[key], vals, full, rtol=tol, atol=tol, own_batch=own, scale=sc)
    nontrivial(ctx, pbe, db, [torch.cat([rp["qf.mean"], rp["qf.covariance"].reshape(-1), rp["elbo"].reshape(1), rp["kl"].reshape(1)]) for rp in reps])
    pat_labels(ctx, pbe, db)
    ctx.label("model=svgp", f"strategy={r['strategy']}", f"dist={r['dist']}", f"training={case['training']}",
              f"zb={'pb' if case['zb'] == pb else 'thin'}", f"vb={'pb' if case['vb'] == pb else 'thin'}",
              f"kb={'pb' if case['kb'] == pb else 'thin'}")


# ---------------------------------------------------------------------------------------------------
# IndependentModelList / SumMarginalLogLikelihood
# ---------------------------------------------------------------------------------------------------
@st.composite
def list_case(draw):
    k = draw(st.integers(1, 3))
    d = draw(st.integers(1, 2))
    members = []
    pb, db = draw(st.sampled_from([([], [])] * 2 + [pd for pd in PAIRS if numel(bshape(*pd)) > 1]))  # one MLL batch shape for all members
    for _ in range(k):
        n = draw(st.integers(1, 4))
        ns = draw(st.integers(1, 3))
        members.append({"pb": pb, "db": db, "n": n, "ns": ns, "mean": draw(kern.mean_recipe(d, pb)),
                        "kernel": draw(kern.kernel_tree(d, pb, depth=1, psd_only=True)),
                        "lik": draw(lik_rec(draw(st.sampled_from(["Gaussian", "Gaussian", "FixedNoise+"])), pb, n)),
                        "X": draw(kern.points(n, d, db)), "y": draw(kern.arr(db + [n], kern.REAL)), "Xs": draw(kern.points(ns, d, db))})
    return {"d": d, "members": members, "tuple_args": draw(st.booleans())}


def _member(m):
    lik = build_lik(m["lik"])
    return G.RecipeGP(T(m["X"]), T(m["y"]), lik, kern.build_mean(m["mean"]), kern.build_kernel(m["kernel"]))


def run_list(case, ctx: Ctx):
    ms = case["members"]
    k = len(ms)
    ctx.cls = f"model_list|k{k}"
    with ctx.observing("build"):
        models = [_member(m) for m in ms]
        ml = gpytorch.models.IndependentModelList(*models)
        smll = gpytorch.mlls.SumMarginalLogLikelihood(ml.likelihood, ml)
        fresh = [_member(m) for m in ms]  # independent copies built from the same recipes: the members on their own
    Xs = [T(m["Xs"]) for m in ms]
    wrap = (lambda t: (t,)) if case["tuple_args"] else (lambda t: t)
    with ctx.observing("list"), torch.no_grad():
        ml.train()
        priors = ml(*ml.train_inputs)
        total = smll(priors, ml.train_targets)
        prior_l = [(p.mean, p.covariance_matrix) for p in priors]
        ml.eval()
        posts = ml(*[wrap(x) for x in Xs])
        post_l = [(p.mean, p.covariance_matrix) for p in posts]
        preds = ml.likelihood(*posts)
        pred_l = [p.covariance_matrix for p in preds]
    mlls, spread_ = [], 0.0
    for i, (f, m) in enumerate(zip(fresh, ms)):
        with ctx.observing("member"), torch.no_grad():
            f.train()
            pr = f(T(m["X"]))
            mlls.append(gpytorch.mlls.ExactMarginalLogLikelihood(f.likelihood, f)(pr, T(m["y"])))
            f.eval()
            po = f(Xs[i])
            pm, pc = po.mean, po.covariance_matrix
            pp = f.likelihood(po).covariance_matrix
        # "returns exactly its members' outputs": the same floating-point program on the same inputs -> bitwise equality
        ctx.check("prior.mean", torch.equal(prior_l[i][0], pr.mean), f"member {i}: prior mean differs from the member's own")
        ctx.check("prior.covariance", torch.equal(prior_l[i][1], pr.covariance_matrix), f"member {i}: prior covariance differs")
        ctx.check("posterior.mean", torch.equal(post_l[i][0], pm), f"member {i}: max|diff|={float((post_l[i][0] - pm).abs().max()) if post_l[i][0].shape == pm.shape else 'shape'}")
        ctx.check("posterior.covariance", torch.equal(post_l[i][1], pc), f"member {i}: posterior covariance differs from the member's own")
        ctx.check("predictive.covariance", torch.equal(pred_l[i], pp), f"member {i}: likelihood list output differs from the member's own")
        spread_ = max(spread_, float((pm - pm.mean()).abs().max()))
    ctx.equal("len", len(posts), k)
    shape = torch.broadcast_shapes(*[v.shape for v in mlls])
    want = sum(v.expand(shape) for v in mlls) / k
    # arithmetic mean of the members' MLLs (same summation order: only the division may round differently)
    ctx.close("sum_mll", total, want, rtol=1e-13, atol=1e-13)
    distinct = k >= 2 and spread([v.reshape(-1)[:1] for v in mlls]) > 1e-3
    ctx.set_nontrivial(distinct)
    ctx.label("model=list", f"k={k}", *{f"member_pat={pattern(m['pb'], m['db'])}" for m in ms})


RULE = ("module recipe (36 kernel variants incl. expression trees with per-node batch shapes, Cylindrical / HammingIMQ / Arc / "
        "SpectralDelta / RFF / Index / Multitask / LCM / derivative kernels; 8 mean classes; Gaussian, fixed-noise, multitask Gaussian "
        "likelihoods and the homoskedastic noise models; exact GP: prior, MLL, posterior, predictive; SVGP (whitened / unwhitened x "
        "Cholesky / mean-field / delta / natural q(u)): q(f), KL, ELBO) x a parameter batch shape and a data batch shape drawn "
        "independently among all broadcast-compatible pairs of rank 0..2, extents 1..3 (components may carry thinner shapes that "
        "broadcast into the parameter shape; training inputs / test inputs / fixed noise may carry their own) x numeric payload. "
        "Oracle: for every multi-index beta of the broadcast batch a non-batched replica built from the same recipe with the beta-th "
        "slice of every parameter (set by name), applied to the beta-th slice of the data. Non-trivial: parameter and data batch shapes "
        "differ, the broadcast batch has >= 2 elements and every two replicas' outputs differ by > 1e-3 (model list: >= 2 members with "
        "different MLLs); distinct = distinct canonical case.")

SUBCHECKS = [
    # sized from the measured per-case cost (cpu column): ~10 ms (basic kernels, means), ~20 ms (trees, likelihoods),
    # ~60-70 ms (special kernels, exact GP, SVGP: |beta| + 1 model builds), ~70 ms (model lists)
    Subcheck("kernel.basic", run_tree, strategy=lambda: tree_case(depth=0), quick=1600, thorough=40000, min_shard=50),
    Subcheck("kernel.composed", run_tree, strategy=lambda: tree_case(depth=2, mixed=True), quick=1000, thorough=25000, min_shard=40),
    Subcheck("kernel.special", run_special, strategy=special_case, quick=2000, thorough=50000, min_shard=40),
    Subcheck("mean", run_mean, strategy=mean_case, quick=640, thorough=15000, min_shard=40),
    Subcheck("likelihood", run_lik, strategy=lik_case, quick=1000, thorough=25000, min_shard=40),
    Subcheck("exact.gp", run_exact, strategy=exact_case, quick=1000, thorough=30000, min_shard=25),
    Subcheck("svgp", run_svgp, strategy=svgp_case, quick=800, thorough=25000, min_shard=25),
    Subcheck("model_list", run_list, strategy=list_case, quick=320, thorough=6000, min_shard=20),
]

SPEC = PropertySpec(
    pid="C08",
    rule=RULE,
    assumptions=[
        "float64, CPU, default settings (Cholesky paths); the oracle is the library's own non-batched path, whose values are judged "
        "against closed forms by C01 / C02 / C05 / C12 / C14",
        "parameters are set by name through the public setters (`initialize` for plain Parameters, buffer assignment for the RFF weights)",
        "solve-based outputs are compared at 1e3*eps*cond clipped to [1e-10, 1e-6]; cases with cond(K+S) > 1e8 (SVGP: cond(Kzz) > 1e6) are "
        "discarded and counted",
        "kernels with a kink at r = 0 (Matern, piecewise polynomial, cosine; the radial part of CylindricalKernel always) on inputs with "
        "near-coincident, non-identical rows (closer than 1e-3) are compared at atol 1e-6 (DESIGN 1.4), everything else at 1e-11",
        "exact GP: the prior (mean, kernel, training inputs) spans the whole training batch shape - targets and likelihood parameters "
        "never carry batch dimensions the prior lacks (ExactGP takes its batch shape from the prior); training inputs may be shared "
        "along batch dimensions the hyper-parameters span; test inputs carry any compatible batch shape",
        "SVGP / unwhitened strategy: cases where the inputs equal the inducing points in some batch element are discarded (the x == Z "
        "short-cut applies only when all batch elements coincide and differs from the general path at jitter level)",
        "cases in which the non-batched replica itself returns non-finite values are discarded (value questions of C05 / C12)",
        "LCMKernel: data kernels without active_dims (LCMKernel ignores them, batched or not - the LCM half of F12, C06's subject)",
        "diag=True is exercised with x1 == x2 only (documented precondition); RBFKernelGradGrad with n1 == n2 only (F9 is C05's)",
        "deprecated AdditiveStructure / ProductStructure / NewtonGirardAdditive kernels (last_dim_is_batch) and the structure-exploiting "
        "kernels of C09 (Grid, GridInterpolation, InducingPoint) are not part of this check",
    ],
    subchecks=SUBCHECKS,
)

"""C03 - evaluation-mode outputs are history independent: after any interleaving of the public state-changing
operations, the next prediction equals that of a freshly constructed model with the same parameters and data.

A case is {family, recipe, data, ops}.  ops is a list of JSON operations interpreted on the *real* model; after every
`predict` op (and once at the end) a fresh model is built from the recipe, every parameter and buffer is copied
tensor by tensor, it receives the current data, and must predict the same distribution under the same settings."""
from __future__ import annotations

import copy
import itertools

import torch
from hypothesis import strategies as st

import gpytorch
from gpytorch import kernels as K
from gpytorch import settings as S
from gpytorch.distributions import MultivariateNormal

from pbt import gpmodel as G
from pbt import kern
from pbt import mtmodel as MT
from pbt.core import Ctx, Discard, PropertySpec, Subcheck

T = torch.tensor
FAMILIES = ["exact", "exact_batch", "kiss", "sgpr", "multitask", "svgp_w", "svgp_u", "svgp_nat"]
EXACT = {"exact", "exact_batch", "kiss", "sgpr", "multitask"}


# ---------------------------------------------------------------------------------------------------
# model classes (module level: deepcopy / pickling must not trip over local classes)
# ---------------------------------------------------------------------------------------------------
class SVGPModel(gpytorch.models.ApproximateGP):
    def __init__(self, strategy_cls, dist_cls, Z, mean_module, covar_module, likelihood):
        m = Z.shape[-2]
        vd = dist_cls(m)
        vs = strategy_cls(self, Z, vd, learn_inducing_locations=True)
        super().__init__(vs)
        self.mean_module = mean_module
        self.covar_module = covar_module
        self.likelihood = likelihood

    def forward(self, x):
        return MultivariateNormal(self.mean_module(x), self.covar_module(x))


def build(case, X, y):
    fam = case["family"]
    r = case["recipe"]
    torch.manual_seed(12345)  # any random initialisation inside constructors is identical for real and fresh models
    if fam in ("exact", "exact_batch"):
        c = dict(r, X=X.tolist(), y=y.tolist())
        model, lik = G.build_exact(c)
        return model
    if fam == "multitask":
        model, lik = MT.build_multitask(dict(r, X=X.tolist(), y=y.tolist()))
        return model
    lik = gpytorch.likelihoods.GaussianLikelihood()
    lik.noise = T(r["noise"])
    mean = kern.build_mean(r["mean"])
    if fam == "kiss":
        base = kern.build_kernel(r["base"])
        covar = K.ScaleKernel(K.GridInterpolationKernel(base, grid_size=r["grid_size"], num_dims=r["d"], grid_bounds=[(-4.0, 4.0)] * r["d"]))
        covar.outputscale = T(r["outputscale"])
        return G.RecipeGP(X, y, lik, mean, covar)
    if fam == "sgpr":
        base = kern.build_kernel(r["base"])
        covar = K.InducingPointKernel(base, inducing_points=T(r["Z"]), likelihood=lik)
        return G.RecipeGP(X, y, lik, mean, covar)
    # variational families
    strat = gpytorch.variational.UnwhitenedVariationalStrategy if fam == "svgp_u" else gpytorch.variational.VariationalStrategy
    dist = gpytorch.variational.NaturalVariationalDistribution if fam == "svgp_nat" else gpytorch.variational.CholeskyVariationalDistribution
    model = SVGPModel(strat, dist, T(r["Z"]), mean, kern.build_kernel(r["base"]), lik)
    vd = model.variational_strategy._variational_distribution
    m0, L = T(r["q_mean"]), torch.tril(T(r["q_chol"]))
    L = L - torch.diag_embed(L.diagonal()) + torch.diag_embed(L.diagonal().abs() + 0.3)
    with torch.no_grad():
        if fam == "svgp_nat":
            Sig = L @ L.T
            vd.natural_vec.copy_(torch.linalg.solve(Sig, m0))
            vd.natural_mat.copy_(-0.5 * torch.linalg.inv(Sig))
        else:
            vd.variational_mean.copy_(m0)
            vd.chol_variational_covar.copy_(L)
    model.variational_strategy.variational_params_initialized.fill_(1)
    return model


def objective(case, model, X, y):
    if case["family"] in EXACT:
        return gpytorch.mlls.ExactMarginalLogLikelihood(model.likelihood, model)
    return gpytorch.mlls.VariationalELBO(model.likelihood, model, num_data=y.shape[-1])


def fresh_like(case, model, X, y):
    f = build(case, X, y)
    src_p = dict(model.named_parameters())
    src_b = dict(model.named_buffers())
    with torch.no_grad():
        for n, p in f.named_parameters():
            if n not in src_p or src_p[n].shape != p.shape:
                raise AssertionError(f"fresh model parameter {n} has no counterpart of equal shape")
            p.copy_(src_p[n])
        for n, b in f.named_buffers():
            if n in src_b and src_b[n].shape == b.shape:
                b.copy_(src_b[n])
    f.eval()
    return f


class pred_ctx:
    def __init__(self, s):
        self.s = s

    def __enter__(self):
        from contextlib import ExitStack

        s = self.s
        self.st = ExitStack()
        for cm in (S.fast_pred_var(s.get("fpv", False)), S.detach_test_caches(s.get("detach", True)), S.lazily_evaluate_kernels(s.get("lazy", True)),
                   S.skip_posterior_variances(s.get("skip", False)), S.max_eager_kernel_size(s.get("eager", 512))):
            self.st.enter_context(cm)

    def __exit__(self, *a):
        return self.st.__exit__(*a)


def predict(model, xs, s, grad=False, through_likelihood=False):
    torch.manual_seed(777)
    with pred_ctx(s):
        if grad:
            out = model(xs)
        else:
            with torch.no_grad():
                out = model(xs)
                if through_likelihood:
                    out = model.likelihood(out)
        mean = out.mean
        cov = out.covariance_matrix
    return out, mean, cov


# ---------------------------------------------------------------------------------------------------
# interpreter
# ---------------------------------------------------------------------------------------------------
def run_history(case, ctx: Ctx):
    if case.get("lowrank"):
        # iterative solves at tight tolerance (so that only the rank of the fast_pred_var cache is approximate), same settings for the
        # real model and for every fresh model
        with S.max_cholesky_size(0), S.max_root_decomposition_size(case["lowrank"]), S.cg_tolerance(1e-12), S.eval_cg_tolerance(1e-12), \
                S.max_cg_iterations(2000), S.max_preconditioner_size(0):
            return _run_history(case, ctx)
    return _run_history(case, ctx)


def _run_history(case, ctx: Ctx):
    fam = case["family"]
    lz = {bool(o.get("s", {}).get("lazy", True)) for o in case["ops"] if o["op"] in ("predict", "predict_backward", "likelihood_call")} | {True}
    ctx.cls = fam + ("|mixed_lazy" if len(lz) > 1 else "")
    X, y = T(case["X"]), T(case["y"])
    with ctx.observing("build"):
        model = build(case, X, y)
        snapshot0 = {k: v.detach().clone() for k, v in model.state_dict().items()}
        model.eval()
    cur_X, cur_y = X, y
    saw_predict, saw_mutation_between, nontrivial = False, False, False
    kinds = []

    def compare(tag, xs, s):
        if case.get("lowrank") and s.get("fpv", False):
            # a rank-k fast_pred_var prediction is an approximation whose value legitimately depends on which (better) roots happen to
            # be memoized already; it is made (it fills the caches) but only predictions by exact algorithms are judged
            predict(model, xs, s)
            ctx.label("lowrank_fpv_prediction_not_judged")
            return
        fresh = fresh_like(case, model, cur_X, cur_y)
        _, gm, gc = predict(model, xs, s)
        _, wm, wc = predict(fresh, xs, s)
        # KISS-GP keeps its grid in float32 and updates caches incrementally (WISKI): agreement to 1e-5, like the
        # Lanczos-backed fast_pred_var caches of SGPR
        iterative = fam == "kiss" or (s.get("fpv", False) and fam == "sgpr")
        tol = 1e-5 if iterative else (1e-6 if case.get("lowrank") else 1e-8)
        scale = max(1.0, float(wc.abs().max()), float(wm.abs().max()))
        ctx.close(f"{tag}.mean", gm, wm, rtol=tol, atol=tol, scale=scale)
        ctx.close(f"{tag}.cov", gc, wc, rtol=tol, atol=tol, scale=scale)

    # final probes: under default settings and under every settings combination an earlier prediction of the history ran with
    probe_settings = [{}]
    for o in case["ops"]:
        if o["op"] == "predict" and o.get("s") and o["s"] not in probe_settings and len(probe_settings) < 4:
            probe_settings.append(o["s"])
    ops = list(case["ops"]) + [{"op": "predict", "x": case["probe"], "s": ps} for ps in probe_settings]
    for i, op in enumerate(ops):
        name = op["op"]
        kinds.append(name)
        with ctx.observing(f"op.{name}", cls=f"{ctx.cls}|{name}"):
            if name == "predict":
                xs = T(op["x"])
                if model.training:
                    model.eval()
                compare(f"after[{'>'.join(kinds[-4:-1])}]"[:60] if False else "predict", xs, op["s"])
                if saw_predict and saw_mutation_between:
                    nontrivial = True
                saw_predict, saw_mutation_between = True, False
            elif name == "predict_backward":
                if model.training:
                    model.eval()
                s = dict(op["s"], detach=False)
                try:
                    out, mean, cov = predict(model, T(op["x"]), s, grad=True)
                    (mean.sum() + cov.diagonal(dim1=-1, dim2=-2).sum()).backward()
                except RuntimeError as e:
                    if "second time" not in str(e) and "does not require grad" not in str(e):
                        raise
                    ctx.label("backward_refused")
                model.zero_grad()
                saw_mutation_between = True
            elif name == "likelihood_call":
                if model.training:
                    model.eval()
                predict(model, T(op["x"]), op["s"], through_likelihood=True)
            elif name == "prior_mode":
                if model.training:
                    model.eval()
                with torch.no_grad():
                    if fam in EXACT:
                        with S.prior_mode(True):
                            model(T(op["x"]))
                    else:
                        model(T(op["x"]), prior=True)
                saw_mutation_between = True
            elif name == "train_eval":
                model.train()
                model.eval()
                saw_mutation_between = True
            elif name == "train":
                model.train()
            elif name == "eval":
                model.eval()
            elif name == "step":
                model.train()
                mll = objective(case, model, cur_X, cur_y)
                params = [p for p in (model.hyperparameters() if fam == "svgp_nat" else model.parameters()) if p.requires_grad]
                opt = torch.optim.Adam(params, lr=op["lr"]) if op["opt"] == "adam" else torch.optim.SGD(params, lr=op["lr"])
                for _ in range(op["n"]):
                    opt.zero_grad()
                    loss = -mll(model(cur_X), cur_y)
                    if loss.dim() > 0:
                        loss = loss.sum()
                    loss.backward()
                    # keep the walk inside the well-conditioned region: clip the step
                    torch.nn.utils.clip_grad_norm_(params, 1.0)
                    opt.step()
                opt.zero_grad()
                model.eval()
                saw_mutation_between = True
            elif name == "set_train_data":
                if fam not in EXACT:
                    continue
                nX, ny = T(op["X"]), T(op["y"])
                if op["targets_only"] and ny.shape == cur_y.shape:
                    model.set_train_data(targets=ny, strict=op["strict"])
                    cur_y = ny
                else:
                    if nX.shape[:-2] != cur_X.shape[:-2] or ny.shape[:-1] != cur_y.shape[:-1] or (fam == "multitask" and ny.shape[-1] != cur_y.shape[-1]):
                        continue
                    model.set_train_data(inputs=nX, targets=ny, strict=False)
                    cur_X, cur_y = nX, ny
                saw_mutation_between = True
            elif name == "load_state":
                sd = {k: v.clone() for k, v in snapshot0.items()}
                if op["which"] == "perturbed":
                    for k in sd:
                        if k.split(".")[-1].startswith("raw_") and sd[k].is_floating_point():
                            sd[k] = sd[k] + op["delta"]
                part = op.get("keys")
                if part:
                    # partial state dict (strict=False): only the entries below one sub-module prefix, e.g. only the kernel's
                    prefixes = sorted({".".join(k.split(".")[: part["depth"]]) for k in sd})
                    pre = prefixes[part["idx"] % len(prefixes)]
                    sd = {k: v for k, v in sd.items() if k == pre or k.startswith(pre + ".")}
                    model.load_state_dict(sd, strict=False)
                    ctx.label("op=load_state.partial")
                else:
                    model.load_state_dict(sd, strict=True)
                saw_mutation_between = True
            elif name == "fantasy":
                if fam == "svgp_w":
                    # the whitened strategy offers fantasy models too (online variational conditioning): creating one must leave the
                    # source as it was, in particular when it happens before the first eval-mode prediction
                    if model.training:
                        model.eval()
                    Xf, yf = T(op["Xf"]), T(op["yf"])
                    if Xf.dim() != 2 or yf.dim() != 1:
                        continue
                    with torch.no_grad():
                        model.get_fantasy_model(Xf, yf)
                    saw_mutation_between = True
                    ctx.label("op=fantasy.variational")
                    continue
                if fam not in EXACT or fam in ("sgpr",):
                    continue
                if case.get("lowrank"):
                    # the fantasy update borders the cached (here: rank-2) root; its Schur complement is then not a valid one
                    # (NaN in the dependency's Cholesky): low-rank histories have no fantasy operations
                    ctx.label("fantasy_skipped_lowrank")
                    continue
                if fam in ("exact", "exact_batch") and list(cur_X.shape[:-2]) != list(case["recipe"]["mb"]):
                    ctx.label("fantasy_skipped_unbatched_inputs")
                    continue
                if model.training:
                    model.eval()
                Xf, yf = T(op["Xf"]), T(op["yf"])
                if fam == "multitask" and (yf.dim() != 2 or yf.shape[-1] != cur_y.shape[-1]):
                    continue
                if model.prediction_strategy is None:
                    with torch.no_grad():
                        model(T(case["probe"]))
                try:
                    with torch.no_grad():
                        fm = model.get_fantasy_model(Xf, yf)
                except RuntimeError as e:
                    if "deepcopy protocol" in str(e):
                        # documented torch limitation: caches from a non-detached prediction cannot be deep-copied
                        ctx.label("fantasy_refused_deepcopy")
                        continue
                    raise
                if op["adopt"]:
                    model = fm
                    cur_X = torch.cat([cur_X, Xf.expand(*cur_X.shape[:-2], *Xf.shape[-2:])], -2)
                    cur_y = torch.cat([cur_y, yf.expand(*cur_y.shape[:-1], yf.shape[-1])], -1) if fam != "multitask" else torch.cat([cur_y, yf], -2)
                saw_mutation_between = True
            else:
                raise AssertionError(f"unknown op {name}")
    ctx.set_nontrivial(nontrivial)
    ctx.label(f"family={fam}", f"len={min(len(case['ops']), 9)}", *{f"op={k}" for k in kinds}, *(["lowrank_history"] if case.get("lowrank") else []))


# ---------------------------------------------------------------------------------------------------
# generators
# ---------------------------------------------------------------------------------------------------
PRED_SETTINGS = st.fixed_dictionaries({}, optional={"fpv": st.booleans(), "detach": st.booleans(), "lazy": st.booleans(), "skip": st.booleans(),
                                                     "eager": st.sampled_from([0, 512])})


@st.composite
def recipe_and_data(draw, fam):
    if fam in ("exact", "exact_batch"):
        c = draw(G.exact_case(depth=1, nmax=5, nsmax=3, lik_kinds=("Gaussian",), test_batches=False,
                              model_batches=[[]] if fam == "exact" else [[2], [3]]))
        recipe = {k: c[k] for k in ("d", "mb", "xb", "tb", "n", "ns", "mean", "kernel", "lik")}
        return recipe, c["X"], c["y"], c["d"], c["xb"], (c["mb"] if c["mb"] else c["xb"])
    if fam == "multitask":
        c = draw(MT.multitask_case(nmax=4, nsmax=2, test_batches=False))
        recipe = {k: c[k] for k in ("d", "t", "n", "ns", "tb", "kernel", "task", "means", "lik")}
        return recipe, c["X"], c["y"], c["d"], [], []
    d = draw(st.integers(1, 2)) if fam == "kiss" else draw(st.integers(1, 2))
    n = draw(st.integers(2, 5))
    base_names = ["RBF", "Matern2.5", "Matern1.5"]
    recipe = {"d": d, "noise": [draw(kern.pos(0.05, 1.0))], "mean": draw(kern.mean_recipe(d, [])),
              "base": draw(kern.base_kernel(d, [], names=base_names, allow_ad=False))}
    if fam == "kiss":
        recipe["grid_size"] = draw(st.integers(6, 9))
        recipe["outputscale"] = draw(kern.pos(0.2, 3.0))
    else:
        m = draw(st.integers(2, 4))
        recipe["Z"] = draw(kern.points(m, d))
        if fam != "sgpr":
            recipe["base"] = {"k": "Scale", "batch": [], "base": recipe["base"], "p": {"outputscale": draw(kern.pos(0.2, 3.0))}}
            recipe["q_mean"] = draw(kern.arr([m], kern.REAL))
            recipe["q_chol"] = draw(kern.arr([m, m], kern.REAL))
    return recipe, draw(kern.points(n, d)), draw(kern.arr([n], kern.REAL)), d, [], []


@st.composite
def op_strategy(draw, fam, d, xb, yb, t=None, mb=()):
    names = ["predict", "predict", "predict_backward", "likelihood_call", "prior_mode", "train_eval", "train", "eval", "step", "load_state"]
    if fam in EXACT:
        names += ["set_train_data", "set_train_data", "fantasy"]
    if fam == "svgp_w":
        names += ["fantasy"]
    name = draw(st.sampled_from(names))
    op = {"op": name}
    if name in ("predict", "predict_backward", "likelihood_call", "prior_mode"):
        nb = draw(st.sampled_from([[], [], [2]])) if not mb else draw(st.sampled_from([[], mb]))
        op["x"] = draw(kern.points(draw(st.integers(1, 3)), d, nb))
        op["s"] = draw(PRED_SETTINGS) if name != "prior_mode" else {}
    elif name == "step":
        op.update(opt=draw(st.sampled_from(["sgd", "adam"])), lr=draw(st.sampled_from([0.01, 0.05, 0.1])), n=draw(st.integers(1, 2)))
    elif name == "load_state":
        op.update(which=draw(st.sampled_from(["snapshot0", "perturbed", "perturbed"])), delta=draw(st.sampled_from([-0.5, 0.3, 1.0])))
        if draw(st.booleans()):
            op["keys"] = {"depth": draw(st.integers(1, 2)), "idx": draw(st.integers(0, 7))}
    elif name == "set_train_data":
        n2 = draw(st.integers(1, 5))
        op.update(X=draw(kern.points(n2, d, xb)), y=draw(kern.arr(list(yb) + ([n2, t] if t else [n2]), kern.REAL)), targets_only=draw(st.booleans()),
                  strict=draw(st.booleans()))
    elif name == "fantasy":
        m = draw(st.integers(1, 2))
        op.update(Xf=draw(kern.points(m, d, xb)), yf=draw(kern.arr(list(yb) + ([m, t] if t else [m]), kern.REAL)), adopt=draw(st.booleans()))
    return op


@st.composite
def history_case(draw, families=FAMILIES, max_ops=8):
    fam = draw(st.sampled_from(families))
    recipe, X, y, d, xb, yb = draw(recipe_and_data(fam))
    t = recipe.get("t") if fam == "multitask" else None
    ops = draw(st.lists(op_strategy(fam, d, xb, yb, t, list(recipe.get('mb') or [])), min_size=1, max_size=max_ops))
    case = {"family": fam, "recipe": recipe, "X": X, "y": y, "ops": ops, "probe": draw(kern.points(2, d, list(recipe.get("mb") or [])))}
    if fam in ("exact", "exact_batch") and draw(st.integers(0, 3)) == 0:
        # the whole history runs above max_cholesky_size with a small max_root_decomposition_size: fast_pred_var caches are then
        # genuinely low-rank approximations, which must never leak into predictions made with fast_pred_var off
        # (the dependency's Lanczos needs at least a 3 x 3 matrix and two iterations: every training set of the history has n >= 4)
        sizes = [recipe["n"]] + [len(T(o["X"]).reshape(-1, T(o["X"]).shape[-2], d)[0]) for o in ops if o["op"] == "set_train_data" and not o["targets_only"]]
        if min(sizes) >= 4:
            case["lowrank"] = draw(st.integers(2, 3))
    return case


# ---- bounded-exhaustive tier: all sequences up to a length over canonical operations on one fixed instance per family
def _canon(fam):
    d = 1
    xs = [[-1.0], [0.5], [2.0]]
    base = {"family": fam, "probe": [[-0.5], [1.25]]}
    if fam == "exact":
        base["recipe"] = {"d": 1, "mb": [], "xb": [], "tb": [], "n": 4, "ns": 2, "mean": {"m": "Constant", "batch": [], "p": {"constant": 0.3}},
                          "kernel": {"k": "Scale", "batch": [], "p": {"outputscale": 1.5}, "base": {"k": "Matern2.5", "batch": [], "ad": None, "d": 1, "ard": False, "p": {"lengthscale": [[0.8]]}}},
                          "lik": {"l": "Gaussian", "batch": [], "noise": [0.2]}}
    elif fam == "kiss":
        base["recipe"] = {"d": 1, "noise": [0.2], "mean": {"m": "Constant", "batch": [], "p": {"constant": 0.3}}, "grid_size": 8, "outputscale": 1.5,
                          "base": {"k": "RBF", "batch": [], "ad": None, "d": 1, "ard": False, "p": {"lengthscale": [[0.8]]}}}
    elif fam == "sgpr":
        base["recipe"] = {"d": 1, "noise": [0.2], "mean": {"m": "Constant", "batch": [], "p": {"constant": 0.3}}, "Z": [[-1.5], [0.0], [1.5]],
                          "base": {"k": "RBF", "batch": [], "ad": None, "d": 1, "ard": False, "p": {"lengthscale": [[0.8]]}}}
    else:
        base["recipe"] = {"d": 1, "noise": [0.2], "mean": {"m": "Constant", "batch": [], "p": {"constant": 0.3}}, "Z": [[-1.5], [0.0], [1.5]],
                          "base": {"k": "Scale", "batch": [], "p": {"outputscale": 1.5}, "base": {"k": "RBF", "batch": [], "ad": None, "d": 1, "ard": False, "p": {"lengthscale": [[0.8]]}}},
                          "q_mean": [0.5, -0.25, 1.0], "q_chol": [[1.0, 0.0, 0.0], [0.25, 0.75, 0.0], [-0.5, 0.25, 0.5]]}
    base["X"] = [[-2.0], [-0.75], [0.25], [1.5]]
    base["y"] = [0.5, -1.0, 0.75, 0.25]
    alphabet = [
        {"op": "predict", "x": xs, "s": {}},
        {"op": "predict", "x": xs, "s": {"fpv": True}},
        {"op": "predict", "x": [xs, xs], "s": {"lazy": False}},
        {"op": "predict", "x": xs, "s": {"skip": True}},
        {"op": "predict_backward", "x": xs, "s": {}},
        {"op": "prior_mode", "x": xs, "s": {}},
        {"op": "train_eval"},
        {"op": "step", "opt": "sgd", "lr": 0.05, "n": 1},
        {"op": "load_state", "which": "perturbed", "delta": 0.3},
        {"op": "load_state", "which": "perturbed", "delta": -0.4, "keys": {"depth": 1, "idx": 0}},  # only covar_module.*
        {"op": "likelihood_call", "x": xs, "s": {}},
    ]
    if fam == "svgp_w":
        alphabet += [{"op": "fantasy", "Xf": [[0.75], [-1.25]], "yf": [0.5, -0.5], "adopt": False}]
    if fam in EXACT:
        alphabet += [
            {"op": "set_train_data", "X": [[-1.0], [0.0], [1.0]], "y": [1.0, 0.0, -1.0], "targets_only": False, "strict": False},
            {"op": "set_train_data", "X": base["X"], "y": [1.0, 0.5, -0.5, 0.0], "targets_only": True, "strict": True},
            {"op": "fantasy", "Xf": [[0.75]], "yf": [0.5], "adopt": True},
            {"op": "fantasy", "Xf": [[0.75], [-1.25]], "yf": [0.5, -0.5], "adopt": False},
        ]
    return base, alphabet


def enumerate_histories(tier):
    maxlen = 2 if tier == "quick" else 3
    for fam in ("exact", "kiss", "sgpr", "svgp_w", "svgp_u", "svgp_nat"):
        base, alphabet = _canon(fam)
        for L in range(1, maxlen + 1):
            for seq in itertools.product(range(len(alphabet)), repeat=L):
                yield dict(base, ops=[alphabet[i] for i in seq])
                if fam == "exact":
                    # the same history above max_cholesky_size with rank-2 fast_pred_var caches
                    yield dict(base, ops=[alphabet[i] for i in seq], lowrank=2)


RULE = ("histories = lists of public operations (predict under generated settings and test batch shapes, predict + backward under "
        "detach_test_caches(False), likelihood call, prior-mode call, train()/eval(), optimiser steps in training mode, set_train_data "
        "(inputs and/or targets, strict or not, possibly another n), load_state_dict (snapshot or perturbed; whole or only the entries of one sub-module with strict=False), get_fantasy_model (dropped or "
        "adopted)) over 8 model families (exact default / batch / KISS-GP / SGPR / Kronecker multitask; SVGP whitened / unwhitened / "
        "natural). Generated histories of 1-8 operations on generated recipes, and ALL sequences of length <= 2 (quick) / <= 3 (thorough) "
        "over an 11-15 symbol alphabet of canonical operations for 6 families. Oracle: a fresh model with copied tensors and the current "
        "data predicts the same distribution, probed at the end under default settings and under every settings combination used earlier. Non-trivial: the history contains predict ... state-changing operation ... predict; "
        "distinct = distinct canonical case.")

SUBCHECKS = [
    Subcheck("history.generated", run_history, strategy=history_case, quick=900, thorough=25000, min_shard=30),
    Subcheck("history.exhaustive", run_history, enumerate=enumerate_histories,
             exhaustive_note="all operation sequences of length <= 2 (quick) / <= 3 (thorough) over the canonical alphabet, 6 model families"),
]

SPEC = PropertySpec(
    pid="C03",
    rule=RULE,
    assumptions=[
        "float64 CPU; both sides run the same algorithm under the same settings and torch seed, tolerance 1e-8 (1e-5 for the Lanczos-backed "
        "fast_pred_var caches of KISS-GP / SGPR)",
        "direct parameter edits while staying in eval mode are excluded (outside the documented invalidation points)",
        "operations a family does not support (fantasies for SGPR / variational models, set_train_data for variational models) are skipped",
        "optimiser steps clip the gradient norm to 1 so that histories stay in the well-conditioned region",
    ],
    subchecks=SUBCHECKS,
)

"""C11 - MultitaskMultivariateNormal denotes ONE joint Gaussian over the n x t outputs, whatever the storage layout
(interleaved or not), the constructor (from_batch_mvn / from_independent_mvns / from_repeated_mvn) or the index.

Coordinates.  Every case carries the joint distribution in *canonical* (point, task) coordinates: ``mean`` of shape
(*batch, n, t) and ``cov`` of shape (*batch, n*t, n*t) whose row/column ``i*t + a`` belongs to (point i, task a).
The matrix handed to the constructor is that covariance re-ordered by the explicit flattening of the docstring,
``flat(i, a) = i*t + a`` (interleaved) / ``a*n + i`` (non-interleaved); all oracles work in canonical coordinates with
dense float64 linear algebra (slogdet / solve / explicit loops) and never call the judged code path.

Indexing oracle.  ``L = arange(B*n*t).reshape(*batch, n, t)`` labels every output by the row of the block-diagonal
joint covariance of all batch members; ``Y = L[idx]`` (torch semantics on the raw expression) then says which output
sits at which position of ``d[idx].mean``, and the covariance of the result must be the sub-matrix for those labels,
read in the result's own layout (last two dimensions are the event if both the point and the task position survive,
else the last one; an integer in both positions makes the trailing batch dimension the event with independent
components).
"""
from __future__ import annotations

import functools
import itertools
import math

import torch
from hypothesis import strategies as st
from linear_operator.operators import DenseLinearOperator

import gpytorch
from gpytorch.distributions import MultitaskMultivariateNormal as MT
from gpytorch.distributions import MultivariateNormal as MVN

from pbt.core import Ctx, Discard, PropertySpec, Subcheck

LOG2PI = math.log(2.0 * math.pi)
FULL = {"slice": [None, None, None]}

# tolerances (DESIGN 1.4): closed-form / re-ordering paths are exact or 1e-9; anything through one Cholesky / solve of
# a matrix with cond <= ~1e3 (payload construction below) is compared at rtol 1e-8, atol 1e-9*scale.
RT_SOLVE, AT_SOLVE = 1e-8, 1e-9


# ---------------------------------------------------------------------------------------------------
# explicit flattening
# ---------------------------------------------------------------------------------------------------
def flat(i, a, n, t, inter):
    return i * t + a if inter else a * n + i


def stored_from_canonical(Cc, n, t, inter):
    """stored[flat(i,a), flat(j,b)] = Cc[i*t+a, j*t+b]."""
    N = n * t
    perm = [0] * N  # perm[stored position] = canonical position
    for i in range(n):
        for a in range(t):
            perm[flat(i, a, n, t, inter)] = i * t + a
    p = torch.tensor(perm, dtype=torch.long)
    return Cc[..., p, :][..., :, p].contiguous()


def canonical_from_stored(S, n, t, inter):
    """Cc[i*t+a, j*t+b] = stored[flat(i,a), flat(j,b)]."""
    q = torch.tensor([flat(i, a, n, t, inter) for i in range(n) for a in range(t)], dtype=torch.long)
    return S[..., q, :][..., :, q]


def dense_log_prob(v, M, Cc):
    """log N(v; M, Cc) with v (..., n, t) flattened point-major; broadcasting over leading dimensions."""
    N = Cc.shape[-1]
    diff = (v - M).reshape(*torch.broadcast_shapes(v.shape, M.shape)[:-2], N)
    bs = torch.broadcast_shapes(diff.shape[:-1], Cc.shape[:-2])
    diff = diff.expand(*bs, N)
    C = Cc.expand(*bs, N, N)
    sol = torch.linalg.solve(C, diff.unsqueeze(-1)).squeeze(-1)
    logdet = torch.linalg.slogdet(C)[1]
    return -0.5 * ((diff * sol).sum(-1) + logdet + N * LOG2PI)


# ---------------------------------------------------------------------------------------------------
# payload
# ---------------------------------------------------------------------------------------------------
def _spd_from_ints(a_ints, d_ints, N, r):
    """C = A A^T + diag(d): A (N x r) in quarter units from [-2, 2], d in [0.5, 2] -> cond <= ~4*N*r*4/0.5 < 1e3."""
    A = torch.tensor(a_ints, dtype=torch.float64).reshape(N, r) / 4.0
    d = torch.tensor(d_ints, dtype=torch.float64) / 4.0
    return A @ A.T + torch.diag(d)


@functools.lru_cache(maxsize=64)
def seeded_payload(n, t, batch, seed):
    """Deterministic payload for the enumerated cases (pure function of its arguments): generic entries so that
    every (point, task) pair has its own variance and every pair of pairs its own covariance."""
    g = torch.Generator().manual_seed(1000 + seed)
    N = n * t
    A = torch.randn(*batch, N, N, generator=g, dtype=torch.float64)
    Cc = A @ A.transpose(-1, -2) / N + torch.eye(N, dtype=torch.float64) * 0.5
    M = torch.randn(*batch, n, t, generator=g, dtype=torch.float64)
    return M, Cc


def payload_of(case):
    n, t, batch = case["n"], case["t"], tuple(case["batch"])
    if "cov" in case:
        M = torch.tensor(case["mean"], dtype=torch.float64).reshape(*batch, n, t)
        Cc = torch.tensor(case["cov"], dtype=torch.float64).reshape(*batch, n * t, n * t)
    else:
        M, Cc = seeded_payload(n, t, batch, int(case.get("payload", 0)))
    return n, t, batch, M, Cc


@functools.lru_cache(maxsize=64)
def seeded_stored(n, t, batch, seed, inter):
    return stored_from_canonical(seeded_payload(n, t, batch, seed)[1], n, t, inter)


@functools.lru_cache(maxsize=64)
def seeded_tables(n, t, batch, seed):
    M, Cc = seeded_payload(n, t, batch, seed)
    return label_tables(n, t, batch, Cc)


def label_tables(n, t, batch, Cc):
    """L labels every output of every batch member by its row in the block-diagonal joint covariance Cfull."""
    B = 1
    for b in batch:
        B *= b
    N = n * t
    L = torch.arange(B * N).reshape(*batch, n, t)
    Cfull = torch.block_diag(*Cc.reshape(B, N, N))
    return L, Cfull


def build(case, ctx, inter=None, what="construct"):
    n, t, batch, M, Cc = payload_of(case)
    inter = bool(case["inter"]) if inter is None else inter
    if "cov" in case:
        S = stored_from_canonical(Cc, n, t, inter)
    else:
        S = seeded_stored(n, t, batch, int(case.get("payload", 0)), inter)
    with ctx.observing(what):
        d = MT(M.clone(), DenseLinearOperator(S.clone()) if case.get("lazy") else S.clone(), interleaved=inter)
    return d, n, t, batch, M, Cc


def base_cls(n, t, batch, inter):
    return f"{'inter' if inter else 'noninter'}|{'n!=t' if n != t else 'n==t'}|batch{len(batch)}"


def common_labels(ctx, n, t, batch, inter, lazy=None):
    ctx.label("n!=t" if n != t else "n==t", f"interleaved={inter}", f"batch={tuple(batch)}", f"shape={n}x{t}")
    if lazy is not None:
        ctx.label(f"lazy={bool(lazy)}")


# ---- strategies --------------------------------------------------------------------------------------
# (n, t): n != t in 16/21 of the draws; n = 1 or t = 1 (layouts coincide) kept as edge cases
SHAPES = ([(3, 2)] * 3 + [(2, 3)] * 3 + [(4, 3)] * 2 + [(4, 2)] * 2 + [(1, 3), (1, 2), (2, 1), (3, 1), (4, 1), (3, 4)]
          + [(2, 2)] * 2 + [(3, 3)] * 2 + [(1, 1)])
Q = st.integers(-8, 8)
LAT = st.integers(-12, 12).map(lambda k: k / 4.0)


def _nested(flat_list, shape):
    return torch.tensor(flat_list, dtype=torch.float64).reshape(*shape).tolist()


@st.composite
def dist_cases(draw, shapes=SHAPES, batches=((), (2,)), with_lazy=True):
    n, t = draw(st.sampled_from(shapes))
    batch = list(draw(st.sampled_from(batches)))
    B = 1
    for b in batch:
        B *= b
    N = n * t
    r = min(N, 3)
    covs = []
    for _ in range(B):
        a = draw(st.lists(Q, min_size=N * r, max_size=N * r))
        dd = draw(st.lists(st.integers(2, 8), min_size=N, max_size=N))
        covs.append(_spd_from_ints(a, dd, N, r))
    Cc = torch.stack(covs).reshape(*batch, N, N)
    mean = draw(st.lists(LAT, min_size=B * N, max_size=B * N))
    case = {"n": n, "t": t, "batch": batch, "inter": draw(st.booleans()), "mean": _nested(mean, batch + [n, t]),
            "cov": Cc.tolist()}
    if with_lazy:
        case["lazy"] = draw(st.booleans())
    return case


def _values(draw, shape):
    k = 1
    for s in shape:
        k *= s
    return _nested(draw(st.lists(LAT, min_size=k, max_size=k)), shape)


# ---------------------------------------------------------------------------------------------------
# mt.moments
# ---------------------------------------------------------------------------------------------------
def run_moments(case, ctx: Ctx):
    n, t, batch, M, Cc = payload_of(case)
    inter = bool(case["inter"])
    ctx.cls = base_cls(n, t, batch, inter)
    common_labels(ctx, n, t, batch, inter, case.get("lazy"))
    ctx.set_nontrivial(n != t and not inter)
    d, *_ = build(case, ctx)
    with ctx.observing("mean"):
        got_mean = d.mean.clone()
    ctx.close("mean", got_mean, M, rtol=0, atol=0)
    with ctx.observing("variance"):
        got_var = d.variance.clone()
    ctx.close("variance", got_var, Cc.diagonal(dim1=-1, dim2=-2).reshape(*batch, n, t))
    with ctx.observing("stddev"):
        got_sd = d.stddev.clone()
    ctx.close("stddev", got_sd, Cc.diagonal(dim1=-1, dim2=-2).reshape(*batch, n, t).sqrt())
    with ctx.observing("shapes"):
        ev, bs, nt = tuple(d.event_shape), tuple(d.batch_shape), int(d.num_tasks)
        bss = tuple(d.base_sample_shape)
    ctx.equal("event_shape", ev, (n, t))
    ctx.equal("batch_shape", bs, tuple(batch))
    ctx.equal("num_tasks", nt, t)
    ctx.equal("base_sample_shape", bss, (n, t))
    with ctx.observing("confidence_region"):
        lo, hi = d.confidence_region()
    sd = Cc.diagonal(dim1=-1, dim2=-2).reshape(*batch, n, t).sqrt()
    ctx.close("confidence_region.lower", lo, M - 2 * sd)
    ctx.close("confidence_region.upper", hi, M + 2 * sd)


# ---------------------------------------------------------------------------------------------------
# mt.log_prob
# ---------------------------------------------------------------------------------------------------
@st.composite
def log_prob_cases(draw):
    case = draw(dist_cases())
    batch = case["batch"]
    # value batch: the distribution's, an extra leading sample dimension, or (batched distribution) an unbatched value
    opts = [batch, [3] + batch, [2, 1] + batch if batch else [2, 2]]
    if batch:
        opts += [[], [1]]
    vb = draw(st.sampled_from(opts))
    case["value_batch"] = vb
    case["value"] = _values(draw, vb + [case["n"], case["t"]])
    case["fast"] = draw(st.booleans())
    return case


def run_log_prob(case, ctx: Ctx):
    n, t, batch, M, Cc = payload_of(case)
    inter = bool(case["inter"])
    vb = list(case["value_batch"])
    ctx.cls = base_cls(n, t, batch, inter)
    common_labels(ctx, n, t, batch, inter, case.get("lazy"))
    ctx.label(f"value_batch_rank={len(vb)}-dist_batch_rank={len(batch)}", f"fast_log_prob={case.get('fast', True)}")
    ctx.set_nontrivial(n != t and not inter)
    d, *_ = build(case, ctx)
    v = torch.tensor(case["value"], dtype=torch.float64).reshape(*vb, n, t)
    want = dense_log_prob(v, M, Cc)
    with ctx.observing("log_prob"):
        with gpytorch.settings.fast_computations(log_prob=bool(case.get("fast", True))):
            got = d.log_prob(v.clone())
    ctx.close("log_prob", got, want, rtol=RT_SOLVE, atol=AT_SOLVE)


# ---------------------------------------------------------------------------------------------------
# mt.rsample_base: rsample(base_samples=E) is an affine map  E -> mean + G E  with  G G^T = C  in (point, task)
# coordinates; get_base_samples has the documented shape and feeds the same map
# ---------------------------------------------------------------------------------------------------
@st.composite
def rsample_base_cases(draw):
    case = draw(dist_cases())
    ss = draw(st.sampled_from([[], [2], [2, 1], [3]]))
    case["sample_shape"] = ss
    case["base"] = _values(draw, ss + case["batch"] + [case["n"], case["t"]])
    case["torch_seed"] = draw(st.integers(0, 2**20))
    return case


def linear_map(d, ctx, n, t, batch, M, name="rsample(base_samples=identity)"):
    """G (*batch, N, N): column k = image of the k-th canonical unit base sample."""
    N = n * t
    E = torch.eye(N, dtype=torch.float64).reshape(N, *([1] * len(batch)), n, t).expand(N, *batch, n, t).contiguous()
    with ctx.observing(name):
        S = d.rsample(base_samples=E)
    if not ctx.equal(name + ".shape", tuple(S.shape), (N, *batch, n, t)):
        return None
    return (S - M).reshape(N, *batch, N).movedim(0, -1)


def run_rsample_base(case, ctx: Ctx):
    n, t, batch, M, Cc = payload_of(case)
    inter = bool(case["inter"])
    ss = list(case["sample_shape"])
    ctx.cls = base_cls(n, t, batch, inter)
    common_labels(ctx, n, t, batch, inter, case.get("lazy"))
    ctx.label(f"sample_shape_rank={len(ss)}")
    ctx.set_nontrivial(n != t and not inter)
    d, *_ = build(case, ctx)
    N = n * t
    G = linear_map(d, ctx, n, t, batch, M)
    if G is None:
        return
    ctx.close("gram(G)=C", G @ G.transpose(-1, -2), Cc, rtol=RT_SOLVE, atol=AT_SOLVE)
    e = torch.tensor(case["base"], dtype=torch.float64).reshape(*ss, *batch, n, t)
    want = M + (G @ e.reshape(*ss, *batch, N, 1)).reshape(*ss, *batch, n, t)
    with ctx.observing("rsample(base_samples=e)"):
        got = d.rsample(base_samples=e.clone())
    ctx.close("rsample(base_samples=e) affine", got, want, rtol=RT_SOLVE, atol=AT_SOLVE)
    # get_base_samples: documented shape sample_shape + batch + (n, t); usable as base samples
    with ctx.observing("get_base_samples"):
        torch.manual_seed(case["torch_seed"])
        e2 = d.get_base_samples(torch.Size(ss))
    if ctx.equal("get_base_samples.shape", tuple(e2.shape), (*ss, *batch, n, t)):
        want2 = M + (G @ e2.reshape(*ss, *batch, N, 1)).reshape(*ss, *batch, n, t)
        with ctx.observing("rsample(base_samples=get_base_samples())"):
            got2 = d.rsample(base_samples=e2)
        ctx.close("rsample(get_base_samples) affine", got2, want2, rtol=RT_SOLVE, atol=AT_SOLVE)


# ---------------------------------------------------------------------------------------------------
# mt.rsample_moments: seeded rsample() without base samples; sample mean / covariance within 6 standard errors
# ---------------------------------------------------------------------------------------------------
NS = 4000


@st.composite
def rsample_moment_cases(draw):
    case = draw(dist_cases())
    case["torch_seed"] = draw(st.integers(0, 2**20))
    return case


def run_rsample_moments(case, ctx: Ctx):
    n, t, batch, M, Cc = payload_of(case)
    inter = bool(case["inter"])
    ctx.cls = base_cls(n, t, batch, inter)
    common_labels(ctx, n, t, batch, inter, case.get("lazy"))
    ctx.set_nontrivial(n != t and not inter)
    d, *_ = build(case, ctx)
    N = n * t
    with ctx.observing("rsample()"):
        torch.manual_seed(case["torch_seed"])
        one = d.rsample()
        S = d.rsample(torch.Size([NS]))
    ctx.equal("rsample().shape", tuple(one.shape), (*batch, n, t))
    if not ctx.equal("rsample([NS]).shape", tuple(S.shape), (NS, *batch, n, t)):
        return
    X = S.reshape(NS, *batch, N)
    mu = X.mean(0)
    Xc = X - mu
    cov = torch.einsum("s...p,s...q->...pq", Xc, Xc) / (NS - 1)
    var = Cc.diagonal(dim1=-1, dim2=-2)
    # 6 standard errors: se(mean_p) = sqrt(C_pp/NS); se(cov_pq) = sqrt((C_pp C_qq + C_pq^2)/(NS-1)) (Gaussian samples)
    se_mu = (var / NS).sqrt()
    se_cov = ((var.unsqueeze(-1) * var.unsqueeze(-2) + Cc**2) / (NS - 1)).sqrt()
    zm = ((mu - M.reshape(*batch, N)).abs() / se_mu).max()
    zc = ((cov - Cc).abs() / se_cov).max()
    ctx.check("sample mean within 6 se", bool(zm <= 6.0), f"max z = {float(zm):.2f} over {N} entries ({NS} samples)", kind="value")
    ctx.check("sample covariance within 6 se", bool(zc <= 6.0), f"max z = {float(zc):.2f} over {N}x{N} entries ({NS} samples)",
              kind="value")


# ---------------------------------------------------------------------------------------------------
# mt.data_independent
# ---------------------------------------------------------------------------------------------------
@st.composite
def data_indep_cases(draw):
    case = draw(dist_cases())
    case["jitter"] = draw(st.sampled_from([None, 0.0, 1e-3, 0.5]))
    return case


def point_blocks(Cc, n, t, batch):
    K = Cc.reshape(*batch, n, t, n, t)
    out = torch.zeros(*batch, n, t, t, dtype=torch.float64)
    for i in range(n):
        out[..., i, :, :] = K[..., i, :, i, :]
    return out


def run_data_independent(case, ctx: Ctx):
    n, t, batch, M, Cc = payload_of(case)
    inter = bool(case["inter"])
    ctx.cls = base_cls(n, t, batch, inter)
    common_labels(ctx, n, t, batch, inter, case.get("lazy"))
    ctx.label(f"jitter={case['jitter']}")
    ctx.set_nontrivial(n != t and not inter)
    d, *_ = build(case, ctx)
    jit = 1e-4 if case["jitter"] is None else case["jitter"]  # documented default jitter_val=1e-4
    with ctx.observing("to_data_independent_dist"):
        r = d.to_data_independent_dist() if case["jitter"] is None else d.to_data_independent_dist(jitter_val=case["jitter"])
        got_mean, got_cov = r.mean.clone(), r.covariance_matrix.clone()
        bs, ev = tuple(r.batch_shape), tuple(r.event_shape)
        is_mt = isinstance(r, MT)
    ctx.check("returns a plain MultivariateNormal", not is_mt, "got a MultitaskMultivariateNormal")
    ctx.equal("batch_shape", bs, (*batch, n))
    ctx.equal("event_shape", ev, (t,))
    ctx.close("mean", got_mean, M, rtol=0, atol=0)
    ctx.close("covariance", got_cov, point_blocks(Cc, n, t, batch) + jit * torch.eye(t, dtype=torch.float64))


# ---------------------------------------------------------------------------------------------------
# indexing
# ---------------------------------------------------------------------------------------------------
def to_index(ast, bare=False):
    out = []
    for e in ast:
        if e == "...":
            out.append(Ellipsis)
        elif "int" in e:
            out.append(int(e["int"]))
        elif "slice" in e:
            out.append(slice(*e["slice"]))
        else:
            out.append(torch.tensor(e["tensor"], dtype=torch.long))
    if bare and len(out) == 1:
        return out[0]
    return tuple(out)


def kind_of(e):
    if e == "...":
        return "..."
    if "int" in e:
        return "int" if e["int"] >= 0 else "-int"
    if "tensor" in e:
        return "tensor" if min(e["tensor"]) >= 0 else "-tensor"
    a, b, c = e["slice"]
    if a is None and b is None and c in (None, 1):
        return "full"
    return "slice0" if a in (None, 0) else "slice+"


def expand_ast(ast, dim):
    ast = list(ast)
    if "..." in ast:
        k = ast.index("...")
        fill = dim - (len(ast) - 1)
        return ast[:k] + [FULL] * fill + ast[k + 1:]
    return ast + [FULL] * (dim - len(ast))


def index_oracle(ast, bare, n, t, batch, M, Cc, tables=None):
    """-> (python index, expected mean, expected covariance, event rank 0/1/2, kinds)."""
    dim = len(batch) + 2
    full = expand_ast(ast, dim)
    kinds = [kind_of(e) for e in full]
    bk, rk, ck = kinds[:-2], kinds[-2], kinds[-1]
    is_t = lambda k: k.endswith("tensor")  # noqa: E731
    is_i = lambda k: k.endswith("int")  # noqa: E731
    if any(is_t(k) for k in bk) and (is_t(rk) or is_t(ck)):
        raise Discard("index tensor in a batch position and in an event position (no single reading of 'marginal')")
    idx = to_index(ast, bare)
    L, Cfull = tables if tables is not None else label_tables(n, t, batch, Cc)
    Y = L[idx]
    want_mean = M[idx]
    if Y.dim() == 0 or Y.numel() == 0:
        raise Discard("scalar or empty selection")
    if is_i(rk) and is_i(ck):
        rank = 0
        want_cov = torch.diag_embed(Cfull.diagonal()[Y])
    else:
        rank = 1 if (is_i(rk) or is_i(ck) or (is_t(rk) and is_t(ck))) else 2
        ids = Y if rank == 1 else Y.reshape(*Y.shape[:-2], -1)
        want_cov = Cfull[ids.unsqueeze(-1), ids.unsqueeze(-2)]
    return idx, want_mean, want_cov, rank, kinds


def observe_indexed(d, idx, ctx, name="d[idx]"):
    """-> (is_mt, mean, covariance in the result's canonical (point, task) order, variance or None)."""
    with ctx.observing(name):
        s = d[idx]
        is_mt = isinstance(s, MT)
        mean = s.mean.clone()
        cov = s.covariance_matrix.clone()
        if is_mt:
            n2, t2 = mean.shape[-2:]
            if cov.shape[-1] == n2 * t2:
                cov = canonical_from_stored(cov, n2, t2, bool(s._interleaved))
    return is_mt, mean, cov, s


def coarse_index_class(kinds):
    """Coarse class of an (expanded) index for bucketing: kind of the point x task index, whether anything is negative
    or a slice starts past 0, and the kind of the batch index."""
    K = lambda k: "int" if k.endswith("int") else ("tensor" if k.endswith("tensor") else "slice")  # noqa: E731
    shifted = any(k in ("-int", "-tensor", "slice+") for k in kinds[-2:])
    b = f"|batch:{K(kinds[0])}" if len(kinds) > 2 and K(kinds[0]) != "slice" else ""
    return f"{K(kinds[-2])}x{K(kinds[-1])}|{'negative-or-shifted' if shifted else 'plain'}{b}"


def index_nontrivial(ast, n, t, inter):
    if n == t:
        return False
    if not inter:
        return True
    for e in ast:
        k = kind_of(e)
        if k in ("-int", "-tensor", "slice+"):
            return True
        if k == "slice0" and e["slice"][1] is not None and e["slice"][1] < 0:
            return True
    return False


def run_index(case, ctx: Ctx):
    n, t, batch, M, Cc = payload_of(case)
    inter = bool(case["inter"])
    ast, bare = case["idx"], bool(case.get("bare", False))
    tables = None if "cov" in case else seeded_tables(n, t, batch, int(case.get("payload", 0)))
    idx, want_mean, want_cov, rank, kinds = index_oracle(ast, bare, n, t, batch, M, Cc, tables)
    ctx.cls = f"{'inter' if inter else 'noninter'}|{coarse_index_class(kinds)}"
    common_labels(ctx, n, t, batch, inter, case.get("lazy"))
    ctx.label(f"idx={','.join(kinds[-2:])}", f"event_rank={rank}", "ellipsis" if "..." in ast else f"len(idx)={len(ast)}")
    if batch:
        ctx.label(f"batch_idx={kinds[0]}")
    ctx.set_nontrivial(index_nontrivial(ast, n, t, inter))
    d, *_ = build(case, ctx)
    is_mt, mean, cov, s = observe_indexed(d, idx, ctx)
    ctx.close("d[idx].mean = mean[idx]", mean, want_mean, rtol=0, atol=0)
    ctx.check("result type", is_mt == (rank == 2),
              f"got {'MultitaskMultivariateNormal' if is_mt else 'MultivariateNormal'} for an index with kinds {kinds}")
    if ctx.close("d[idx].covariance = C[sel, sel]", cov, want_cov, rtol=1e-12, atol=1e-12):
        # the result is a coherent distribution object: its own variance is the diagonal, laid out like its mean
        with ctx.observing("d[idx].variance"):
            var = s.variance.clone()
        ctx.close("d[idx].variance", var, want_cov.diagonal(dim1=-1, dim2=-2).reshape(want_mean.shape), rtol=1e-12, atol=1e-12)


def run_index_constructed(case, ctx: Ctx):
    """Indexing a distribution that came out of from_batch_mvn / from_independent_mvns (structured lazy covariance):
    the joint distribution is the payload with the cross-task covariances removed."""
    n, t, batch, M, Cc0 = payload_of(case)
    via = case["via"]
    ast, bare = case["idx"], bool(case.get("bare", False))
    K = Cc0.reshape(*batch, n, t, n, t)
    task_covs = [K[..., :, a, :, a].contiguous() for a in range(t)]  # (*batch, n, n) each
    Cc = independent_tasks_cov(task_covs, n, t, batch)
    idx, want_mean, want_cov, rank, kinds = index_oracle(ast, bare, n, t, batch, M, Cc)
    ctx.cls = f"{via}|{coarse_index_class(kinds)}"
    ctx.label("n!=t" if n != t else "n==t", f"via={via}", f"batch={tuple(batch)}", f"idx={','.join(kinds[-2:])}", f"event_rank={rank}")
    ctx.set_nontrivial(n != t)
    with ctx.observing(via):
        if via == "from_batch_mvn":
            d = MT.from_batch_mvn(_mk_mvn(M.movedim(-1, -2), torch.stack(task_covs, -3), case.get("lazy")), task_dim=-1)
        else:
            d = MT.from_independent_mvns([_mk_mvn(M[..., a], task_covs[a], case.get("lazy")) for a in range(t)])
    is_mt, mean, cov, s = observe_indexed(d, idx, ctx)
    ctx.close("d[idx].mean = mean[idx]", mean, want_mean, rtol=0, atol=0)
    ctx.check("result type", is_mt == (rank == 2),
              f"got {'MultitaskMultivariateNormal' if is_mt else 'MultivariateNormal'} for an index with kinds {kinds}")
    ctx.close("d[idx].covariance = C[sel, sel]", cov, want_cov, rtol=1e-12, atol=1e-12)


# ---- index families ----------------------------------------------------------------------------------
def slice_len(sl, size):
    return len(range(*slice(*sl).indices(size)))


def family(size, negative_tensor=True):
    """The per-dimension index family of the design (ints, slices start/stop in {None,0,1,2,-1,-2,size,size+3,-size-3}
    x step in {None,1,2}, index tensors) restricted to non-empty selections."""
    out = [{"int": k} for k in range(-size, size)]
    vals = []
    for v in [None, 0, 1, 2, -1, -2, size, size + 3, -size - 3]:
        if v not in vals:
            vals.append(v)
    for a, b, c in itertools.product(vals, vals, [None, 1, 2]):
        if slice_len([a, b, c], size) > 0:
            out.append({"slice": [a, b, c]})
    out += [{"tensor": [0]}, {"tensor": [size - 1, 0]}, {"tensor": [0, 0, size - 1]}]
    if negative_tensor:
        out.append({"tensor": [-1, 0]})
    return out


def reduced_family(size):
    out = [{"int": 0}, {"int": -1}, FULL, {"slice": [1, None, None]}, {"slice": [None, -1, None]}, {"slice": [None, None, 2]},
           {"slice": [-2, size + 3, 1]}, {"slice": [1, size + 3, 2]}, {"tensor": [size - 1, 0]}, {"tensor": [-1, 0, 0]}]
    return [e for e in out if "slice" not in e or slice_len(e["slice"], size) > 0]


def _is_tensor(e):
    return e != "..." and "tensor" in e


def _is_int(e):
    return e != "..." and "int" in e


def valid_index(ast, sizes):
    """Pure-python validity of an expression for a mean of shape ``sizes``: in the stated family, torch accepts it,
    and the result has >= 1 dimension and >= 1 element."""
    if len([e for e in ast if e == "..."]) > 1 or len(ast) - ("..." in ast) > len(sizes):
        return False
    full = expand_ast(ast, len(sizes))
    if any(_is_tensor(e) for e in full[:-2]) and any(_is_tensor(e) for e in full[-2:]):
        return False  # excluded combination (see module docstring / assumptions)
    tl = [len(e["tensor"]) for e in full if _is_tensor(e)]
    if len(tl) == 2 and tl[0] != tl[1] and 1 not in tl:
        return False  # torch cannot broadcast the two index tensors
    for e, size in zip(full, sizes):
        if _is_int(e) and not -size <= e["int"] < size:
            return False
        if _is_tensor(e) and not all(-size <= k < size for k in e["tensor"]):
            return False
        if not _is_int(e) and not _is_tensor(e) and slice_len(e["slice"], size) == 0:
            return False
    return bool(tl) or any(not _is_int(e) for e in full)


def enumerate_index(tier):
    """(shape, batch) x layouts x expressions; see EXH_NOTE."""
    thorough = tier == "thorough"
    shapes = [(3, 2)] if not thorough else [(3, 2), (2, 3), (4, 3), (1, 2), (2, 2)]
    for (n, t) in shapes:
        fn, ft, fb = family(n), family(t), family(2)
        rn, rt, rb = reduced_family(n), reduced_family(t), reduced_family(2)
        big = thorough and (n, t) == (3, 2)
        for inter in (True, False):
            seen = set()
            out = []

            def mk(batch, ast, bare=False):
                if not valid_index(ast, list(batch) + [n, t]):
                    return
                key = (batch, repr(ast), bare)
                if key in seen:
                    return
                seen.add(key)
                c = {"n": n, "t": t, "inter": inter, "payload": 0, "batch": list(batch), "idx": ast}
                if bare:
                    c["bare"] = True
                out.append(c)

            # ---- no batch
            for r in fn:
                for c in ft:
                    mk((), [r, c])  # the complete product
                mk((), [r])
                mk((), [r], bare=True)
                mk((), [r, "..."])
            for c in ft:
                mk((), ["...", c])
            mk((), ["..."])
            mk((), ["..."], bare=True)
            mk((), [])
            yield from out
            out = []
            for r in (fn if thorough else rn):
                for c in (ft if thorough else rt):
                    mk((), ["...", r, c])
                    mk((), [r, "...", c])
                    mk((), [r, c, "..."])
            yield from out
            out = []
            # ---- batch (2,)
            for b in fb:  # complete batch family x reduced (r, c)
                for r in rn:
                    for c in rt:
                        mk((2,), [b, r, c])
                    mk((2,), [b, r])
                    mk((2,), [b, r, "..."])
                for c in rt:
                    mk((2,), [b, "...", c])
                mk((2,), [b])
                mk((2,), [b], bare=True)
                mk((2,), [b, "..."])
            yield from out
            out = []
            # one batch index of each kind (quick) / the reduced family (thorough) / the complete one (thorough, 3x2)
            # x the complete (r, c) product
            kinds3 = [{"int": -1}, {"slice": [1, None, None]}, {"tensor": [1, 0]}]
            for b in (fb if big else (rb if thorough else kinds3)):
                for r in fn:
                    for c in ft:
                        mk((2,), [b, r, c])
                yield from out
                out = []
            for r in rn:
                for c in rt:
                    mk((2,), ["...", r, c])
            for c in rt:
                mk((2,), ["...", c])
            mk((2,), ["..."])
            mk((2,), [])
            yield from out


EXH_NOTE = ("index expressions on a 3x2 instance (thorough: also 2x3, 4x3, 1x2, 2x2), both layouts, restricted to non-empty "
            "non-scalar results. Per-dimension family F(size) = {ints -size..size-1; slices with start, stop in "
            "{None,0,1,2,-1,-2,size,size+3,-size-3} x step in {None,1,2}; index tensors [0], [size-1,0], [0,0,size-1], [-1,0]}; "
            "reduced family R = 10 representatives of every kind. No batch: the complete product (r, c) in F(n) x F(t), every (r,) "
            "(tuple and bare), (r, ...), (..., c), (...), (), and (..., r, c), (r, ..., c), (r, c, ...) over R x R (thorough: F x F). "
            "Batch (2,): (b, r, c) over F(2) x R x R and over {-1, 1:, tensor [1,0]} x F(n) x F(t) (thorough: R x F x F; F x F x F on "
            "3x2), (b,), bare b, (b, ...), (b, r), (b, r, ...), (b, ..., c), (..., r, c), (..., c), (...), (). Index tensors "
            "simultaneously in the batch and an event position are excluded")


# ---- sampled index expressions -----------------------------------------------------------------------
def _slice_strategy(size):
    bound = st.one_of(st.none(), st.integers(-size - 3, size + 3))

    def repair(a, b, c):
        # construct, don't filter: an empty draw is repaired by dropping stop, then start
        if slice_len([a, b, c], size) == 0:
            b = None
        if slice_len([a, b, c], size) == 0:
            a = None
        return {"slice": [a, b, c]}

    return st.builds(repair, bound, bound, st.sampled_from([None, 1, 2, 3]))


def _dim_strategy(size, allow_tensor=True):
    opts = [st.integers(-size, size - 1).map(lambda k: {"int": k}), _slice_strategy(size), _slice_strategy(size)]
    if allow_tensor:
        opts.append(st.lists(st.integers(-size, size - 1), min_size=1, max_size=3).map(lambda l: {"tensor": l}))
    return st.one_of(*opts)


@st.composite
def index_cases(draw):
    case = draw(dist_cases())
    n, t, batch = case["n"], case["t"], case["batch"]
    sizes = batch + [n, t]
    full = []
    batch_tensor = False
    for k, s in enumerate(sizes):
        e = draw(_dim_strategy(s, allow_tensor=not (batch_tensor and k >= len(batch))))
        if k < len(batch) and _is_tensor(e):
            batch_tensor = True
        if k == len(sizes) - 1 and _is_tensor(e) and _is_tensor(full[-1]):
            # point and task tensors are paired element-wise: give them one length (construct, don't filter)
            m = len(full[-1]["tensor"])
            e = {"tensor": (e["tensor"] * m)[:m]}
        full.append(e)
    if all(_is_int(e) for e in full):  # scalar result: make the point position a slice
        full[-2] = draw(_slice_strategy(n))
    form = draw(st.sampled_from(["full", "full", "full", "ellipsis", "short"]))
    ast = list(full)
    if form == "ellipsis":
        # replace a (possibly empty) run by '...': the positions it stands for become full slices
        i = draw(st.integers(0, len(full)))
        j = draw(st.integers(i, len(full)))
        ast = full[:i] + ["..."] + full[j:]
    elif form == "short":
        k = draw(st.integers(0, len(full) - 1))
        ast = full[:k]
    # re-establish a non-scalar result after dropping positions is automatic (dropped positions are full slices)
    case["idx"] = ast
    case["bare"] = draw(st.booleans()) if len(ast) == 1 else False
    return case


@st.composite
def index_constructed_cases(draw):
    case = draw(index_cases())
    case.pop("inter")
    via = draw(st.sampled_from(["from_batch_mvn", "from_independent_mvns"] if case["t"] >= 2 else ["from_batch_mvn"]))
    case["via"] = via
    return case


# ---------------------------------------------------------------------------------------------------
# mt.layouts_agree (metamorphic): the same joint distribution stored in the other layout gives identical answers
# ---------------------------------------------------------------------------------------------------
@st.composite
def agree_cases(draw):
    case = draw(index_cases())
    case.pop("inter")
    vb = draw(st.sampled_from([case["batch"], [2] + case["batch"]]))
    case["value_batch"] = vb
    case["value"] = _values(draw, vb + [case["n"], case["t"]])
    return case


def run_layouts_agree(case, ctx: Ctx):
    n, t, batch, M, Cc = payload_of(case)
    ctx.cls = f"{'n!=t' if n != t else 'n==t'}|batch{len(batch)}"
    ctx.label("n!=t" if n != t else "n==t", f"batch={tuple(batch)}", f"shape={n}x{t}")
    ctx.set_nontrivial(n != t)
    d1, *_ = build(case, ctx, inter=True, what="construct(interleaved)")
    d2, *_ = build(case, ctx, inter=False, what="construct(non-interleaved)")
    with ctx.observing("mean/variance"):
        m1, m2, v1, v2 = d1.mean.clone(), d2.mean.clone(), d1.variance.clone(), d2.variance.clone()
    ctx.close("agree.mean", m2, m1, rtol=0, atol=0)
    ctx.close("agree.variance", v2, v1)
    v = torch.tensor(case["value"], dtype=torch.float64).reshape(*case["value_batch"], n, t)
    with ctx.observing("log_prob"):
        l1, l2 = d1.log_prob(v.clone()), d2.log_prob(v.clone())
    ctx.close("agree.log_prob", l2, l1, rtol=RT_SOLVE, atol=AT_SOLVE)
    with ctx.observing("to_data_independent_dist"):
        t1, t2 = d1.to_data_independent_dist(), d2.to_data_independent_dist()
        c1, c2 = t1.covariance_matrix.clone(), t2.covariance_matrix.clone()
        tm1, tm2 = t1.mean.clone(), t2.mean.clone()
    ctx.close("agree.to_data_independent_dist.mean", tm2, tm1, rtol=0, atol=0)
    ctx.close("agree.to_data_independent_dist.covariance", c2, c1)
    G1 = linear_map(d1, ctx, n, t, batch, M, name="rsample(base_samples=identity)[interleaved]")
    G2 = linear_map(d2, ctx, n, t, batch, M, name="rsample(base_samples=identity)[non-interleaved]")
    if G1 is not None and G2 is not None:
        ctx.close("agree.rsample gram", G2 @ G2.transpose(-1, -2), G1 @ G1.transpose(-1, -2), rtol=RT_SOLVE, atol=AT_SOLVE)
    # indexing
    ast, bare = case["idx"], bool(case.get("bare", False))
    idx, want_mean, _, rank, kinds = index_oracle(ast, bare, n, t, batch, M, Cc)
    ctx.cls = coarse_index_class(kinds)
    ctx.label(f"idx={','.join(kinds[-2:])}")
    r1 = observe_indexed(d1, idx, ctx, name="d[idx][interleaved]")
    r2 = observe_indexed(d2, idx, ctx, name="d[idx][non-interleaved]")
    ctx.equal("agree.getitem.type", r2[0], r1[0])
    ctx.close("agree.getitem.mean", r2[1], r1[1], rtol=0, atol=0)
    ctx.close("agree.getitem.covariance", r2[2], r1[2], rtol=1e-12, atol=1e-12)


# ---------------------------------------------------------------------------------------------------
# constructors
# ---------------------------------------------------------------------------------------------------
def _spd_list(draw, count, n):
    r = min(n, 3)
    out = []
    for _ in range(count):
        a = draw(st.lists(Q, min_size=n * r, max_size=n * r))
        dd = draw(st.lists(st.integers(2, 8), min_size=n, max_size=n))
        out.append(_spd_from_ints(a, dd, n, r))
    return torch.stack(out)


def _mk_mvn(mean, cov, lazy):
    return MVN(mean.clone(), DenseLinearOperator(cov.clone()) if lazy else cov.clone())


def check_constructed(ctx, d, want_mean, want_cc, n, t, batch, value):
    """d must be the MT with canonical mean (*batch, n, t) and canonical covariance (*batch, nt, nt)."""
    with ctx.observing("result"):
        is_mt = isinstance(d, MT)
        ev, bs = tuple(d.event_shape), tuple(d.batch_shape)
        mean = d.mean.clone()
    ctx.check("returns a MultitaskMultivariateNormal", is_mt, f"got {type(d).__name__}")
    ok = ctx.equal("event_shape", ev, (n, t)) and ctx.equal("batch_shape", bs, tuple(batch))
    if not ctx.close("mean", mean, want_mean, rtol=0, atol=0) or not ok:
        return
    with ctx.observing("variance/covariance"):
        var = d.variance.clone()
        stored = d.covariance_matrix.clone()
        inter = bool(d._interleaved)
    ctx.close("variance", var, want_cc.diagonal(dim1=-1, dim2=-2).reshape(*batch, n, t))
    if ctx.equal("covariance shape", tuple(stored.shape), (*batch, n * t, n * t)):
        ctx.close("covariance (read in the result's layout)", canonical_from_stored(stored, n, t, inter), want_cc)
    G = linear_map(d, ctx, n, t, batch, want_mean)
    if G is not None:
        ctx.close("gram(G)=C", G @ G.transpose(-1, -2), want_cc, rtol=RT_SOLVE, atol=AT_SOLVE)
    v = torch.tensor(value, dtype=torch.float64).reshape(*batch, n, t)
    with ctx.observing("log_prob"):
        lp = d.log_prob(v.clone())
    ctx.close("log_prob", lp, dense_log_prob(v, want_mean, want_cc), rtol=RT_SOLVE, atol=AT_SOLVE)
    with ctx.observing("to_data_independent_dist"):
        tc = d.to_data_independent_dist(jitter_val=0.25).covariance_matrix.clone()
    ctx.close("to_data_independent_dist.covariance", tc, point_blocks(want_cc, n, t, batch) + 0.25 * torch.eye(t, dtype=torch.float64))


def independent_tasks_cov(task_covs, n, t, batch):
    """task_covs[a]: (*batch, n, n) -> canonical (*batch, nt, nt) with Cov[(i,a),(j,b)] = delta_ab C_a[i,j]."""
    out = torch.zeros(*batch, n * t, n * t, dtype=torch.float64)
    for a in range(t):
        for i in range(n):
            for j in range(n):
                out[..., i * t + a, j * t + a] = task_covs[a][..., i, j]
    return out


CTOR_SHAPES = [(3, 2)] * 3 + [(2, 3)] * 3 + [(4, 3), (4, 2), (1, 2), (1, 3), (3, 1), (2, 1), (4, 1), (2, 2), (3, 3), (2, 2), (1, 1)]


@st.composite
def from_batch_cases(draw):
    n, t = draw(st.sampled_from(CTOR_SHAPES))
    layout = draw(st.sampled_from(["t", "2t", "t2", "3t", "t3"]))
    bshape = {"t": [t], "2t": [2, t], "t2": [t, 2], "3t": [3, t], "t3": [t, 3]}[layout]
    pos = 0 if layout[0] == "t" else 1
    task_dim = draw(st.sampled_from([pos, pos - len(bshape)]))
    if pos == len(bshape) - 1 and draw(st.booleans()):
        task_dim = None  # documented default task_dim=-1
    B = 1
    for b in bshape:
        B *= b
    cov = _spd_list(draw, B, n).reshape(*bshape, n, n)
    return {"n": n, "t": t, "bshape": bshape, "task_pos": pos, "task_dim": task_dim, "lazy": draw(st.booleans()),
            "mean": _values(draw, bshape + [n]), "cov": cov.tolist(),
            "value": _values(draw, [b for k, b in enumerate(bshape) if k != pos] + [n, t])}


def run_from_batch(case, ctx: Ctx):
    n, t, bshape, pos = case["n"], case["t"], list(case["bshape"]), case["task_pos"]
    batch = [b for k, b in enumerate(bshape) if k != pos]
    ctx.cls = f"{'n!=t' if n != t else 'n==t'}|bshape_rank{len(bshape)}|task_pos{pos}"
    ctx.label("n!=t" if n != t else "n==t", f"shape={n}x{t}", f"mvn_batch_rank={len(bshape)}", f"task_dim={case['task_dim']}",
              f"lazy={case['lazy']}")
    ctx.set_nontrivial(n != t)
    m = torch.tensor(case["mean"], dtype=torch.float64).reshape(*bshape, n)
    C = torch.tensor(case["cov"], dtype=torch.float64).reshape(*bshape, n, n)
    with ctx.observing("from_batch_mvn"):
        mvn = _mk_mvn(m, C, case["lazy"])
        d = MT.from_batch_mvn(mvn) if case["task_dim"] is None else MT.from_batch_mvn(mvn, task_dim=case["task_dim"])
    want_mean = m.movedim(pos, -1)  # (*batch, n, t)
    Cm = C.movedim(pos, 0)  # (t, *batch, n, n)
    want_cc = independent_tasks_cov([Cm[a] for a in range(t)], n, t, batch)
    check_constructed(ctx, d, want_mean, want_cc, n, t, batch, case["value"])


@st.composite
def from_independent_cases(draw):
    n, t = draw(st.sampled_from([s for s in CTOR_SHAPES if s[1] >= 2]))
    batches = draw(st.sampled_from([[[]] * t, [[2]] * t, [[2]] + [[]] * (t - 1), [[]] * (t - 1) + [[2]], [[1]] + [[2]] * (t - 1)]))
    mvns = []
    for a in range(t):
        b = batches[a]
        B = 2 if b == [2] else 1
        mvns.append({"batch": b, "mean": _values(draw, b + [n]), "cov": _spd_list(draw, B, n).reshape(*b, n, n).tolist(),
                     "lazy": draw(st.booleans())})
    out_batch = [2] if any(b == [2] for b in batches) else ([1] if any(b == [1] for b in batches) else [])
    return {"n": n, "t": t, "mvns": mvns, "batch": out_batch, "as_tuple": draw(st.booleans()),
            "value": _values(draw, out_batch + [n, t])}


def run_from_independent(case, ctx: Ctx):
    n, t, batch = case["n"], case["t"], list(case["batch"])
    same = all(m["batch"] == case["mvns"][0]["batch"] for m in case["mvns"])
    ctx.cls = f"{'n!=t' if n != t else 'n==t'}|batch{len(batch)}|{'same' if same else 'broadcast'}"
    ctx.label("n!=t" if n != t else "n==t", f"shape={n}x{t}", f"batch={tuple(batch)}", f"batch_shapes={'same' if same else 'broadcast'}")
    ctx.set_nontrivial(n != t)
    ms = [torch.tensor(m["mean"], dtype=torch.float64).reshape(*m["batch"], n) for m in case["mvns"]]
    Cs = [torch.tensor(m["cov"], dtype=torch.float64).reshape(*m["batch"], n, n) for m in case["mvns"]]
    with ctx.observing("from_independent_mvns"):
        mvns = [_mk_mvn(m, C, spec["lazy"]) for m, C, spec in zip(ms, Cs, case["mvns"])]
        d = MT.from_independent_mvns(tuple(mvns) if case["as_tuple"] else mvns)
    want_mean = torch.stack([m.expand(*batch, n) for m in ms], -1)
    want_cc = independent_tasks_cov([C.expand(*batch, n, n) for C in Cs], n, t, batch)
    check_constructed(ctx, d, want_mean, want_cc, n, t, batch, case["value"])


@st.composite
def from_repeated_cases(draw):
    n, t = draw(st.sampled_from(CTOR_SHAPES))
    b = draw(st.sampled_from([[], [2], [3]]))
    B = b[0] if b else 1
    return {"n": n, "t": t, "batch": b, "lazy": draw(st.booleans()), "mean": _values(draw, b + [n]),
            "cov": _spd_list(draw, B, n).reshape(*b, n, n).tolist(), "value": _values(draw, b + [n, t])}


def run_from_repeated(case, ctx: Ctx):
    n, t, batch = case["n"], case["t"], list(case["batch"])
    ctx.cls = f"{'n!=t' if n != t else 'n==t'}|batch{len(batch)}"
    ctx.label("n!=t" if n != t else "n==t", f"shape={n}x{t}", f"batch={tuple(batch)}", f"lazy={case['lazy']}")
    ctx.set_nontrivial(n != t)
    m = torch.tensor(case["mean"], dtype=torch.float64).reshape(*batch, n)
    C = torch.tensor(case["cov"], dtype=torch.float64).reshape(*batch, n, n)
    with ctx.observing("from_repeated_mvn"):
        d = MT.from_repeated_mvn(_mk_mvn(m, C, case["lazy"]), num_tasks=t)
    want_mean = m.unsqueeze(-1).expand(*batch, n, t)
    want_cc = independent_tasks_cov([C] * t, n, t, batch)
    check_constructed(ctx, d, want_mean, want_cc, n, t, batch, case["value"])


# ---------------------------------------------------------------------------------------------------
RULE = ("cases = a joint Gaussian over n x t outputs (n <= 4, t <= 3, batch in {(), (2,)}) given in (point, task) coordinates, "
        "stored in the interleaved or the non-interleaved layout (dense tensor or DenseLinearOperator), plus values / base samples / "
        "an index expression / constructor inputs. Non-trivial = n != t and (interleaved=False, or the index contains a slice with "
        "start != 0 or a negative stop, a negative integer or a negative index-tensor entry); for the constructor and the "
        "layout-agreement sub-checks non-trivial = n != t. distinct = distinct canonical case.")

SPEC = PropertySpec(
    pid="C11",
    rule=RULE,
    assumptions=[
        "float64, CPU; covariances are SPD with condition number < 1e3 by construction (A A^T + diag(d))",
        "index expressions: ints, slices with positive step, 1-d integer index tensors, one ellipsis, results with >= 1 dimension and "
        ">= 1 element; index tensors simultaneously in a batch position and an event position are excluded (no single reading of "
        "'marginal' applies)",
        "an integer in both the point and the task position turns the trailing batch dimension into the event with independent "
        "components (batch members are independent distributions)",
        "rsample() without base samples is judged through sample moments (4000 draws, 6 standard errors) under a drawn torch seed",
    ],
    subchecks=[
        Subcheck("mt.moments", run_moments, strategy=dist_cases, quick=1500, thorough=20000, min_shard=100),
        Subcheck("mt.log_prob", run_log_prob, strategy=log_prob_cases, quick=2500, thorough=40000, min_shard=100),
        Subcheck("mt.rsample_base", run_rsample_base, strategy=rsample_base_cases, quick=1500, thorough=20000, min_shard=100),
        Subcheck("mt.rsample_moments", run_rsample_moments, strategy=rsample_moment_cases, quick=800, thorough=10000, min_shard=50),
        Subcheck("mt.data_independent", run_data_independent, strategy=data_indep_cases, quick=1500, thorough=20000, min_shard=100),
        Subcheck("mt.layouts_agree", run_layouts_agree, strategy=agree_cases, quick=1500, thorough=30000, min_shard=100),
        Subcheck("ctor.from_batch_mvn", run_from_batch, strategy=from_batch_cases, quick=1500, thorough=20000, min_shard=100),
        Subcheck("ctor.from_independent_mvns", run_from_independent, strategy=from_independent_cases, quick=1500, thorough=20000,
                 min_shard=100),
        Subcheck("ctor.from_repeated_mvn", run_from_repeated, strategy=from_repeated_cases, quick=1000, thorough=15000, min_shard=100),
        Subcheck("index.sampled", run_index, strategy=index_cases, quick=4000, thorough=100000, min_shard=200),
        Subcheck("index.constructed", run_index_constructed, strategy=index_constructed_cases, quick=2000, thorough=30000, min_shard=100),
        Subcheck("index.exhaustive", run_index, enumerate=enumerate_index, exhaustive_note=EXH_NOTE),
    ],
)

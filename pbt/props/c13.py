"""C13 - non-Gaussian likelihoods: exact Gauss-Hermite rule, analytic Bernoulli marginal, log_normal_cdf.

Sub-checks (all oracles are float64 numpy / scipy / math code written from the documented formulas):

* ``gh.poly_exact``      Q_L[p] = E_{N(m,v)}[p] for every polynomial p of degree <= 2L-1, L in 1..40, batch-shaped m, v,
                         Normal / MultivariateNormal (dense diagonal, correlated, lazy diagonal) inputs, quadrature built by
                         the explicit constructor or under ``settings.num_gauss_hermite_locs(L)``.  Oracle: the moment
                         recurrence E[x^k] = m E[x^(k-1)] + (k-1) v E[x^(k-2)].
* ``gh.degree_2L``       the rule is NOT exact in degree 2L (guards the previous sub-check against vacuity): the rule
                         annihilates He_L((x-m)/sqrt v)^2 whose true integral is L!, and the monomial x^(2L) is under-integrated
                         by exactly L! v^L.
* ``lik.integrals``      expected_log_prob / log_marginal of Bernoulli, Laplace, Student-t, Beta at L in {10, 20, 40, 160}
                         against scipy.integrate.quad of the documented conditional density (envelope policy, see ENV).
* ``lik.conditional``    the conditional distributions have the documented type, parameters and log-density.
* ``bernoulli.marginal`` probs = Phi(m / sqrt(1+v)) to 1e-12; log_marginal = log of it.
* ``lncdf.generated`` / ``lncdf.grid``   log_normal_cdf vs scipy.special.log_ndtr and its derivative vs phi/Phi.
* ``softmax.mixing``     SoftmaxLikelihood: conditional = Categorical(softmax(W f)); the sampled marginal, expected_log_prob
                         and log_marginal equal an independent computation from the same base samples (fixed torch seed).
* ``doc.frozen``         the frozen documented statements this module judges against are what the docstrings say (F8).

Frozen documented statements (what the docstrings say at the pinned commit *after* fixes/F8_beta_likelihood.patch):
    Bernoulli  p(Y=y|f) = Phi((2y-1) f)
    Laplace    Laplace(loc=f, scale=sqrt(noise))       (docstring only names the noise parameter; scale^2 = noise is the
                                                        convention of the Student-t docstring "sigma^2 - the noise")
    Student-t  StudentT(df=nu, loc=f, scale=sqrt(noise))      ("sigma^2 - the noise")
    Beta       Beta(alpha = sigma(f) s + 1, beta = (1 - sigma(f)) s + 1)        <- F8: the unpatched docstring says
               Beta(sigma(f) s, (1 - sigma(f)) s) while forward() has always added the offset of one.
    Softmax    p(y|f) = Softmax(W f)
"""
from __future__ import annotations

import math

import numpy as np
import scipy.integrate
import scipy.special
import torch
from hypothesis import strategies as st

import gpytorch
from gpytorch import settings as S
from gpytorch.distributions import MultitaskMultivariateNormal, MultivariateNormal
from gpytorch.functions import log_normal_cdf
from gpytorch.likelihoods import (
    BernoulliLikelihood,
    BetaLikelihood,
    LaplaceLikelihood,
    SoftmaxLikelihood,
    StudentTLikelihood,
)
from gpytorch.utils.quadrature import GaussHermiteQuadrature1D

from pbt.core import Ctx, Discard, PropertySpec, Subcheck

EPS = 2.220446049250313e-16
SQRT2PI = math.sqrt(2.0 * math.pi)


# ====================================================================================================
# small helpers
# ====================================================================================================
def _target(value: float, label: str):
    """hypothesis.target, silently skipped outside a Hypothesis test (replay / enumeration)."""
    import hypothesis

    try:
        in_test = hypothesis.currently_in_test_context()
    except Exception:  # noqa: BLE001
        in_test = False
    if in_test and math.isfinite(value):
        hypothesis.target(float(value), label=label)


def _within(ctx: Ctx, name: str, got, want, tol, cls=None) -> bool:
    """|got - want| <= tol elementwise (tol is a tensor / array / float); shapes must agree exactly."""
    got = torch.as_tensor(got).detach().to(torch.float64)
    want = torch.as_tensor(want, dtype=torch.float64)
    ctx.comparisons += 1
    if tuple(got.shape) != tuple(want.shape):
        ctx.fail(name, "shape", f"got shape {tuple(got.shape)}, expected {tuple(want.shape)}", cls)
        return False
    tol = torch.as_tensor(tol, dtype=torch.float64).expand(want.shape)
    err = (got - want).abs()
    bad = ~(err <= tol)
    if bool(bad.any()):
        ratio = torch.where(bad, (err / tol.clamp_min(1e-300)).nan_to_num(nan=float("inf")), torch.zeros_like(err))
        i = int(ratio.reshape(-1).argmax())
        ctx.fail(name, "value",
                 f"|err|={float(err.reshape(-1)[i]):.3e} > tol={float(tol.reshape(-1)[i]):.3e} (got={float(got.reshape(-1)[i]):.12g}, "
                 f"want={float(want.reshape(-1)[i]):.12g}, element {i} of {err.numel()})", cls)
        return False
    return True


def lattice(lo: float, hi: float, step: float = 0.25):
    n_lo, n_hi = int(math.ceil(lo / step)), int(math.floor(hi / step))
    return st.one_of(st.integers(n_lo, n_hi).map(lambda k: k * step),
                     st.floats(lo, hi, allow_nan=False, allow_infinity=False))


def positive(lo: float, hi: float, anchors):
    return st.one_of(st.sampled_from([a for a in anchors if lo <= a <= hi]),
                     st.floats(lo, hi, allow_nan=False, allow_infinity=False))


# ====================================================================================================
# Gaussian inputs shared by the quadrature sub-checks
# ====================================================================================================
DIST_KINDS = ("normal", "mvn", "mvn_corr", "mvn_lazy")
SHAPES = ([], [1], [3], [2, 2], [2, 1, 2], [5])


def build_dist(kind: str, shape, m, v):
    """A distribution whose marginals are N(m_i, v_i) (tensors of the given shape) and the tensors themselves."""
    mt = torch.tensor(m, dtype=torch.float64).reshape(shape)
    vt = torch.tensor(v, dtype=torch.float64).reshape(shape)
    if kind == "normal":
        return torch.distributions.Normal(mt, vt.sqrt()), mt, vt
    if kind == "mvn":
        return MultivariateNormal(mt, torch.diag_embed(vt)), mt, vt
    if kind == "mvn_corr":  # correlation 1/2 between all pairs; only the marginal variances may matter
        sd = vt.sqrt()
        cov = 0.5 * sd.unsqueeze(-1) * sd.unsqueeze(-2) + torch.diag_embed(0.5 * vt)
        return MultivariateNormal(mt, cov), mt, vt
    if kind == "mvn_lazy":
        from linear_operator.operators import DiagLinearOperator

        return MultivariateNormal(mt, DiagLinearOperator(vt)), mt, vt
    raise KeyError(kind)


def make_quadrature(L: int, via: str):
    if via == "ctor":
        return GaussHermiteQuadrature1D(num_locs=L)
    with S.num_gauss_hermite_locs(L):
        return GaussHermiteQuadrature1D()


def abs_moments(kmax: int, m: np.ndarray, v: np.ndarray):
    """E_j = E[x^j] for x ~ N(|m|, v), j = 0..kmax (all terms positive: no cancellation), as a list of arrays."""
    a = np.abs(m)
    e = [np.ones_like(a), a.copy()]
    for j in range(2, kmax + 1):
        e.append(a * e[j - 1] + (j - 1) * v * e[j - 2])
    return e


# ---------------------------------------------------------------------------------------------------
# gh.poly_exact
# ---------------------------------------------------------------------------------------------------
def run_poly(case, ctx: Ctx):
    L, via, kind, shape = case["L"], case["via"], case["dist"], case["shape"]
    terms = [(int(j), float(c)) for j, c in case["terms"]]
    deg = max(j for j, _ in terms)
    assert deg <= 2 * L - 1
    ctx.cls = f"{kind}|{via}"
    m = np.array(case["m"], dtype=np.float64).reshape(shape)
    v = np.array(case["v"], dtype=np.float64).reshape(shape)

    # oracle: moments of N(|m|, v); E_m[x^j] = sign(m)^j E_|m|[x^j]; E|x|^j <= E_|m|[x^j] (j even), Lyapunov for odd j
    e = abs_moments(deg + 1, m, v)
    sgn = np.where(m < 0, -1.0, 1.0)
    want = np.zeros_like(m)
    scale = np.zeros_like(m)
    for j, c in terms:
        want = want + c * (sgn ** j) * e[j]
        scale = scale + abs(c) * (e[j] if j % 2 == 0 else e[j + 1] ** (j / (j + 1.0)))

    with ctx.observing("quadrature"):
        dist, mt, vt = build_dist(kind, shape, case["m"], case["v"])
        if case.get("call_inside", False) and via == "setting":
            with S.num_gauss_hermite_locs(L):
                quad = GaussHermiteQuadrature1D()
                got = quad(lambda x: sum(c * x ** j for j, c in terms), dist)
        else:
            quad = make_quadrature(L, via)
            got = quad(lambda x: sum(c * x ** j for j, c in terms), dist)
        num_locs = int(quad.num_locs)
        nloc = tuple(quad.locations.shape)
    ctx.equal("num_locs", (num_locs, nloc), (L, (L,)))
    # tolerance (DESIGN C13): 1e-10 * sum_j |c_j| E|x|^j  - the unchanged tree sits at <= 2e-14 of that scale for L <= 40
    _within(ctx, "polynomial_exact", got, want, 1e-10 * scale + 1e-280)  # 1e-280: subnormal coefficients
    ctx.label(f"L={'1-5' if L <= 5 else '6-20' if L <= 20 else '21-40'}", f"dist={kind}", f"via={via}",
              f"deg={'>=L' if deg >= L else '<L'}", f"deg=2L-1:{deg == 2 * L - 1}", f"rank={len(shape)}",
              f"v>=1:{bool((v >= 1).any())}")
    ctx.set_nontrivial(deg >= L)


def poly_strategy():
    def for_L(L):
        deg = st.one_of(st.just(2 * L - 1), st.integers(L, 2 * L - 1), st.integers(0, 2 * L - 1))

        def for_deg(k):
            coef = lattice(-3, 3)
            lead = coef.filter(lambda c: c != 0)
            others = st.lists(st.tuples(st.integers(0, k), coef), max_size=3)
            return st.tuples(lead, others).map(lambda t: [[k, t[0]]] + [[j, c] for j, c in t[1]])

        return st.tuples(st.just(L), deg.flatmap(for_deg))

    def build(Lterms, via, inside, kind, shape, data):
        L, terms = Lterms
        if kind != "normal" and len(shape) == 0:
            shape = [2]
        n = int(np.prod(shape)) if shape else 1
        ms = data.draw(st.lists(lattice(-5, 5), min_size=n, max_size=n))
        vs = data.draw(st.lists(positive(1e-4, 20.0, [1e-4, 0.01, 0.25, 1.0, 2.0, 4.0, 20.0]), min_size=n, max_size=n))
        return {"L": L, "via": via, "call_inside": inside, "dist": kind, "shape": shape, "m": ms, "v": vs, "terms": terms}

    L = st.one_of(st.integers(1, 40), st.sampled_from([1, 2, 3, 20, 39, 40]))
    return st.builds(build, L.flatmap(for_L), st.sampled_from(["ctor", "setting"]), st.booleans(), st.sampled_from(DIST_KINDS),
                     st.sampled_from(SHAPES), st.data())


# ---------------------------------------------------------------------------------------------------
# gh.degree_2L  (the rule is not exact in degree 2L, and its defect is the one theory predicts)
# ---------------------------------------------------------------------------------------------------
def run_degree_2L(case, ctx: Ctx):
    L, via, kind = case["L"], case["via"], case["dist"]
    v = float(case["v"])
    m = float(case["mu"]) * math.sqrt(v)
    ctx.cls = f"{kind}|{via}"
    shape = [] if kind == "normal" else [1]
    lfact = float(math.factorial(L))

    def he_sq(x):  # probabilists' Hermite polynomial He_L((x-m)/sqrt v), squared: degree exactly 2L, E = L!
        t = (x - m) / math.sqrt(v)
        a, b = torch.ones_like(t), t
        for n in range(1, L):
            a, b = b, t * b - n * a
        return b * b

    with ctx.observing("quadrature"):
        dist, _, _ = build_dist(kind, shape, [m], [v])
        quad = make_quadrature(L, via)
        got_sq = quad(he_sq, dist).reshape(())
        got_mono = quad(lambda x: x ** (2 * L), dist).reshape(())
    # (a) the L nodes are the roots of He_L((x-m)/sqrt v): the rule returns 0 where the integral is L!  (unchanged tree: <= 3e-26 L!)
    _within(ctx, "rule_annihilates_squared_node_polynomial(true integral L!)", got_sq / lfact, 0.0, 1e-8)
    # (b) x^(2L) = pi_L(x)^2 + (degree <= 2L-1), so E[x^(2L)] - Q[x^(2L)] = ||pi_L||^2 = L! v^L exactly.
    e = abs_moments(2 * L, np.array(m), np.array(v))
    exact = float(e[2 * L])
    defect = lfact * v ** L
    visible = defect / exact >= 1e-6  # rounding of Q is ~1e-14 * exact, so the defect is then measured to ~1e-8
    if visible:
        ctx.close("monomial_2L_defect_is_L!v^L", (exact - float(got_mono)) / defect, 1.0, rtol=1e-5, atol=0.0)
        ctx.check("degree_2L_not_exact", abs(float(got_mono) - exact) > 1e-8 * exact,
                  f"x^{2 * L} integrated exactly: got {float(got_mono):.15g}, E = {exact:.15g}")
    ctx.label(f"2L:L={'1-5' if L <= 5 else '6-20' if L <= 20 else '21-40'}", f"2L:monomial_defect_visible={visible}")
    ctx.set_nontrivial(True)


def degree_2L_strategy():
    return st.builds(lambda L, via, kind, mu, v: {"L": L, "via": via, "dist": kind, "mu": mu, "v": v},
                     st.integers(1, 40), st.sampled_from(["ctor", "setting"]), st.sampled_from(["normal", "mvn", "mvn_lazy"]),
                     lattice(-1, 1), positive(1e-4, 20.0, [1e-4, 0.01, 0.25, 1.0, 4.0, 20.0]))


# ====================================================================================================
# documented conditional densities (independent of torch.distributions and of the library)
# ====================================================================================================
LIK_CLASSES = {"bernoulli": BernoulliLikelihood, "laplace": LaplaceLikelihood, "studentt": StudentTLikelihood,
               "beta": BetaLikelihood}
# F8: documented (after fixes/F8_beta_likelihood.patch) Beta(sigma(f) s + BETA_OFFSET, (1 - sigma(f)) s + BETA_OFFSET)
BETA_OFFSET = 1.0


def beta_params(f: float, s: float):
    mix = 1.0 / (1.0 + math.exp(-f))
    return mix * s + BETA_OFFSET, (1.0 - mix) * s + BETA_OFFSET


def logdens(name: str, p: dict, y: float):
    """f -> log p(y | f) for the documented conditional density (plain Python floats)."""
    if name == "bernoulli":
        s = 2.0 * y - 1.0
        return lambda f: float(scipy.special.log_ndtr(s * f))
    if name == "laplace":
        b = math.sqrt(p["noise"])
        return lambda f: -math.log(2.0 * b) - abs(y - f) / b
    if name == "studentt":
        nu, sc = p["nu"], math.sqrt(p["noise"])
        c = math.lgamma((nu + 1.0) / 2.0) - math.lgamma(nu / 2.0) - 0.5 * math.log(nu * math.pi) - math.log(sc)
        return lambda f: c - (nu + 1.0) / 2.0 * math.log1p(((y - f) / sc) ** 2 / nu)
    if name == "beta":
        s = p["scale"]
        ly, l1y = math.log(y), math.log1p(-y)

        def g(f):
            a, b = beta_params(f, s)
            return math.lgamma(a + b) - math.lgamma(a) - math.lgamma(b) + (a - 1.0) * ly + (b - 1.0) * l1y

        return g
    raise KeyError(name)


def _gauss_integral(g, m: float, v: float, pts, epsabs: float):
    s = math.sqrt(v)
    lo, hi = m - 12.0 * s, m + 12.0 * s  # the mass beyond 12 sd is 3.6e-33
    cand, pts = sorted({x for x in list(pts) + [m] if lo < x < hi}), []
    for x in cand:  # break points closer than 1e-6 sd would create degenerate panels
        if not pts or x - pts[-1] > 1e-6 * s:
            pts.append(x)
    val, err = scipy.integrate.quad(lambda x: g(x) * math.exp(-0.5 * ((x - m) / s) ** 2) / (s * SQRT2PI), lo, hi,
                                    epsabs=epsabs, epsrel=1e-12, limit=400, points=pts)
    return val, err


def integral_oracle(name: str, p: dict, y: float, m: float, v: float):
    """(E_{N(m,v)} log p(y|f), log E_{N(m,v)} p(y|f)) by adaptive quadrature, with quad's own error estimates."""
    g = logdens(name, p, y)
    pts = [y] if name in ("laplace", "studentt") else [0.0]  # the kink of the Laplace density / the peak
    e, e_err = _gauss_integral(g, m, v, pts, 1e-13)
    pm, pm_err = _gauss_integral(lambda f: math.exp(g(f)), m, v, pts, 0.0)
    return e, math.log(pm), e_err, pm_err / pm


# ---------------------------------------------------------------------------------------------------
# lik.integrals: envelope policy (DESIGN C13)
# ---------------------------------------------------------------------------------------------------
# Domain of the generator (and of the calibration): m in [-3, 3]; rho = sqrt(v) / width in [0.05, 3] where `width` is the
# length scale of the conditional density in f (Bernoulli 1, Laplace / Student-t sqrt(noise), Beta 1 / (1 + s/4));
# noise in [0.05, 2], nu in [2.2, 30], Beta scale in [0.5, 20]; y in [-4, 4] (Beta [0.02, 0.98], Bernoulli {0, 1}).
# The truncation error of an L-node rule depends on rho, so the envelope is tabulated per likelihood, quantity and rho-bin.
# ENV = 5 x the largest error seen at the default L = 20 on the unchanged tree (`python -m pbt.props.c13 calibrate`:
# 4 x 20 000 points per likelihood, corners, bin edges and kink-on-node alignments over-weighted).
# Assertions: err(L=20) <= ENV, err(L=40) <= ENV, err(L=160) <= ENV / 5 ("shrinking as nodes are added" is asserted only between 20 and 160), never below FLOOR.
RHO_BINS = (0.25, 0.5, 1.0, 2.0, 3.0)
M_RANGE = (-3.0, 3.0)
RHO_RANGE = (0.05, 3.0)
NOISE_RANGE = (0.05, 2.0)
NU_RANGE = (2.2, 30.0)
SCALE_RANGE = (0.5, 20.0)
Y_RANGE = (-4.0, 4.0)
YB_RANGE = (0.02, 0.98)
FLOOR = 1e-8  # accuracy of the scipy.quad oracle (its own estimates stay below 1e-10) with a margin
LNCDF_SPEC = 2e-3  # Bernoulli's expected_log_prob integrates log_normal_cdf, which the property allows to be 2e-3 off
ENV = {  # 5 x the maxima measured on the unchanged tree at L = 20 (4 x 20 000 points per likelihood), per rho-bin
    # Bernoulli: truncation error of the rule on the exact log Phi (LNCDF_SPEC is added on top, see run_integrals);
    # its log_marginal is analytic and is compared at 1e-9.
    "bernoulli": {"elp": (1.3e-13, 3.1e-14, 1.2e-09, 2.4e-05, 9.1e-04)},
    # the kink of the Laplace density makes the rule converge like 1/L and non-monotonically (measured maxima at
    # L = 10 / 20 / 40 / 160 in the last bin: 0.17 / 0.093 / 0.048 / 0.012)
    "laplace": {"elp": (3.9e-02, 7.7e-02, 1.6e-01, 3.1e-01, 4.7e-01), "lm": (4.7e-02, 1.2e-01, 3.0e-01, 8.5e-01, 1.6e+00)},
    "studentt": {"elp": (4.4e-12, 6.8e-10, 2.2e-05, 7.7e-03, 6.1e-02), "lm": (1.4e-13, 2.1e-08, 3.8e-04, 7.8e-02, 1.9e+00)},
    "beta": {"elp": (8.0e-12, 1.5e-12, 2.0e-10, 1.5e-05, 9.1e-04), "lm": (2.1e-13, 7.1e-14, 2.8e-09, 1.6e-01, 6.3e-01)},
}
LS = (10, 20, 40, 160)


def rho_bin(rho: float) -> int:
    for i, b in enumerate(RHO_BINS):
        if rho <= b:
            return i
    raise ValueError(rho)


def width_of(name: str, p: dict) -> float:
    if name == "bernoulli":
        return 1.0
    if name in ("laplace", "studentt"):
        return math.sqrt(p["noise"])
    return 1.0 / (1.0 + p["scale"] / 4.0)


def make_likelihood(name: str, L: int, via: str, params: list):
    """The likelihood with an L-node rule; `params` is a list of per-batch-element dicts (length 1 = no batch shape).
    Parameters go through the public setters and are read back (the oracle uses the values the library reports)."""
    cls = LIK_CLASSES[name]
    B = len(params)
    kwargs = {} if (name == "bernoulli" or B == 1) else {"batch_shape": torch.Size([B])}
    if via == "setting":
        with S.num_gauss_hermite_locs(L):
            lik = cls(**kwargs)
    else:  # the rule is a public attribute of one-dimensional likelihoods
        lik = cls(**kwargs)
        lik.quadrature = GaussHermiteQuadrature1D(num_locs=L)

    def col(key):
        t = torch.tensor([p[key] for p in params], dtype=torch.float64)
        return t.reshape(B, 1) if B > 1 else t.reshape(1)

    back = [dict() for _ in range(B)]
    if name in ("laplace", "studentt"):
        lik.noise = col("noise")
        for b, x in enumerate(lik.noise.detach().reshape(-1).tolist()):
            back[b]["noise"] = x
    if name == "studentt":
        lik.deg_free = col("nu")
        for b, x in enumerate(lik.deg_free.detach().reshape(-1).tolist()):
            back[b]["nu"] = x
    if name == "beta":
        lik.scale = col("scale")
        for b, x in enumerate(lik.scale.detach().reshape(-1).tolist()):
            back[b]["scale"] = x
    return lik, back


def check_roundtrip(ctx, params, back):
    """a hyper-parameter assigned through its public setter IS the parameter of the documented conditional: what the property reads
    back must be the assigned value (softplus / inverse-softplus round trip: 1e-10 relative)"""
    for b, (p, q) in enumerate(zip(params, back)):
        for k, v in p.items():
            if k in q:
                ctx.check(f"setter_roundtrip.{k}", abs(q[k] - v) <= 1e-10 * max(1.0, abs(v)), f"assigned {k}={v!r}, the likelihood reports {q[k]!r}")


def run_integrals(case, ctx: Ctx):
    name, via, kind = case["lik"], case["via"], case["dist"]
    params = case["params"]
    B, n = len(params), len(case["m"][0])
    ctx.cls = f"{name}|{kind}"
    shape = [n] if B == 1 else [B, n]
    widths = [width_of(name, p) for p in params]
    rho = np.array(case["rho"], dtype=np.float64)  # B x n
    m = np.array(case["m"], dtype=np.float64)
    y = np.array(case["y"], dtype=np.float64)
    v = (rho * np.array(widths)[:, None]) ** 2
    bins = np.vectorize(rho_bin)(rho)

    got = {}
    back = None
    with ctx.observing("likelihood"):
        dist, _, _ = build_dist(kind, shape, m.reshape(shape).tolist(), v.reshape(shape).tolist())
        yt = torch.tensor(y.reshape(shape))
        for L in LS:
            lik, back = make_likelihood(name, L, via, params)
            with torch.no_grad():
                got[L] = (lik.expected_log_prob(yt, dist), lik.log_marginal(yt, dist))
    check_roundtrip(ctx, params, back)
    ref = np.zeros((2, B, n))
    for b in range(B):
        for i in range(n):
            e, lm, e_err, lm_err = integral_oracle(name, back[b], float(y[b, i]), float(m[b, i]), float(v[b, i]))
            if not (e_err < 1e-9 and lm_err < 1e-9):
                raise Discard("scipy.quad oracle did not reach 1e-9")
            ref[0, b, i], ref[1, b, i] = e, lm
    ref = ref.reshape([2] + shape)

    def env(q):
        return np.array([ENV[name][q][k] for k in bins.reshape(-1)]).reshape(shape)

    extra = LNCDF_SPEC if name == "bernoulli" else 0.0
    for L in LS:
        for qi, q in enumerate(("elp", "lm")):
            g = got[L][qi]
            if name == "bernoulli" and q == "lm":
                # analytic (no quadrature): Phi(+-m/sqrt(1+v)); the log of a probability >= Phi(-6.1) computed from a cdf
                p_small = np.exp(ref[qi])
                _within(ctx, "bernoulli_log_marginal_analytic", g, ref[qi], 1e-9 + 8 * EPS / p_small)
                continue
            if L == 10:  # no envelope at 10 nodes: right shape, no nan
                _within(ctx, f"{q}@L=10_shape_and_not_nan", g, ref[qi], np.full(shape, np.inf))
                continue
            tol = np.maximum(env(q) / (5.0 if L == 160 else 1.0), FLOOR) + extra
            _within(ctx, f"{q}@L={L}_within_envelope", g, ref[qi], tol)
    ctx.label(f"int:{name}", f"int:dist={kind}", f"int:via={via}", f"int:batch={B > 1}", f"int:v>=1:{bool((v >= 1).any())}",
              *[f"int:rho_bin={k}" for k in sorted(set(bins.reshape(-1).tolist()))])
    ctx.set_nontrivial(bool((v >= 1).any()))


def _params_strategy(name):
    if name == "bernoulli":
        return st.just({})
    noise = positive(*NOISE_RANGE, [0.05, 0.25, 0.6931471805599453, 1.0, 2.0])
    if name == "laplace":
        return st.builds(lambda a: {"noise": a}, noise)
    if name == "studentt":
        return st.builds(lambda a, b: {"noise": a, "nu": b}, noise, positive(*NU_RANGE, [2.2, 3.0, 7.0, 30.0]))
    return st.builds(lambda a: {"scale": a}, positive(*SCALE_RANGE, [0.5, 1.0, 3.0, 20.0]))


def _y_strategy(name):
    if name == "bernoulli":
        return st.sampled_from([0.0, 1.0])
    if name == "beta":
        return st.one_of(st.sampled_from([0.02, 0.25, 0.5, 0.98]), st.floats(*YB_RANGE))
    return lattice(*Y_RANGE)


def integrals_strategy():
    def for_name(name):
        def build(B, n, via, kind, data):
            if name == "bernoulli":
                B = 1
            params = [data.draw(_params_strategy(name)) for _ in range(B)]
            rows = lambda s: [data.draw(st.lists(s, min_size=n, max_size=n)) for _ in range(B)]  # noqa: E731
            return {"lik": name, "via": via, "dist": kind, "params": params, "m": rows(lattice(*M_RANGE)),
                    "rho": rows(positive(*RHO_RANGE, [0.05, 0.25, 0.5, 1.0, 2.0, 3.0])), "y": rows(_y_strategy(name))}

        return st.builds(build, st.sampled_from([1, 1, 2]), st.integers(1, 3), st.sampled_from(["setting", "assign"]),
                         st.sampled_from(["mvn", "mvn_corr", "mvn_lazy"]), st.data())

    return st.sampled_from(list(LIK_CLASSES)).flatmap(for_name)


# ---------------------------------------------------------------------------------------------------
# lik.conditional: documented type, parameters and density of p(y | f)
# ---------------------------------------------------------------------------------------------------
def run_conditional(case, ctx: Ctx):
    name, params = case["lik"], case["params"]
    B, lead = len(params), case["lead"]
    f = np.array(case["f"], dtype=np.float64)  # lead x B x n  (B = 1 without batch shape)
    y = np.array(case["y"], dtype=np.float64)
    n = f.shape[-1]
    ctx.cls = name
    shape = ([lead] if lead else []) + ([B] if B > 1 else []) + [n]
    with ctx.observing("conditional"):
        lik, back = make_likelihood(name, 20, "setting", params)
        check_roundtrip(ctx, params, back)
        ft = torch.tensor(f.reshape(shape))
        cond = lik(ft)
        ctype = type(cond).__name__
        fields = {"bernoulli": ("probs",), "laplace": ("loc", "scale"), "studentt": ("df", "loc", "scale"),
                  "beta": ("concentration1", "concentration0")}[name]
        got = {k: torch.broadcast_to(getattr(cond, k).detach(), cond.batch_shape) for k in fields}
        lp = cond.log_prob(torch.tensor(y.reshape(shape))).detach()
    want_type = {"bernoulli": "Bernoulli", "laplace": "Laplace", "studentt": "StudentT", "beta": "Beta"}[name]
    ctx.equal("distribution_type", ctype, want_type)
    fb = np.broadcast_to(f, (max(lead, 1), B, n))
    pcol = lambda key: np.broadcast_to(np.array([p[key] for p in back])[None, :, None], fb.shape)  # noqa: E731
    if name == "bernoulli":
        want = {"probs": scipy.special.ndtr(fb)}
    elif name == "laplace":
        want = {"loc": fb, "scale": np.sqrt(pcol("noise"))}
    elif name == "studentt":
        want = {"df": pcol("nu"), "loc": fb, "scale": np.sqrt(pcol("noise"))}
    else:
        ab = np.vectorize(beta_params)(fb, pcol("scale"))
        want = {"concentration1": ab[0], "concentration0": ab[1]}
    for k in fields:
        # closed-form elementwise: 1e-12 relative (the Beta code forms beta = s - alpha + 2: cancellation of a few ulps of s)
        w = want[k].reshape(shape)
        _within(ctx, f"param_{k}", got[k], w, 1e-12 * (1.0 + np.abs(w)))
    yb = np.broadcast_to(y, fb.shape)
    wlp = np.array([[[logdens(name, back[b], float(yb[a, b, i]))(float(fb[a, b, i])) for i in range(n)] for b in range(B)]
                    for a in range(fb.shape[0])]).reshape(shape)
    # log-density of the documented conditional; log(1 - Phi(f)) from a cdf loses eps / (1 - Phi) (|f| <= 6)
    tol = 1e-9 * (1.0 + np.abs(wlp)) + (8 * EPS / np.exp(wlp) if name == "bernoulli" else 0.0)
    _within(ctx, "log_prob_is_documented_density", lp, wlp, tol)
    ctx.label(f"cond:{name}", f"cond:batch={B > 1}", f"cond:lead={lead}")
    ctx.set_nontrivial(True)


def conditional_strategy():
    def for_name(name):
        def build(B, lead, n, data):
            if name == "bernoulli":
                B = 1
            params = [data.draw(_params_strategy(name)) for _ in range(B)]
            cube = lambda s: [[data.draw(st.lists(s, min_size=n, max_size=n)) for _ in range(B)]  # noqa: E731
                              for _ in range(max(lead, 1))]
            return {"lik": name, "params": params, "lead": lead, "f": cube(lattice(-6, 6)), "y": cube(_y_strategy(name))}

        return st.builds(build, st.sampled_from([1, 2, 3]), st.sampled_from([0, 1, 2]), st.integers(1, 3), st.data())

    return st.sampled_from(list(LIK_CLASSES)).flatmap(for_name)


# ---------------------------------------------------------------------------------------------------
# bernoulli.marginal
# ---------------------------------------------------------------------------------------------------
def run_bernoulli_marginal(case, ctx: Ctx):
    kind, shape, how = case["dist"], case["shape"], case["how"]
    ctx.cls = f"{kind}|{how}"
    m = np.array(case["m"], dtype=np.float64).reshape(shape)
    v = np.array(case["v"], dtype=np.float64).reshape(shape)
    y = np.array(case["y"], dtype=np.float64).reshape(shape)
    with ctx.observing("marginal"):
        dist, _, _ = build_dist(kind, shape, case["m"], case["v"])
        lik = BernoulliLikelihood()
        marg = lik(dist) if how == "call" else lik.marginal(dist)
        mtype = type(marg).__name__
        probs = marg.probs.detach()
        lm = lik.log_marginal(torch.tensor(y), dist).detach()
    link = m / np.sqrt(1.0 + v)
    ctx.equal("marginal_type", mtype, "Bernoulli")
    _within(ctx, "probs=Phi(m/sqrt(1+v))", probs, scipy.special.ndtr(link), 1e-12)  # the property's 1e-12
    wl = scipy.special.log_ndtr((2.0 * y - 1.0) * link)
    # log of a probability obtained from a cdf: absolute error eps in p -> eps / p in log p  (|link| <= 5: p >= 2.9e-7)
    _within(ctx, "log_marginal=log Phi((2y-1) m/sqrt(1+v))", lm, wl, 1e-12 + 8 * EPS / np.exp(wl))
    ctx.label(f"bm:dist={kind}", f"bm:rank={len(shape)}", f"bm:v>=1:{bool((v >= 1).any())}", f"bm:how={how}")
    ctx.set_nontrivial(bool((v >= 1).any()))


def bernoulli_marginal_strategy():
    def build(kind, shape, how, data):
        n = int(np.prod(shape))
        return {"dist": kind, "shape": shape, "how": how,
                "m": data.draw(st.lists(lattice(-5, 5), min_size=n, max_size=n)),
                "v": data.draw(st.lists(positive(1e-4, 20.0, [1e-4, 0.01, 0.25, 1.0, 3.0, 20.0]), min_size=n, max_size=n)),
                "y": data.draw(st.lists(st.sampled_from([0.0, 1.0]), min_size=n, max_size=n))}

    return st.builds(build, st.sampled_from(["mvn", "mvn_corr", "mvn_lazy"]), st.sampled_from([[1], [3], [2, 2], [2, 1, 3]]),
                     st.sampled_from(["call", "marginal"]), st.data())


# ====================================================================================================
# log_normal_cdf
# ====================================================================================================
# Branch points of gpytorch/functions/_log_normal_cdf.py: z < -1 (rational tail approximation), z^2 < 0.04 (series around 0;
# note 0.2 * 0.2 > 0.04 in binary64 so +-0.2 themselves are "ordinary"), everything else log(Normal.cdf).
# -11.3137: below it the rational tail approximation is used (since fix F46), erfc between it and -1
BRANCH_POINTS = (-1.0, -0.2, 0.2, 0.0, -11.3137)
Z_MAX = 1e6  # at |z| = 1e6 one ulp of z^2/2 is 6e-5; beyond ~4e6 no binary64 result can be within 2e-3


def branch_of(z: np.ndarray) -> np.ndarray:
    """0 = tail (z < -1), 1 = near zero (z^2 < 0.04), 2 = ordinary - evaluated like the code does (float64)."""
    return np.where(z < -1.0, 0, np.where(z * z < 0.04, 1, 2))


def grid_values(spec) -> np.ndarray:
    kind = spec[0]
    if kind == "lin":
        return np.linspace(spec[1], spec[2], int(spec[3]))
    if kind == "neglog":
        return -np.logspace(spec[1], spec[2], int(spec[3]))
    if kind == "poslog":
        return np.logspace(spec[1], spec[2], int(spec[3]))
    if kind == "ulps":  # centre +- j ulps, j = 0..n
        out, up, dn = [spec[1]], spec[1], spec[1]
        for _ in range(int(spec[2])):
            up, dn = np.nextafter(up, np.inf), np.nextafter(dn, -np.inf)
            out += [up, dn]
        return np.array(out)
    raise KeyError(kind)


def run_lncdf(case, ctx: Ctx):
    if "grid" in case:
        z = grid_values(case["grid"])
        w = 1.0 + 0.5 * np.cos(np.arange(z.size))  # deterministic non-constant upstream gradient
        shape = [z.size]
        ctx.cls = f"grid:{case['grid'][0]}"
    else:
        z = np.array(case["z"], dtype=np.float64)
        w = np.array(case["w"], dtype=np.float64)
        shape = case["shape"]
        ctx.cls = "generated"
    z, w = z.reshape(shape), w.reshape(shape)
    assert np.all(np.abs(z) <= Z_MAX)
    with ctx.observing("log_normal_cdf"):
        zt = torch.tensor(z, requires_grad=True)
        val = log_normal_cdf(zt)
        (val * torch.tensor(w)).sum().backward()
        val = val.detach()
        grad = zt.grad.detach()
    ref = scipy.special.log_ndtr(z)
    # phi/Phi = sqrt(2/pi) / erfcx(-z/sqrt 2)  (no cancellation anywhere; erfcx overflows to inf for z > 37: ratio 0)
    with np.errstate(over="ignore"):
        gref = math.sqrt(2.0 / math.pi) / scipy.special.erfcx(-z / math.sqrt(2.0))
    br = branch_of(z)
    tail = br == 0
    # thresholds from the property: 2e-3 absolute everywhere; "to rounding" for z >= -1 is taken as 1e-13 (1 + |value|)
    # (450 ulps; the unchanged tree is within 1.2e-15 - DESIGN quotes 1e-12, which would let the series around 0 be used
    # out to |z| = 0.63 unnoticed, see mutants/C13.json)
    vtol = np.where(tail, 2e-3, 1e-13 * (1.0 + np.abs(ref)))
    _within(ctx, "value_vs_log_ndtr", val, ref, vtol)
    # derivative: relative 2e-3 for z < -1, 1e-10 for z >= -1 (absolute 1e-290 where phi/Phi underflows)
    gtol = np.abs(w) * (np.where(tail, 2e-3, 1e-10) * gref + 1e-290)
    _within(ctx, "derivative_vs_phi/Phi", grad, w * gref, gtol)
    verr = np.abs(val.numpy() - ref)
    if tail.any():
        _target(float(verr[tail].max()), "lncdf |value error|, z < -1")
        gerr = np.abs(grad.numpy() - w * gref)[tail] / np.maximum(np.abs(w)[tail] * gref[tail], 1e-300)
        _target(float(gerr.max()), "lncdf derivative relative error, z < -1")
    if (~tail).any():
        _target(float((verr / (1.0 + np.abs(ref)))[~tail].max()), "lncdf |value error|, z >= -1")
    present = sorted(set(br.reshape(-1).tolist()))
    names = {0: "tail", 1: "nearzero", 2: "ordinary"}
    near = min(float(np.min(np.abs(z - c))) for c in BRANCH_POINTS[:3])
    ctx.label(*[f"lncdf:{names[k]}" for k in present], f"lncdf:branches_in_tensor={len(present)}",
              f"lncdf:near_branch_point={'<=1e-9' if near <= 1e-9 else '<=1e-3' if near <= 1e-3 else 'far'}",
              f"lncdf:rank={len(shape)}", f"lncdf:|z|>1e3:{bool((np.abs(z) > 1e3).any())}")
    ctx.set_nontrivial(bool((z < 8.0).any()))  # for z >= 8.3 log Phi is 0 to rounding


def _ulps(c: float, j: int) -> float:
    x = c
    for _ in range(abs(j)):
        x = float(np.nextafter(x, math.inf if j > 0 else -math.inf))
    return x


def lncdf_strategy():
    centre = st.sampled_from(BRANCH_POINTS)
    elem = st.one_of(
        st.floats(-Z_MAX, Z_MAX, allow_nan=False),
        st.floats(-40.0, 10.0),
        st.floats(-3.0, -1.0),
        st.floats(-13.0, -10.0),
        st.builds(_ulps, centre, st.integers(-64, 64)),
        st.builds(lambda c, k, s, a: c + s * a * 10.0 ** (-k), centre, st.integers(1, 15), st.sampled_from([-1.0, 1.0]),
                  st.floats(1.0, 10.0)),
        st.sampled_from([-1.0, -0.2, 0.2, 0.0, -0.0, -Z_MAX, Z_MAX, 37.5, 8.3, -37.5]),
    )

    def build(zs, layout, data):
        n = len(zs)
        if layout == "scalar":
            zs, shape = zs[:1], []
        elif layout == "2d" and n >= 2:
            zs = zs[: n - n % 2]
            shape = [2, len(zs) // 2]
        else:
            shape = [n]
        ws = data.draw(st.lists(st.sampled_from([1.0, 1.0, -1.0, 0.5, 2.0, 3.25]), min_size=len(zs), max_size=len(zs)))
        return {"z": zs, "w": ws, "shape": shape}

    return st.builds(build, st.lists(elem, min_size=1, max_size=16), st.sampled_from(["flat", "flat", "2d", "scalar"]), st.data())


def lncdf_grid(tier):
    n = 4 if tier == "quick" else 40
    cases = []
    for k in range(10):  # -40 .. 10 in ten chunks
        cases.append(["lin", -40.0 + 5 * k, -35.0 + 5 * k, 5000 * n + 1])
    for c in (-1.0, -0.2, 0.2, 0.0, -11.3137):
        cases.append(["lin", c - 1e-3, c + 1e-3, 5000 * n + 1])
        cases.append(["lin", c - 1e-9, c + 1e-9, 2001])
        cases.append(["ulps", c, 2000])
    cases.append(["lin", -1.2, -0.9, 5000 * n + 1])
    cases.append(["lin", -3.0, -1.0, 5000 * n + 1])
    cases.append(["neglog", 0.0, 6.0, 5000 * n + 1])
    cases.append(["neglog", 0.0, 1.0, 5000 * n + 1])
    cases.append(["poslog", -12.0, 1.6, 5000 * n + 1])
    cases.append(["neglog", -12.0, 0.0, 5000 * n + 1])
    cases.append(["poslog", 1.0, 6.0, 2001])
    for g in cases:
        yield {"grid": g}


# ====================================================================================================
# SoftmaxLikelihood
# ====================================================================================================
def run_softmax(case, ctx: Ctx):
    n, t, C, Sn = case["n"], case["t"], case["C"], case["S"]
    mixing, training, batch, seed = case["mixing"], case["training"], case["batch"], case["torch_seed"]
    assert n != t  # n == num_features is the library's documented legacy (transposed, deprecated) input layout
    if not mixing:
        assert C == t
    ctx.cls = f"mixing={mixing}|training={training}|batch={batch}"
    bshape = [2] if batch else []
    W = torch.tensor(case["W"], dtype=torch.float64).reshape(C, t) if mixing else torch.eye(t)
    mean = torch.tensor(case["mean"], dtype=torch.float64).reshape(bshape + [n, t])
    var = torch.tensor(case["var"], dtype=torch.float64).reshape(bshape + [n, t])
    y = torch.tensor(case["y"], dtype=torch.long).reshape(bshape + [n])
    f = torch.tensor(case["f"], dtype=torch.float64).reshape([2] + bshape + [n, t])

    with ctx.observing("softmax"):
        if mixing:
            lik = SoftmaxLikelihood(num_features=t, num_classes=C)
            lik.initialize(mixing_weights=W)
        else:
            lik = SoftmaxLikelihood(num_classes=C, mixing_weights=False)
        lik.train(training)
        cond = lik(f)
        ctype, cprobs = type(cond).__name__, cond.probs.detach()
        dist = MultitaskMultivariateNormal(mean, torch.diag_embed(var.reshape(bshape + [n * t])))
        with S.num_likelihood_samples(Sn):
            torch.manual_seed(seed)
            marg = lik(dist)
            mtype, mprobs = type(marg).__name__, marg.probs.detach()
            torch.manual_seed(seed)
            elp = lik.expected_log_prob(y, dist).detach()
            torch.manual_seed(seed)
            lm = lik.log_marginal(y, dist).detach()
        # the same base samples, drawn by code that is not the likelihood: documented sampling distribution is the
        # function distribution itself (eval) / its independent-Normal marginals (training)
        torch.manual_seed(seed)
        if training:
            fs = torch.distributions.Normal(mean, var.sqrt()).rsample(torch.Size([Sn]))
        else:
            fs = dist.rsample(torch.Size([Sn]))
    ctx.equal("conditional_type", ctype, "Categorical")
    ctx.equal("marginal_type", mtype, "Categorical")
    ctx.close("conditional_probs=softmax(W f)", cprobs, torch.softmax(f @ W.T, -1), rtol=1e-12, atol=1e-14)
    lp = torch.log_softmax(fs @ W.T, -1)
    ctx.close("marginal_probs=softmax(W f_s)", mprobs, lp.exp(), rtol=1e-10, atol=1e-13)
    lpy = lp.gather(-1, y.expand([Sn] + list(y.shape)).unsqueeze(-1)).squeeze(-1)
    ctx.close("expected_log_prob=mean_s", elp, lpy.mean(0), rtol=1e-10, atol=1e-12)
    ctx.close("log_marginal=log mean_s", lm, lpy.logsumexp(0) - math.log(Sn), rtol=1e-10, atol=1e-12)
    ctx.label(f"sm:mixing={mixing}", f"sm:training={training}", f"sm:batch={batch}", f"sm:S={Sn}")
    ctx.set_nontrivial(mixing or batch)


def softmax_strategy():
    def build(n, t, C, mixing, training, batch, Sn, seed, data):
        if not mixing:
            C = t
        if n == t:
            n = t + 1
        nb = 2 if batch else 1
        fl = lambda k, s: data.draw(st.lists(s, min_size=k, max_size=k))  # noqa: E731
        return {"n": n, "t": t, "C": C, "S": Sn, "mixing": mixing, "training": training, "batch": batch, "torch_seed": seed,
                "W": fl(C * t, lattice(-2, 2)) if mixing else [],
                "mean": fl(nb * n * t, lattice(-3, 3)), "var": fl(nb * n * t, positive(1e-3, 4.0, [1e-3, 0.25, 1.0, 4.0])),
                "y": fl(nb * n, st.integers(0, C - 1)), "f": fl(2 * nb * n * t, lattice(-3, 3))}

    return st.builds(build, st.integers(1, 4), st.integers(1, 3), st.integers(2, 4), st.booleans(), st.booleans(), st.booleans(),
                     st.sampled_from([1, 3, 10]), st.integers(0, 2 ** 20), st.data())


# ====================================================================================================
# doc.frozen: the statements above are what the docstrings say
# ====================================================================================================
FROZEN_DOC = {
    "BernoulliLikelihood": [r"p(Y=y|f)=\Phi((2y - 1)f)"],
    "LaplaceLikelihood": [r":math:`\sigma` - the noise"],
    "StudentTLikelihood": [r":math:`\nu` - the degrees of freedom", r":math:`\sigma^2` - the noise"],
    "BetaLikelihood": [  # F8 - text after fixes/F8_beta_likelihood.patch
        r"\alpha = ms + 1, \quad \beta = (1-m)s + 1",
        r"p(y \mid f) = \text{Beta} \left( \sigma(f) s + 1, (1 - \sigma(f)) s + 1 \right)",
    ],
    "SoftmaxLikelihood": [r"p(\mathbf y \mid \mathbf f) = \text{Softmax} \left( \mathbf W \mathbf f \right)"],
}


def run_doc(case, ctx: Ctx):
    name = case["class"]
    ctx.cls = name
    with ctx.observing("docstring"):
        doc = getattr(gpytorch.likelihoods, name).__doc__ or ""
    squeeze = lambda s: "".join(s.split())  # noqa: E731
    for stmt in FROZEN_DOC[name]:
        ctx.check("documented_statement", squeeze(stmt) in squeeze(doc),
                  f"{name}.__doc__ does not state `{stmt}` (the formula this check - and, for Beta, forward() - uses)")
    ctx.label(f"doc:{name}")
    ctx.set_nontrivial(True)


def doc_cases(tier):
    for name in FROZEN_DOC:
        yield {"class": name}


# ====================================================================================================
RULE = ("polynomial cases: non-trivial iff degree >= L (every degree-2L case is); integral / Bernoulli-marginal cases: iff some "
        "variance >= 1; log_normal_cdf cases: iff some z < 8 (log Phi is not 0 to rounding) - the label histogram shows the three "
        "branches (tail z < -1, near zero z^2 < 0.04, ordinary) separately; conditional-parameter, softmax (mixing or batch) and "
        "docstring cases always; distinct = distinct canonical case")

SPEC = PropertySpec(
    pid="C13",
    rule=RULE,
    assumptions=[
        "float64; num_locs 1..40 for exactness (160 in the convergence assertion); means in [-5, 5], variances in [1e-4, 20]",
        "documented conditional densities are the frozen statements at the top of pbt/props/c13.py (Beta: the docstring after "
        "fixes/F8_beta_likelihood.patch, alpha = sigma(f) s + 1, beta = (1 - sigma(f)) s + 1); likelihood parameters are set "
        "through the public setters, must read back as assigned (1e-10), and the oracle uses them",
        "likelihood integrals: envelope per likelihood / quantity / rho-bin (rho = sqrt(v) / width of the density, <= 3) measured "
        "on the unchanged tree x 5; Bernoulli expected_log_prob additionally gets the 2e-3 the property grants log_normal_cdf "
        "(its error does not shrink with L); 'shrinks as nodes are added' only asserted between L = 20 and L = 160",
        "log_normal_cdf: finite |z| <= 1e6 (beyond ~4e6 binary64 cannot represent log Phi to 2e-3)",
        "SoftmaxLikelihood: num_data != num_features (equal sizes select the deprecated transposed input layout); pyro not installed",
    ],
    subchecks=[
        Subcheck("gh.poly_exact", run_poly, strategy=poly_strategy, quick=4000, thorough=100000, min_shard=100),
        Subcheck("gh.degree_2L", run_degree_2L, strategy=degree_2L_strategy, quick=1200, thorough=20000, min_shard=100),
        Subcheck("lik.integrals", run_integrals, strategy=integrals_strategy, quick=1600, thorough=30000, min_shard=50, weight=3.0),
        Subcheck("lik.conditional", run_conditional, strategy=conditional_strategy, quick=1500, thorough=20000, min_shard=100),
        Subcheck("bernoulli.marginal", run_bernoulli_marginal, strategy=bernoulli_marginal_strategy, quick=1500, thorough=20000,
                 min_shard=100),
        Subcheck("lncdf.generated", run_lncdf, strategy=lncdf_strategy, quick=5000, thorough=200000, min_shard=200),
        Subcheck("lncdf.grid", run_lncdf, enumerate=lncdf_grid,
                 exhaustive_note="log_normal_cdf on dense grids: [-40, 10] step 2.5e-4, +-1e-3 / +-1e-9 / +-2000 ulps around -1, "
                                 "+-0.2, 0, log-spaced 1e-12..1e6 on both sides (a grid, not the whole real line)"),
        Subcheck("softmax.mixing", run_softmax, strategy=softmax_strategy, quick=800, thorough=10000, min_shard=100),
        Subcheck("doc.frozen", run_doc, enumerate=doc_cases, max_shards=1,
                 exhaustive_note="the five likelihood docstrings against the frozen statements"),
    ],
)


# ====================================================================================================
# calibration of ENV on the tree under test:  /venv/bin/python -m pbt.props.c13 calibrate [N] [seeds]
# ====================================================================================================
def _calibrate(N=20000, seeds=(0, 1, 2), names=None):  # pragma: no cover
    import sys

    def lu(rng, a, b, n):
        return np.exp(rng.uniform(math.log(a), math.log(b), n))

    def corner(rng, x, a, b, frac=0.3):
        u = rng.uniform(size=x.shape)
        return np.where(u < frac / 2, a, np.where(u > 1 - frac / 2, b, x))

    out = {}
    for name in (names or LIK_CLASSES):
        mx = {L: np.zeros((2, len(RHO_BINS))) for L in LS}
        for seed in seeds:
            rng = np.random.default_rng(seed)
            m = corner(rng, rng.uniform(*M_RANGE, N), *M_RANGE)
            rho = corner(rng, lu(rng, *RHO_RANGE, N), *RHO_RANGE)
            # also exactly at the bin edges
            rho = np.where(rng.uniform(size=N) < 0.2, rng.choice(RHO_BINS, N), rho)
            if name == "bernoulli":
                y = rng.integers(0, 2, N).astype(float)
                ps = [{} for _ in range(N)]
            elif name == "beta":
                y = corner(rng, rng.uniform(*YB_RANGE, N), *YB_RANGE)
                ps = [{"scale": a} for a in corner(rng, lu(rng, *SCALE_RANGE, N), *SCALE_RANGE)]
            else:
                y = corner(rng, rng.uniform(*Y_RANGE, N), *Y_RANGE)
                nz = corner(rng, lu(rng, *NOISE_RANGE, N), *NOISE_RANGE)
                # the kink / peak inside the Gaussian mass: at the mean, at a node of the 20-point rule, between two nodes
                x20 = np.polynomial.hermite.hermgauss(20)[0]
                mid = np.concatenate([x20, 0.5 * (x20[1:] + x20[:-1])])
                u = rng.uniform(size=N)
                y_al = m + np.sqrt(2.0) * rho * np.sqrt(nz) * rng.choice(mid, N)
                y = np.where(u < 0.15, m, np.where((u < 0.45) & (np.abs(y_al) <= Y_RANGE[1]), y_al, y))
                ps = [{"noise": a} for a in nz]
                if name == "studentt":
                    for p, b in zip(ps, corner(rng, lu(rng, *NU_RANGE, N), *NU_RANGE)):
                        p["nu"] = b
            bins = np.array([rho_bin(r) for r in rho])
            got = {}
            back = None
            for L in LS:
                if name == "bernoulli":
                    v = rho ** 2
                    lik, _ = make_likelihood(name, L, "setting", [{}])
                    back = ps
                    dist = MultivariateNormal(torch.tensor(m).unsqueeze(-1), torch.tensor(v).reshape(N, 1, 1))
                    yt = torch.tensor(y).unsqueeze(-1)
                else:
                    lik, back = make_likelihood(name, L, "setting", ps)
                    v = (rho * np.array([width_of(name, p) for p in ps])) ** 2
                    dist = MultivariateNormal(torch.tensor(m).unsqueeze(-1), torch.tensor(v).reshape(N, 1, 1))
                    yt = torch.tensor(y).unsqueeze(-1)
                with torch.no_grad():
                    if name == "bernoulli":  # truncation error of the rule alone: exact log Phi instead of log_normal_cdf
                        sgn = 2.0 * yt - 1.0
                        elp = lik.quadrature(lambda fs: torch.as_tensor(scipy.special.log_ndtr((fs * sgn).numpy())), dist)
                    else:
                        elp = lik.expected_log_prob(yt, dist)
                    got[L] = (elp.reshape(-1).numpy(), lik.log_marginal(yt, dist).reshape(-1).numpy())
            ref = np.array([integral_oracle(name, p, float(a), float(b), float(c)) for p, a, b, c in zip(back, y, m, v)])
            print(f"# {name} seed {seed}: quad error estimates elp {ref[:, 2].max():.1e} lm {ref[:, 3].max():.1e}", file=sys.stderr)
            for L in LS:
                for qi in range(2):
                    err = np.abs(got[L][qi] - ref[:, qi])
                    for k in range(len(RHO_BINS)):
                        mx[L][qi, k] = max(mx[L][qi, k], err[bins == k].max())
        out[name] = mx
        for L in LS:
            print(f"{name:10s} L={L:3d} elp " + " ".join(f"{x:.2e}" for x in mx[L][0]) + " | lm " + " ".join(f"{x:.2e}" for x in mx[L][1]))
    print("ENV = {")
    for name, mx in out.items():
        qs = ("elp",) if name == "bernoulli" else ("elp", "lm")
        print(f'    "{name}": {{' + ", ".join(f'"{q}": (' + ", ".join(f"{5 * x:.1e}" for x in mx[20][qi]) + ")" for qi, q in enumerate(qs)) + "},")
    print("}")


if __name__ == "__main__":  # pragma: no cover
    import sys

    if len(sys.argv) > 1 and sys.argv[1] == "calibrate":
        torch.set_default_dtype(torch.float64)
        torch.set_num_threads(1)
        _calibrate(int(sys.argv[2]) if len(sys.argv) > 2 else 20000,
                   tuple(int(s) for s in sys.argv[3].split(",")) if len(sys.argv) > 3 else (0, 1, 2),
                   sys.argv[4].split(",") if len(sys.argv) > 4 else None)

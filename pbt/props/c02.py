"""C02 - exact marginal log likelihood and LOO pseudo-likelihood equal their dense definitions (values and
gradients w.r.t. every raw hyper-parameter), including registered priors, batch shapes, fixed noise."""
from __future__ import annotations

import copy
import math

import torch
from hypothesis import strategies as st

import gpytorch
from gpytorch import settings as S

from pbt import gpmodel as G
from pbt import kern
from pbt import mtmodel as MT
from pbt import priors_ref as PR
from pbt.core import Ctx, Discard, PropertySpec, Subcheck

T = torch.tensor

PRIORABLE = {"lengthscale", "period_length", "variance", "offset", "outputscale", "constant", "noise"}


def _holders(case):
    """all recipe dicts that own parameters: (dict, kind)"""
    out = []

    def walk(r):
        if r["k"] == "Scale":
            out.append(r)
            walk(r["base"])
        elif r["k"] in ("Add", "Prod"):
            for p in r["parts"]:
                walk(p)
        else:
            out.append(r)

    walk(case["kernel"])
    return out


@st.composite
def mll_case(draw, **kw):
    case = draw(G.exact_case(test_batches=False, **kw))
    # prior assignments: each priorable parameter independently
    slots = []
    for h in _holders(case):
        for pn in h["p"]:
            if pn in PRIORABLE and not h["k"].startswith("SM"):
                slots.append((h, pn))
    if case["mean"]["m"] == "Constant":
        slots.append((case["mean"], "constant"))
    if case["lik"]["l"] == "Gaussian" or case["lik"].get("learn"):
        slots.append((case["lik"], "noise"))
    nprior = 0
    # one prior recipe (and, when share_priors is set, one Prior *object*) for all positive slots in a third of the cases
    common = draw(PR.prior_recipe(positive=True)) if draw(st.integers(0, 2)) == 0 else None
    for h, pn in slots:
        if draw(st.integers(0, 2)) == 0 or (common is not None and draw(st.booleans())):
            positive = not (h is case["mean"])
            h.setdefault("priors", {})[pn] = common if (common is not None and positive) else draw(PR.prior_recipe(positive=positive))
            nprior += 1
    case["n_priors"] = nprior
    case["share_priors"] = common is not None and draw(st.booleans())
    case["objective"] = draw(st.sampled_from(["mll", "mll", "mll", "loo"]))
    case["max_chol"] = 800
    return case


def softplus(x):
    return torch.where(x > 30, x, torch.log1p(torch.exp(torch.clamp(x, max=30))))


def inv_softplus(y):
    return y + torch.log(-torch.expm1(-y))


def param_slots(case, model, lik):
    """(holder dict, key, module, raw parameter name, lower bound or None for unconstrained) for every learnable parameter"""
    out = []

    def walk(r, mod):
        if r["k"] == "Scale":
            out.append((r["p"], "outputscale", mod, "raw_outputscale", 0.0))
            walk(r["base"], mod.base_kernel)
        elif r["k"] in ("Add", "Prod"):
            for p, sub in zip(r["parts"], mod.kernels):
                walk(p, sub)
        else:
            for pn in r["p"]:
                out.append((r["p"], pn, mod, "raw_" + pn, 0.0))

    walk(case["kernel"], model.covar_module)
    m = case["mean"]
    if m["m"] == "Constant":
        out.append((m["p"], "constant", model.mean_module, "raw_constant", None))
    elif m["m"] == "Linear":
        out.append((m["p"], "weights", model.mean_module, "weights", None))
        out.append((m["p"], "bias", model.mean_module, "bias", None))
    if case["lik"]["l"] == "Gaussian":
        out.append((case["lik"], "noise", lik.noise_covar, "raw_noise", 1e-4))
    elif case["lik"].get("learn"):
        out.append((case["lik"], "second_noise", lik.second_noise_covar, "raw_noise", 1e-4))
    return out


def prior_of(holder_p, key, case):
    """the prior recipe attached to the (holder, key) slot, if any"""
    for h in _holders(case) + [case["mean"], case["lik"]]:
        hp = h["p"] if "p" in h else h
        if (hp is holder_p or h is holder_p) and h.get("priors"):
            k = "noise" if key == "second_noise" else key
            return h["priors"].get(k)
    return None


def dense_objective(case2, X, y, objective, res_batch):
    """[log N(y; m, K+S) + priors] / n  (or the LOO analogue) from the reference kernels; differentiable"""
    n = X.shape[-2]
    Kxx = kern.ref_kernel(case2["kernel"], X, X)
    mx = kern.ref_mean(case2["mean"], X)
    sd = G.ref_noise_diag(case2["lik"], n, res_batch)
    bs = torch.broadcast_shapes(Kxx.shape[:-2], mx.shape[:-1], sd.shape[:-1], y.shape[:-1])
    A = Kxx.expand(*bs, n, n) + torch.diag_embed(sd.expand(*bs, n))
    r = (y - mx).expand(*bs, n)
    if objective == "mll":
        sol = torch.linalg.solve(A, r.unsqueeze(-1)).squeeze(-1)
        val = -0.5 * ((r * sol).sum(-1) + torch.linalg.slogdet(A)[1] + n * math.log(2 * math.pi))
    else:
        acc = torch.zeros(bs)
        for i in range(n):
            idx = [j for j in range(n) if j != i]
            if idx:
                Ai = A[..., idx, :][..., :, idx]
                ki = A[..., idx, i]
                w = torch.linalg.solve(Ai, torch.stack([r[..., idx], ki], -1))
                mu_i = (ki * w[..., 0]).sum(-1)
                var_i = A[..., i, i] - (ki * w[..., 1]).sum(-1)
            else:
                mu_i = torch.zeros(bs)
                var_i = A[..., i, i]
            acc = acc + (-0.5 * math.log(2 * math.pi) - 0.5 * var_i.log() - 0.5 * (r[..., i] - mu_i) ** 2 / var_i)
        val = acc
    return val, A


def at_kink(case, X):
    """PP0 on one input dimension is max(0, 1-r): not differentiable in the lengthscale where r == 1 exactly"""
    for leaf in kern.leaves(case["kernel"]):
        if leaf["k"] == "PP0" and leaf["d"] == 1:
            x = X[..., leaf["ad"]] if leaf.get("ad") is not None else X
            rr = kern._safe_sqrt(kern._sqd(x, x, T(leaf["p"]["lengthscale"])))
            if bool(((rr - 1).abs() < 1e-9).any()):
                return True
    return False


def run_mll(case, ctx: Ctx):
    ctx.cls = f"{case['objective']}|{case['lik']['l']}{'+' if case['lik'].get('learn') else ''}|mb{case['mb']}|xb{case['xb']}|priors{min(case['n_priors'], 2)}"
    X, y = T(case["X"]), T(case["y"])
    n = case["n"]
    res_batch = torch.broadcast_shapes(torch.Size(case["mb"]), torch.Size(case["xb"]))
    with ctx.observing("build"):
        with kern.shared_priors(bool(case.get("share_priors"))):
            model, lik = G.build_exact(case)
        model.train()
        lik.train()
    slots = param_slots(case, model, lik)
    # ---- oracle: rebuild the objective from raw leaves through an independent softplus
    case2 = copy.deepcopy(case)
    slots2 = param_slots(case2, model, lik)
    leaves = []
    prior_terms = []
    for (hp, key, mod, rawname, lb), (hp2, key2, _, _, _) in zip(slots, slots2):
        v = T(hp[key])
        if lb is None:
            raw = v.clone().requires_grad_(True)
            val = raw
        else:
            raw = inv_softplus(v - lb).requires_grad_(True)
            val = softplus(raw) + lb
        hp2[key2] = val
        leaves.append(raw)
        pr = prior_of(hp, key, case)
        if pr is not None:
            lp = PR.ref_logpdf(pr, val)
            nb = len(case["mb"])
            lp = lp.reshape(*lp.shape[:nb], -1).sum(-1) if lp.dim() > nb else lp
            prior_terms.append(lp)
    val_w, A = dense_objective(case2, X, y, case["objective"], res_batch)
    sv = torch.linalg.svdvals(A.detach())
    kappa = float((sv[..., 0] / sv[..., -1]).max())
    if not math.isfinite(kappa) or kappa > 1e8:
        raise Discard("ill-conditioned (kappa>1e8)")
    total_w = val_w
    for lp in prior_terms:
        total_w = total_w + lp
    total_w = total_w / n
    grads_w = torch.autograd.grad(total_w.sum(), leaves, allow_unused=True)

    # ---- library
    with ctx.observing("objective"):
        with S.max_cholesky_size(case["max_chol"]):
            cls = gpytorch.mlls.ExactMarginalLogLikelihood if case["objective"] == "mll" else gpytorch.mlls.LeaveOneOutPseudoLikelihood
            mll = cls(lik, model)
            out = model(X)
            got = mll(out, y)
            params = [getattr(mod, rawname) for (_, _, mod, rawname, _) in slots]
            grads_g = torch.autograd.grad(got.sum(), params, allow_unused=True)
    tol = G.chol_tol(kappa, kern.smooth_at_zero(case["kernel"]))
    tol = max(tol, 1e-9)
    ctx.close("value", got, total_w.detach().expand(got.shape) if got.shape != total_w.shape and total_w.dim() < got.dim() else total_w.detach(),
              rtol=tol, atol=tol)
    kink = at_kink(case, X)
    ctx.label(f"kink={kink}")
    for (hp, key, mod, rawname, lb), gw, gg in zip(slots, grads_w, grads_g):
        if kink and key == "lengthscale":
            continue
        gw = torch.zeros_like(T(hp[key])) if gw is None else gw
        gg = torch.zeros_like(getattr(mod, rawname)) if gg is None else gg
        if gw.numel() != gg.numel():
            ctx.fail(f"grad.{key}", "shape", f"library raw parameter has {gg.numel()} elements, recipe {gw.numel()}")
            continue
        gscale = max(1.0, float(gw.abs().max()))
        ctx.close(f"grad.{key}", gg.reshape(-1), gw.reshape(-1), rtol=max(tol, 1e-7), atol=max(tol, 1e-8) * max(1.0, kappa ** 0.5), scale=gscale)
    ctx.set_nontrivial(n >= 2 and (case["n_priors"] > 0 or bool(case["mb"]) or bool(case["xb"]) or case["lik"]["l"] != "Gaussian"))
    ctx.label(f"objective={case['objective']}", f"lik={case['lik']['l']}{'+' if case['lik'].get('learn') else ''}", f"mb={case['mb']}", f"xb={case['xb']}",
              f"n_priors={min(case['n_priors'], 4)}", f"mean={case['mean']['m']}", f"share_priors={bool(case.get('share_priors'))}", *{f"leaf={l['k']}" for l in kern.leaves(case["kernel"])},
              *{f"prior={pr['pr']}" for h in _holders(case) + [case['mean'], case['lik']] for pr in (h.get('priors') or {}).values()})


# ---------------------------------------------------------------------------------------------------
# Kronecker multitask MLL (value and gradients w.r.t. the task factors / noises / data-kernel parameters)
# ---------------------------------------------------------------------------------------------------
@st.composite
def multitask_mll_case(draw):
    case = draw(MT.multitask_case(nmax=4, nsmax=1, test_batches=False))
    case["singular_noise"] = MT.cell(case).endswith("singular")
    return case


def run_multitask_mll(case, ctx: Ctx):
    t, n = case["t"], case["n"]
    ctx.cls = f"multitask|{MT.cell(case)}"
    X, y = T(case["X"]), T(case["y"])
    with ctx.observing("build"):
        model, lik = MT.build_multitask(case)
        model.train()
        lik.train()
    # oracle from leaves: covar_factor, var (softplus), task noise parameters, data kernel parameters
    case2 = copy.deepcopy(case)
    leaves, mods = [], []

    def leaf(holder, key, mod, rawname, lb):
        v = T(holder[key])
        if lb is None:
            raw = v.clone().requires_grad_(True)
            holder[key] = raw
        else:
            raw = inv_softplus(v - lb).requires_grad_(True)
            holder[key] = softplus(raw) + lb
        leaves.append(raw)
        mods.append((mod, rawname, key))

    leaf(case2["task"], "covar_factor", model.covar_module.task_covar_module, "covar_factor", None)
    leaf(case2["task"], "var", model.covar_module.task_covar_module, "raw_var", 0.0)
    lr = case2["lik"]
    if lr["global"]:
        leaf(lr, "noise", lik, "raw_noise", 1e-4)
    if lr["task"]:
        if lr["rank"] == 0:
            leaf(lr, "task_noises", lik, "raw_task_noises", 1e-4)
        else:
            leaf(lr, "factor", lik, "task_noise_covar_factor", None)

    def walk(r, mod):
        if r["k"] == "Scale":
            leaf(r["p"], "outputscale", mod, "raw_outputscale", 0.0)
            walk(r["base"], mod.base_kernel)
        elif r["k"] in ("Add", "Prod"):
            for p_, sub in zip(r["parts"], mod.kernels):
                walk(p_, sub)
        else:
            for pn in list(r["p"]):
                leaf(r["p"], pn, mod, "raw_" + pn, 0.0)

    walk(case2["kernel"], model.covar_module.data_covar_module)
    Kxx = MT.kron(kern.ref_kernel(case2["kernel"], X, X), MT.ref_task_cov(case2))
    mx = torch.stack([kern.ref_mean(m, X) for m in case2["means"]], -1).reshape(-1)
    A = Kxx + MT.kron(torch.eye(n), MT.ref_task_noise(case2))
    sv = torch.linalg.svdvals(A.detach())
    kappa = float(sv[0] / sv[-1])
    if not math.isfinite(kappa) or kappa > 1e8:
        raise Discard("ill-conditioned (kappa>1e8)")
    # the Kronecker path whitens with the task-noise matrix (generalised eigen-decomposition in the dependency): its conditioning
    # enters the rounding error like that of the full matrix
    svd_ = torch.linalg.svdvals(MT.ref_task_noise(case2).detach())
    kappa_d = float(svd_[0] / svd_[-1].clamp_min(1e-300))
    if kappa_d > 1e8 and not case.get("singular_noise"):
        raise Discard("ill-conditioned task noise (kappa>1e8) outside the singular-noise cell")
    if not case.get("singular_noise"):
        kappa = max(kappa, kappa_d)
    r = y.reshape(-1) - mx
    total_w = -0.5 * ((r * torch.linalg.solve(A, r)).sum() + torch.linalg.slogdet(A)[1] + n * t * math.log(2 * math.pi)) / (n * t)
    grads_w = torch.autograd.grad(total_w, leaves, allow_unused=True)
    with ctx.observing("objective"):
        mll = gpytorch.mlls.ExactMarginalLogLikelihood(lik, model)
        got = mll(model(X), y)
        params = [getattr(mod, rawname) for mod, rawname, _ in mods]
        grads_g = torch.autograd.grad(got, params, allow_unused=True)
    tol = max(G.chol_tol(kappa, kern.smooth_at_zero(case["kernel"])), 1e-9)
    ctx.close("value", got, total_w.detach(), rtol=tol, atol=tol)
    kink = at_kink(dict(case, kernel=case["kernel"]), X)
    for (mod, rawname, key), gw, gg in zip(mods, grads_w, grads_g):
        if kink and key == "lengthscale":
            continue
        gw = torch.zeros_like(getattr(mod, rawname)).reshape(-1) if gw is None else gw.reshape(-1)
        gg = torch.zeros_like(getattr(mod, rawname)).reshape(-1) if gg is None else gg.reshape(-1)
        if gw.numel() != gg.numel():
            ctx.fail(f"grad.{key}", "shape", f"library raw parameter has {gg.numel()} elements, recipe {gw.numel()}")
            continue
        ctx.close(f"grad.{key}", gg, gw, rtol=max(tol, 1e-7), atol=max(tol, 1e-8) * max(1.0, kappa ** 0.5), scale=max(1.0, float(gw.abs().max())))
    ctx.set_nontrivial(n >= 1)
    ctx.label("multitask", f"t={t}", MT.cell(case), f"lrank={case['lik']['rank']}", f"global={case['lik']['global']}")


# ---------------------------------------------------------------------------------------------------
# SumMarginalLogLikelihood over an IndependentModelList = arithmetic mean of the members' MLLs
# ---------------------------------------------------------------------------------------------------
@st.composite
def sum_mll_case(draw):
    k = draw(st.integers(1, 3))
    return {"members": [draw(G.exact_case(depth=1, nmax=4, nsmax=1, test_batches=False, model_batches=[[]], lik_kinds=("Gaussian", "FixedNoise"))) for _ in range(k)]}


def run_sum_mll(case, ctx: Ctx):
    ctx.cls = f"sum_mll|k{len(case['members'])}"
    with ctx.observing("build"):
        built = [G.build_exact(c) for c in case["members"]]
        models = [m for m, _ in built]
        ml = gpytorch.models.IndependentModelList(*models)
        ml.train()
    vals = []
    for c in case["members"]:
        X, y = T(c["X"]), T(c["y"])
        v, A = dense_objective(c, X, y, "mll", torch.Size([]))
        sv = torch.linalg.svdvals(A)
        if float(sv[0] / sv[-1]) > 1e8:
            raise Discard("ill-conditioned (kappa>1e8)")
        vals.append(v / c["n"])
    want = sum(vals) / len(vals)
    with ctx.observing("objective"):
        mll = gpytorch.mlls.SumMarginalLogLikelihood(ml.likelihood, ml)
        out = ml(*ml.train_inputs)
        got = mll(out, ml.train_targets)
    # kernels with a kink at r = 0: in training mode (autograd on) the diagonal of K(X, X) is sqrt(rounding noise) ~ 1e-8 off 1
    tol = 1e-8 if all(kern.smooth_at_zero(c["kernel"]) for c in case["members"]) else 1e-6
    ctx.close("value", got, want, rtol=tol, atol=tol)
    ctx.set_nontrivial(len(case["members"]) >= 2)
    ctx.label("sum_mll", f"k={len(case['members'])}")


# ---------------------------------------------------------------------------------------------------
# registered added loss terms: the SGPR trace term of an InducingPointKernel, also when the kernel sits below other kernels
# (AdditiveKernel / ProductKernel keep their members in a torch ModuleList, ScaleKernel holds it directly)
# ---------------------------------------------------------------------------------------------------
@st.composite
def added_loss_case(draw):
    d = draw(st.integers(1, 2))
    n, m = draw(st.integers(2, 6)), draw(st.integers(1, 4))
    return {"d": d, "n": n, "m": m, "wrap": draw(st.sampled_from(["alone", "add", "prod", "scale", "add_nested"])),
            "base": draw(kern.base_kernel(d, [], names=["RBF", "Matern2.5", "RQ"], allow_ad=False)),
            "k2": draw(kern.base_kernel(d, [], names=["RBF", "Matern1.5", "Periodic"], allow_ad=False)),
            "outputscale": draw(kern.pos(0.2, 3.0)), "Z": draw(kern.points(m, d)), "X": draw(kern.points(n, d)), "y": draw(kern.arr([n], kern.REAL)),
            "noise": [draw(kern.pos(0.05, 1.0))], "mean": draw(kern.mean_recipe(d, []))}


def run_added_loss(case, ctx: Ctx):
    from gpytorch import kernels as K

    ctx.cls = f"added_loss|{case['wrap']}"
    X, y, Z = T(case["X"]), T(case["y"]), T(case["Z"])
    n = case["n"]
    s2 = case["noise"][0]
    Kzz = kern.ref_kernel(case["base"], Z, Z)
    sv = torch.linalg.svdvals(Kzz)
    if float(sv[0] / sv[-1]) > 1e6:
        raise Discard("inducing matrix ill-conditioned (kappa > 1e6)")
    Kxz = kern.ref_kernel(case["base"], X, Z)
    Q = Kxz @ torch.linalg.solve(Kzz, Kxz.T)
    kdiag = kern.ref_kernel(case["base"], X, X).diagonal()
    K2 = kern.ref_kernel(case["k2"], X, X)
    wrap = case["wrap"]
    Ktrain = {"alone": Q, "add": Q + K2, "add_nested": case["outputscale"] * (Q + K2), "prod": Q * K2, "scale": case["outputscale"] * Q}[wrap]
    A = Ktrain + s2 * torch.eye(n)
    sv = torch.linalg.svdvals(A)
    kappa = float(sv[0] / sv[-1])
    if kappa > 1e8:
        raise Discard("ill-conditioned (kappa>1e8)")
    mx = kern.ref_mean(case["mean"], X)
    r = y - mx
    logn = -0.5 * ((r * torch.linalg.solve(A, r)).sum() + torch.linalg.slogdet(A)[1] + n * math.log(2 * math.pi))
    added = -0.5 * ((kdiag - Q.diagonal()) / s2).sum()
    want = (logn + added) / n
    with ctx.observing("build"):
        lik = gpytorch.likelihoods.GaussianLikelihood()
        lik.noise = T(case["noise"])
        ipk = K.InducingPointKernel(kern.build_kernel(case["base"]), inducing_points=Z, likelihood=lik)
        k2 = kern.build_kernel(case["k2"])
        if wrap == "alone":
            covar = ipk
        elif wrap == "add":
            covar = ipk + k2
        elif wrap == "prod":
            covar = ipk * k2
        elif wrap == "scale":
            covar = K.ScaleKernel(ipk)
            covar.outputscale = T(case["outputscale"])
        else:
            covar = K.ScaleKernel(ipk + k2)
            covar.outputscale = T(case["outputscale"])
        model = G.RecipeGP(X, y, lik, kern.build_mean(case["mean"]), covar)
        model.train()
        lik.train()
    with ctx.observing("objective"):
        with torch.no_grad():
            got = gpytorch.mlls.ExactMarginalLogLikelihood(lik, model)(model(X), y)
    tol = max(G.chol_tol(kappa * float(torch.linalg.cond(Kzz)) ** 0.5, True), 1e-8)
    ctx.close("value", got, want, rtol=tol, atol=tol, scale=max(1.0, abs(float(want))))
    ctx.set_nontrivial(float((kdiag - Q.diagonal()).abs().max()) > 1e-6)
    ctx.label("added_loss", f"wrap={wrap}")


RULE = ("exact-GP recipe as in C01 (kernel trees, ARD/active_dims/batch, Gaussian / fixed-noise / fixed + learned noise) x prior "
        "assignment (each constrained parameter independently gets none or one of Normal, LogNormal, Gamma, HalfNormal, HalfCauchy, "
        "Uniform) x objective in {ExactMarginalLogLikelihood, LeaveOneOutPseudoLikelihood}; the oracle rebuilds the objective from raw "
        "leaves (own softplus, reference kernels, slogdet/solve, brute-force LOO) and differentiates it with autograd. Non-trivial: "
        "n >= 2 and (>= 1 prior or batch or non-homoskedastic likelihood); distinct = distinct canonical case.")

SUBCHECKS = [
    Subcheck("mll.value_and_grad", run_mll, strategy=mll_case, quick=1200, thorough=40000, min_shard=40),
    Subcheck("mll.multitask", run_multitask_mll, strategy=multitask_mll_case, quick=500, thorough=15000, min_shard=40),
    Subcheck("mll.sum", run_sum_mll, strategy=sum_mll_case, quick=300, thorough=8000, min_shard=40),
    Subcheck("mll.added_loss", run_added_loss, strategy=added_loss_case, quick=400, thorough=10000, min_shard=40),
]

SPEC = PropertySpec(
    pid="C02",
    rule=RULE,
    assumptions=[
        "float64, CPU, Cholesky path (max_cholesky_size 800) for the value+gradient comparison",
        "the oracle uses the reference kernels of pbt/kern.py (validated against the library in C05) and its own softplus / "
        "GreaterThan(1e-4) noise constraint",
        "cases with cond(Kxx+S) > 1e8 are discarded and counted",
    ],
    subchecks=SUBCHECKS,
)

"""C09 - structure-exploiting kernels and the kernel-specific prediction strategies equal their dense meaning.

Sub-checks (each with its own generator):
  dense.multitask / dense.index / dense.lcm / dense.grid   explicit dense formulas of the structured kernels
  sgpr.train                                               InducingPointKernel = Nystrom matrix, n*mll = Titsias bound
  sgpr.predict                                             SGPRPredictionStrategy = SGPR predictive equations
  kiss.kernel                                              GridInterpolationKernel = W K_UU W^T (independent W and K_UU)
  kiss.predict                                             InterpolatedPredictionStrategy (+ WISKI fantasy) = dense conditional on K~
  kiss.dynamic                                             the same with a data-derived grid (no grid_bounds)
  kiss.convergence                                         W K_UU W^T -> base kernel on refinement (ARD, ragged, different bounds)
  rff.predict                                              RFFKernel = Z Z^T / D, RFFPredictionStrategy = dense conditional on it
  interp.laws / interp.order                               partition of unity, exactness at nodes, lexicographic index, quadratics,
                                                           error order on grid halving
"""
from __future__ import annotations

import math

import torch
from hypothesis import strategies as st

import gpytorch
from gpytorch import kernels as K
from gpytorch import settings as S

from pbt import gpmodel as G
from pbt import kern
from pbt import struct_ref as R
from pbt.core import Ctx, Discard, PropertySpec, Subcheck
from pbt.mtmodel import kron

T = torch.tensor

# product kernels: k(x, x') = prod_i k_i(x_i, x'_i) - the premise of the Kronecker structure used by GridKernel
PRODUCT_KERNELS = ["RBF", "RBF", "Periodic", "SM1", "SM2"]
STATIONARY_1D = kern.STATIONARY + ["Periodic", "Cosine", "SM1"]

UNIT = st.one_of(st.sampled_from([i / 8 for i in range(9)]), st.floats(0, 1, allow_nan=False, allow_subnormal=False).map(lambda v: float(f"{v:.4g}")))


def _dense(op):
    return op.to_dense() if hasattr(op, "to_dense") else op


# ===================================================================================================
# dense formulas: MultitaskKernel, IndexKernel, LCMKernel
# ===================================================================================================
@st.composite
def multitask_kernel_case(draw):
    d = draw(st.integers(1, 3))
    t = draw(st.integers(1, 4))
    rank = draw(st.integers(1, t))
    kb = draw(st.sampled_from([[], [], [2]]))
    xb = draw(st.sampled_from([[], [2]] if not kb else [[], kb]))
    n1, n2 = draw(st.integers(1, 4)), draw(st.integers(1, 4))
    same = draw(st.integers(0, 2)) == 0
    x1 = draw(kern.points(n1, d, xb))
    return {
        "d": d, "t": t, "rank": rank, "kb": kb, "xb": xb, "same": same,
        "kernel": draw(kern.kernel_tree(d, kb, depth=1)),
        "factor": draw(kern.arr(kb + [t, rank], kern.REAL)), "var": draw(kern.arr(kb + [t], kern.pos(0.05, 2.0))),
        "x1": x1, "x2": x1 if same else draw(kern.points(n2, d, xb)),
    }


def run_multitask_kernel(case, ctx: Ctx):
    t = case["t"]
    ctx.cls = f"Multitask|kb{case['kb']}|xb{case['xb']}|{'smooth' if kern.smooth_at_zero(case['kernel']) else 'kink'}"
    ctx.label("mt:rank<t" if case["rank"] < t else "mt:rank=t", f"mt:kb={case['kb']},xb={case['xb']}", "mt:x1=x2(+diag)" if case["same"] else "mt:x1!=x2")
    x1, x2 = T(case["x1"]), T(case["x2"])
    with ctx.observing("build"):
        k = K.MultitaskKernel(kern.build_kernel(case["kernel"]), num_tasks=t, rank=case["rank"], batch_shape=torch.Size(case["kb"]))
        k.task_covar_module.initialize(covar_factor=T(case["factor"]))
        k.task_covar_module.var = T(case["var"])
    B = R.task_cov(case["factor"], case["var"])
    Kd = kern.ref_kernel(case["kernel"], x1, x2)
    want = kron(Kd, B.expand(*Kd.shape[:-2], t, t))  # interleaved: index = point * t + task
    with ctx.observing("eval"), torch.no_grad():
        got = k(x1, x2).to_dense()
        gtask = k.task_covar_module.covar_matrix.to_dense()
        gdiag = _dense(k(x1, x1, diag=True)) if case["same"] else None
    smooth = kern.smooth_at_zero(case["kernel"])
    atol = 1e-11 if smooth else 1e-6  # kink at r=0: the library's quadratic-expansion distance loses sqrt(eps) (DESIGN 1.4)
    ctx.close("task_covar", gtask, B, rtol=1e-9, atol=1e-11)
    ctx.close("kron", got, want, rtol=1e-9, atol=atol)
    if gdiag is not None:
        ctx.close("diag", gdiag, want.diagonal(dim1=-1, dim2=-2), rtol=1e-9, atol=atol)
    ctx.set_nontrivial(t >= 2 and (case["rank"] < t or x1.shape[-2] != x2.shape[-2]))


@st.composite
def index_kernel_case(draw):
    t = draw(st.integers(1, 5))
    rank = draw(st.integers(0, t))
    kb = draw(st.sampled_from([[], [], [2], [2, 3]]))
    ib = draw(st.sampled_from([[], kb]))
    n1, n2 = draw(st.integers(1, 5)), draw(st.integers(1, 5))
    idx = st.integers(0, t - 1)
    return {
        "t": t, "rank": rank, "kb": kb, "ib": ib,
        "factor": draw(kern.arr(kb + [t, rank], kern.REAL)), "var": draw(kern.arr(kb + [t], kern.pos(0.05, 2.0))),
        "i1": draw(kern.arr(ib + [n1, 1], idx)), "i2": draw(kern.arr(ib + [n2, 1], idx)),
    }


def run_index_kernel(case, ctx: Ctx):
    t, kb = case["t"], case["kb"]
    ctx.cls = f"Index|kb{kb}|ib{case['ib']}|rank{'0' if case['rank'] == 0 else ('<t' if case['rank'] < t else '=t')}"
    ctx.label(f"ix:rank{'0' if case['rank'] == 0 else ('<t' if case['rank'] < t else '=t')}", f"ix:kb={kb},ib={case['ib']}")
    i1 = T(case["i1"], dtype=torch.long)
    i2 = T(case["i2"], dtype=torch.long)
    factor = T(case["factor"], dtype=torch.float64).reshape(*kb, t, case["rank"])
    with ctx.observing("build"):
        k = K.IndexKernel(num_tasks=t, rank=case["rank"], batch_shape=torch.Size(kb))
        k.initialize(covar_factor=factor)
        k.var = T(case["var"])
    B = factor @ factor.transpose(-1, -2) + torch.diag_embed(T(case["var"]))
    bs = torch.broadcast_shapes(torch.Size(kb), i1.shape[:-2])
    Bx = B.expand(*bs, t, t)
    r = i1.expand(*bs, *i1.shape[-2:])
    c = i2.expand(*bs, *i2.shape[-2:])
    want = torch.gather(torch.gather(Bx, -2, r.expand(*bs, r.shape[-2], t)), -1, c.transpose(-1, -2).expand(*bs, r.shape[-2], c.shape[-2]))
    with ctx.observing("eval"), torch.no_grad():
        got = k(i1, i2).to_dense()
        gcm = k.covar_matrix.to_dense()
        gd = _dense(k(i1, i1, diag=True))
    ctx.close("covar_matrix", gcm, B, rtol=1e-9, atol=1e-11)
    ctx.close("gather", got, want, rtol=1e-9, atol=1e-11)
    wd = torch.gather(Bx.diagonal(dim1=-1, dim2=-2), -1, r.squeeze(-1))
    ctx.close("diag", gd, wd, rtol=1e-9, atol=1e-11)
    ctx.set_nontrivial(t >= 2 and len(set(map(int, i1.reshape(-1).tolist()))) >= 2)


@st.composite
def lcm_kernel_case(draw):
    d = draw(st.integers(1, 3))
    t = draw(st.integers(1, 4))
    q = draw(st.integers(1, 3))
    rank_list = draw(st.booleans())
    ranks = [draw(st.integers(1, t)) for _ in range(q)] if rank_list else [draw(st.integers(1, t))] * q
    xb = draw(st.sampled_from([[], [], [2]]))
    n1, n2 = draw(st.integers(1, 4)), draw(st.integers(1, 4))
    same = draw(st.integers(0, 2)) == 0
    x1 = draw(kern.points(n1, d, xb))
    return {
        "d": d, "t": t, "ranks": ranks, "rank_list": rank_list, "xb": xb, "same": same,
        # LCMKernel calls MultitaskKernel.forward directly: the active_dims of member kernels are C06's subject, not generated here
        "kernels": [draw(kern.kernel_tree(d, [], depth=1, allow_ad=False)) for _ in range(q)],
        "factors": [draw(kern.arr([t, r], kern.REAL)) for r in ranks], "vars": [draw(kern.arr([t], kern.pos(0.05, 2.0))) for _ in range(q)],
        "x1": x1, "x2": x1 if same else draw(kern.points(n2, d, xb)),
    }


def run_lcm_kernel(case, ctx: Ctx):
    t = case["t"]
    q = len(case["kernels"])
    ctx.cls = f"LCM|q{q}|xb{case['xb']}"
    ctx.label(f"lcm:q={q}", f"lcm:xb={case['xb']}", *(["lcm:rank_list"] if case["rank_list"] else []))
    x1, x2 = T(case["x1"]), T(case["x2"])
    with ctx.observing("build"):
        k = K.LCMKernel([kern.build_kernel(r) for r in case["kernels"]], num_tasks=t, rank=case["ranks"] if case["rank_list"] else case["ranks"][0])
        for m, f, v in zip(k.covar_module_list, case["factors"], case["vars"]):
            m.task_covar_module.initialize(covar_factor=T(f))
            m.task_covar_module.var = T(v)
    want = None
    for r, f, v in zip(case["kernels"], case["factors"], case["vars"]):
        Kd = kern.ref_kernel(r, x1, x2)
        term = kron(Kd, R.task_cov(f, v).expand(*Kd.shape[:-2], t, t))
        want = term if want is None else want + term
    with ctx.observing("eval"), torch.no_grad():
        got = k(x1, x2).to_dense()
        gdiag = _dense(k(x1, x1, diag=True)) if case["same"] else None
    atol = 1e-11 if all(kern.smooth_at_zero(r) for r in case["kernels"]) else 1e-6  # see run_multitask_kernel
    ctx.close("sum_kron", got, want, rtol=1e-9, atol=atol)
    if gdiag is not None:
        ctx.close("diag", gdiag, want.diagonal(dim1=-1, dim2=-2), rtol=1e-9, atol=atol)
    ctx.set_nontrivial(q >= 2 and t >= 2)


# ===================================================================================================
# GridKernel on its own grid
# ===================================================================================================
@st.composite
def grid_axes(draw, d, sizes, regular):
    axes = []
    for g in sizes:
        lo = draw(st.sampled_from([-1.0, -0.5, 0.0, 0.25, 1.0]))
        if regular:
            h = draw(st.sampled_from([0.25, 0.5, 1.0, 0.3, 0.7]))
            axes.append([lo + h * j for j in range(g)])
        else:
            steps = [draw(st.sampled_from([0.25, 0.5, 1.0, 0.3])) for _ in range(g - 1)]
            ax = [lo]
            for s_ in steps:
                ax.append(ax[-1] + s_)
            axes.append(ax)
    return axes


@st.composite
def product_base(draw, d, scale_ok=False):
    """a stationary kernel for which the d-dimensional value is the product of its 1-d values (any stationary kernel if d=1)"""
    if d == 1:
        r = draw(kern.base_kernel(1, [], names=STATIONARY_1D, allow_ad=False))
        if scale_ok and draw(st.integers(0, 2)) == 0:
            r = {"k": "Scale", "batch": [], "base": r, "p": {"outputscale": draw(kern.pos(0.1, 5.0))}}
        return r
    return draw(kern.base_kernel(d, [], names=PRODUCT_KERNELS, allow_ad=False))


@st.composite
def grid_kernel_case(draw):
    d = draw(st.integers(1, 3))
    ragged = draw(st.booleans()) if d > 1 else False
    if ragged:
        sizes = [draw(st.integers(2, 5)) for _ in range(d)]
    else:
        sizes = [draw(st.integers(2, 5))] * d
    toeplitz = draw(st.booleans())
    regular = True if toeplitz else draw(st.booleans())  # Toeplitz structure presupposes equally spaced nodes (documented)
    legacy = len(set(sizes)) == 1 and draw(st.integers(0, 3)) == 0  # a (g x d) tensor instead of a list of axes
    ops = draw(st.lists(st.sampled_from(["grid", "grid", "grid_diag", "cross", "offgrid", "update", "grid_batch"]), min_size=1, max_size=4))
    case = {
        "d": d, "sizes": sizes, "toeplitz": toeplitz, "regular": regular, "legacy": legacy,
        "mode": draw(st.sampled_from(["train", "eval", "eval"])), "ops": ops,
        "axes": draw(grid_axes(d, sizes, regular)), "base": draw(product_base(d, scale_ok=True)),
        "pts": draw(kern.points(draw(st.integers(1, 3)), d)),
    }
    if "update" in ops:
        case["axes2"] = draw(grid_axes(d, sizes, regular))
    return case


def run_grid_kernel(case, ctx: Ctx):
    d = case["d"]
    sizes = case["sizes"]
    ragged = len(set(sizes)) > 1
    ctx.cls = f"Grid|d{d}|{'ragged' if ragged else 'square'}|tz{int(case['toeplitz'])}|{case['mode']}"
    ctx.label(f"grid:d={d}", "grid:ragged" if ragged else "grid:square", "grid:toeplitz" if case["toeplitz"] else ("grid:kron,regular" if case["regular"] else "grid:kron,irregular"),
              f"grid:{case['mode']}", *(["grid:legacy_tensor"] if case["legacy"] else []), *{f"grid:op={o}" for o in case["ops"]})
    axes = [T(a) for a in case["axes"]]
    with ctx.observing("build"):
        base = kern.build_kernel(case["base"])
        k = K.GridKernel(base, torch.stack(axes, -1) if case["legacy"] else axes)
        k.train() if case["mode"] == "train" else k.eval()
    fg = R.colmajor_points(axes)  # documented: "the set of points on the grid going by column-major order"
    with ctx.observing("full_grid"):
        got_fg = k.full_grid.clone()
    ctx.close("full_grid", got_fg, fg, rtol=0, atol=0)
    pts = T(case["pts"])
    smooth = kern.smooth_at_zero(case["base"])
    atol = 1e-11 if smooth else 1e-6  # kernels with a kink at r=0: DESIGN 1.4
    for i, op in enumerate(case["ops"]):
        with ctx.observing(op), torch.no_grad(), S.use_toeplitz(case["toeplitz"]):
            if op == "update":
                axes = [T(a) for a in case["axes2"]]
                k.update_grid(torch.stack(axes, -1) if case["legacy"] else axes)
                fg = R.colmajor_points(axes)
                got, want = k.full_grid.clone(), fg
            elif op == "grid":
                got, want = k(fg, fg).to_dense(), kern.ref_kernel(case["base"], fg, fg)
            elif op == "grid_batch":
                fgb = fg.expand(2, *fg.shape)
                got, want = k(fgb, fgb).to_dense(), kern.ref_kernel(case["base"], fgb, fgb)
            elif op == "grid_diag":
                got, want = _dense(k(fg, fg, diag=True)), kern.ref_kernel(case["base"], fg, fg).diagonal(dim1=-1, dim2=-2)
            elif op == "cross":
                got, want = k(fg, pts).to_dense(), kern.ref_kernel(case["base"], fg, pts)
            else:
                got, want = k(pts, pts).to_dense(), kern.ref_kernel(case["base"], pts, pts)
        ctx.close(op, got, want, rtol=1e-9, atol=atol)
    ctx.set_nontrivial(d >= 2 and (ragged or bool(case["base"].get("ard"))))


# ===================================================================================================
# interpolation laws
# ===================================================================================================
@st.composite
def regular_axes(draw, d, gmin=4, gmax=9):
    out = []
    for _ in range(d):
        g = draw(st.integers(gmin, gmax))
        lo = draw(st.sampled_from([-2.0, -1.0, -0.5, 0.0, 0.3, 1.0]))
        h = draw(st.sampled_from([0.125, 0.25, 0.5, 1.0, 0.1, 0.3, 0.7]))
        out.append({"g": g, "lo": lo, "h": h})
    return out


def _axis(a, dtype=torch.float64):
    return (a["lo"] + a["h"] * torch.arange(a["g"], dtype=torch.float64)).to(dtype)


@st.composite
def interp_case(draw):
    d = draw(st.integers(1, 3))
    axes = draw(regular_axes(d))
    n = draw(st.integers(1, 6))
    # each coordinate: a node index (exact node), or a fraction of the whole grid range (both boundary cells included)
    coord = lambda g: st.one_of(st.integers(0, g - 1).map(lambda j: {"node": j}), UNIT.map(lambda u: {"u": u}))  # noqa: E731
    pts = [[draw(coord(a["g"])) for a in axes] for _ in range(n)]
    if draw(st.integers(0, 3)) == 0:  # a point made of nodes only
        pts[0] = [{"node": draw(st.integers(0, a["g"] - 1))} for a in axes]
    return {"d": d, "axes": axes, "pts": pts, "legacy": len({a["g"] for a in axes}) == 1 and draw(st.integers(0, 3)) == 0,
            "coef": draw(kern.arr([1 + d + d * (d + 1) // 2], kern.REAL))}


def _materialise(axes, pts):
    x = torch.zeros(len(pts), len(axes), dtype=torch.float64)
    for p, row in enumerate(pts):
        for i, c in enumerate(row):
            ax = axes[i]
            x[p, i] = ax[c["node"]] if "node" in c else ax[0] + c["u"] * (ax[-1] - ax[0])
    return x


def _quadratic(coef, x):
    """general quadratic in d variables with the given coefficients"""
    d = x.shape[-1]
    c = list(coef)
    out = torch.full(x.shape[:-1], c.pop(0), dtype=torch.float64)
    for i in range(d):
        out = out + c.pop(0) * x[..., i]
    for i in range(d):
        for j in range(i, d):
            out = out + c.pop(0) * x[..., i] * x[..., j]
    return out


def run_interp_laws(case, ctx: Ctx):
    from gpytorch.utils.interpolation import Interpolation

    d = case["d"]
    axes = [_axis(a) for a in case["axes"]]
    sizes = [a["g"] for a in case["axes"]]
    N = math.prod(sizes)
    ctx.cls = f"interp|d{d}|{'ragged' if len(set(sizes)) > 1 else 'square'}"
    x = _materialise(axes, case["pts"])
    n = x.shape[0]
    with ctx.observing("interpolate"), torch.no_grad():
        idx, val = Interpolation().interpolate(torch.stack(axes, -1) if case["legacy"] else axes, x)
    ctx.equal("shape", (tuple(idx.shape), tuple(val.shape)), ((n, 4**d), (n, 4**d)))
    ctx.check("index_range", bool((idx >= 0).all() and (idx < N).all()), f"indices outside [0, {N}): {idx.min().item()}..{idx.max().item()}")
    if not bool((idx >= 0).all() and (idx < N).all()):
        return
    ctx.close("rows_sum_to_one", val.sum(-1), torch.ones(n), rtol=0, atol=1e-12)
    W = R.scatter_dense(idx, val, N)
    Wref, interior = R.interp_matrix(axes, x)
    # independent dense interpolation matrix (Keys' kernel; nearest-node snapping in the first/last cell), lexicographic index
    ctx.close("weights", W, Wref, rtol=0, atol=1e-11)
    U = R.lex_points(axes)  # node coordinates in meshgrid(indexing="ij") order
    # exact at nodes: a point made of nodes gets the indicator row of that node
    for p, row in enumerate(case["pts"]):
        if all("node" in c for c in row):
            lex = 0
            for i, c in enumerate(row):
                lex = lex * sizes[i] + c["node"]
            e = torch.zeros(N)
            e[lex] = 1.0
            ctx.close("exact_at_node", W[p], e, rtol=0, atol=1e-12)
            ctx.close("node_coordinates", U[lex], x[p], rtol=0, atol=1e-12)
    # quadratics are reproduced where the full 4-node stencil is used
    fU = _quadratic(case["coef"], U)
    fx = _quadratic(case["coef"], x)
    if bool(interior.any()):
        ctx.close("quadratic", (W @ fU)[interior], fx[interior], rtol=0, atol=1e-12, scale=max(1.0, float(fU.abs().max())))
    nodes_only = any(all("node" in c for c in row) for row in case["pts"])
    ctx.set_nontrivial(bool(interior.any()) and (d >= 2 and len(set(sizes)) > 1 or nodes_only))
    ctx.label(f"interp:d={d}", "interp:ragged" if len(set(sizes)) > 1 else "interp:square", *(["interp:interior_pts"] if bool(interior.any()) else []),
              *(["interp:boundary_pts"] if bool((~interior).any()) else []), *(["interp:node_point"] if nodes_only else []), *(["interp:legacy_tensor"] if case["legacy"] else []))


@st.composite
def interp_order_case(draw):
    d = draw(st.integers(1, 2))
    axes = draw(regular_axes(d, gmin=7, gmax=12))
    # smooth test function prod_i sin(a_i x_i + b_i) with a_i * h_i <= 0.6 (asymptotic regime of the third-order scheme)
    freq = [draw(st.sampled_from([0.2, 0.4, 0.6])) / a["h"] for a in axes]
    phase = [draw(st.sampled_from([0.0, 0.5, 1.0, 2.0])) for _ in axes]
    return {"d": d, "axes": axes, "freq": freq, "phase": phase}


def run_interp_order(case, ctx: Ctx):
    from gpytorch.utils.interpolation import Interpolation

    d = case["d"]
    ctx.cls = f"interp_order|d{d}"
    ctx.label(f"interp_order:d={d}")
    f = lambda x: torch.prod(torch.sin(x * T(case["freq"]) + T(case["phase"])), -1)  # noqa: E731
    coarse = [_axis(a) for a in case["axes"]]
    fine = [_axis({"g": 2 * a["g"] - 1, "lo": a["lo"], "h": a["h"] / 2}) for a in case["axes"]]
    # evaluation points: a regular lattice over the part of the range where both grids use the full stencil
    M = 33 if d == 1 else 13
    lat = [ax[1] + (ax[-2] - ax[1]) * (torch.arange(M, dtype=torch.float64) + 0.37) / M for ax in coarse]
    x = R.lex_points(lat)
    errs = []
    for axes in (coarse, fine):
        with ctx.observing("interpolate"), torch.no_grad():
            idx, val = Interpolation().interpolate(axes, x)
        W = R.scatter_dense(idx, val, math.prod(a.numel() for a in axes))
        errs.append(float((W @ f(R.lex_points(axes)) - f(x)).abs().max()))
    # Keys' kernel is third order: halving h divides the sup error by ~8; demand 4 (with an absolute floor at rounding level)
    ctx.check("error_order", errs[1] <= errs[0] / 4 + 1e-13, f"sup error {errs[0]:.3e} on the grid, {errs[1]:.3e} on the halved grid (ratio {errs[0] / max(errs[1], 1e-300):.2f} < 4)")
    ctx.check("error_size", errs[0] <= 0.1, f"sup error {errs[0]:.3e} with a*h <= 0.6")
    ctx.set_nontrivial(errs[0] > 1e-8)


# ===================================================================================================
# GridInterpolationKernel = W K_UU W^T
# ===================================================================================================
@st.composite
def ski_geometry(draw, d, gmin=5, gmax=8, force_asym=None):
    """fixed grid_bounds and grid sizes per dimension"""
    sym = draw(st.integers(0, 3)) == 0 if force_asym is None else not force_asym
    if sym:
        b = [draw(st.sampled_from([-1.0, 0.0, 0.5])), draw(st.sampled_from([1.0, 2.0, 3.0]))]
        g = draw(st.integers(gmin, gmax))
        bounds = [[b[0], b[0] + b[1]] for _ in range(d)]
        sizes = [g] * d
    else:
        bounds = []
        for _ in range(d):
            lo = draw(st.sampled_from([-1.0, 0.0, 0.5]))
            bounds.append([lo, lo + draw(st.sampled_from([1.0, 2.0, 3.0]))])
        sizes = [draw(st.integers(gmin, gmax)) for _ in range(d)]
    return bounds, sizes


def in_bounds_points(n, bounds):
    """strategy: n points, coordinate i a fraction of [bounds[i]]"""
    return kern.arr([n, len(bounds)], UNIT).map(lambda u: [[b[0] + ui * (b[1] - b[0]) for ui, b in zip(row, bounds)] for row in u])


def is_symmetric_setup(case):
    """everything identical across dimensions (the only cell in which the order of the Kronecker factors cannot matter)"""
    b, s = case["bounds"], case["sizes"]
    base = case["base"]
    while base["k"] == "Scale":
        base = base["base"]
    same_ls = True
    for pv in base["p"].values():
        t_ = T(pv)
        if base.get("ard") and t_.dim() >= 2 and t_.shape[-1] > 1 and not bool((t_ == t_[..., :1]).all()):
            same_ls = False
        if base["k"].startswith("SM") and t_.dim() >= 3 and t_.shape[-1] > 1 and not bool((t_ == t_[..., :1]).all()):
            same_ls = False
    return all(bi == b[0] for bi in b) and all(si == s[0] for si in s) and same_ls


@st.composite
def ski_kernel_case(draw):
    d = draw(st.integers(1, 3))
    bounds, sizes = draw(ski_geometry(d, gmin=4 if d == 3 else 5, gmax=6 if d == 3 else 9))
    n1, n2 = draw(st.integers(1, 4)), draw(st.integers(1, 4))
    same = draw(st.integers(0, 2)) == 0
    x1 = draw(in_bounds_points(n1, bounds))
    return {
        "d": d, "bounds": bounds, "sizes": sizes, "toeplitz": draw(st.booleans()), "same": same,
        "size_as_int": len(set(sizes)) == 1 and draw(st.booleans()),
        "base": draw(product_base(d)), "x1": x1, "x2": x1 if same else draw(in_bounds_points(n2, bounds)),
    }


def build_ski(case):
    base = kern.build_kernel(case["base"])
    gs = case["sizes"][0] if case.get("size_as_int") else list(case["sizes"])
    if case.get("bounds") is None:
        return K.GridInterpolationKernel(base, grid_size=gs, num_dims=case["d"])
    return K.GridInterpolationKernel(base, grid_size=gs, grid_bounds=[tuple(b) for b in case["bounds"]])


def ref_ski(base_recipe, axes, x1, x2):
    """W1 K_UU W2^T with the independent interpolation matrix and the base kernel on the lexicographically ordered nodes"""
    axes = [a.to(torch.float64) for a in axes]
    U = R.lex_points(axes)
    W1, _ = R.interp_matrix(axes, x1)
    W2, _ = R.interp_matrix(axes, x2)
    return W1 @ kern.ref_kernel(base_recipe, U, U) @ W2.T


def run_ski_kernel(case, ctx: Ctx):
    d = case["d"]
    sym = is_symmetric_setup(case)
    ctx.cls = f"SKI|d{d}|{'sym' if sym or d == 1 else 'asym'}|tz{int(case['toeplitz'])}"
    ctx.label(f"ski:d={d}", "ski:sym" if sym or d == 1 else "ski:asym", "ski:toeplitz" if case["toeplitz"] else "ski:dense_factors")
    x1, x2 = T(case["x1"]), T(case["x2"])
    with ctx.observing("build"):
        k = build_ski(case)
    with ctx.observing("eval"), torch.no_grad(), S.use_toeplitz(case["toeplitz"]):
        got = k(x1, x2).to_dense()
        gd = _dense(k(x1, x1, diag=True)) if case["same"] else None
        axes = [a.clone() for a in k.grid]
    # geometry of the inducing grid: grid_size equally spaced nodes covering the bounds with a margin on either side
    for i, a in enumerate(axes):
        lo, hi = case["bounds"][i]
        steps = (a[1:] - a[:-1]).to(torch.float64)
        ctx.check("grid_nodes", a.numel() == case["sizes"][i] and float(a[0]) < lo and float(a[-1]) > hi and bool(steps.min() > 0)
                  and float(steps.max() - steps.min()) <= 1e-5 * max(1.0, abs(lo), abs(hi)), f"axis {i}: {a.tolist()} for bounds {lo, hi}")
    want = ref_ski(case["base"], axes, x1, x2)
    # tolerance: the grid buffers are float32 (create_grid default dtype, DESIGN section 4 note): node positions and the
    # spacing carry ~6e-8 relative error, the Toeplitz assembly assumes exactly equal spacing -> 1e-5 (measured worst 2e-6)
    ctx.close("W_Kuu_Wt", got, want, rtol=1e-5, atol=1e-5)
    if gd is not None:
        ctx.close("diag", gd, want.diagonal(dim1=-1, dim2=-2), rtol=1e-5, atol=1e-5)
    ctx.set_nontrivial(d >= 2 and not sym)


# ===================================================================================================
# SGPR: InducingPointKernel, Titsias bound, predictive equations
# ===================================================================================================
SPD_KERNELS = ["RBF", "Matern0.5", "Matern1.5", "Matern2.5", "RQ", "PP0", "PP1", "PP2", "PP3", "SM1"]
_ZGRID = [-2.5, -2.0, -1.5, -1.0, -0.5, 0.0, 0.5, 1.0, 1.5, 2.0, 2.5]


@st.composite
def distinct_points(draw, m, d):
    """m points, pairwise at least 0.25 apart in every active-dims projection that contains coordinate pattern (all coordinates
    of a row come from one lattice value + a small per-coordinate offset, the lattice values are distinct across rows)"""
    vals = draw(st.permutations(_ZGRID).map(lambda p: list(p[:m])))
    return [[v + draw(st.sampled_from([0.0, 0.0, 0.1, -0.1, 0.125])) for _ in range(d)] for v in vals]


@st.composite
def sgpr_case(draw, predict):
    d = draw(st.integers(1, 3))
    n = draw(st.integers(2, 8))
    m = draw(st.integers(1, 5))
    case = {
        "d": d, "n": n, "m": m,
        # strictly positive definite kernels and pairwise distinct inducing points: Kzz is invertible by construction
        "base": draw(kern.kernel_tree(d, [], depth=1, names=SPD_KERNELS)),
        "mean": draw(kern.mean_recipe(d, [])),
        "lik": draw(G.likelihood_recipe([], [], n)),
        "X": draw(kern.points(n, d)), "y": draw(kern.arr([n], kern.REAL)), "Z": draw(distinct_points(m, d)),
        "z_1d": d == 1 and draw(st.integers(0, 3)) == 0,  # 1-d inducing points handed over as a vector
    }
    if predict:
        ns = draw(st.integers(1, 4))
        case["ns"] = ns
        case["Xs"] = draw(kern.points(ns, d))
        case["corr"] = draw(st.booleans())
        case["lazy"] = draw(st.sampled_from([True, True, False]))
        case["fpv"] = draw(st.booleans())
        case["detach"] = draw(st.booleans())
        case["second_call"] = draw(st.integers(0, 3)) == 0
        if draw(st.integers(0, 4)) == 0:
            case["Xs"][0] = list(case["X"][0])  # one coinciding row
        # test inputs identical to the training inputs: only without the diagonal correction (with it the kernel's own cross
        # block K(X*, X) carries the correction on its diagonal, i.e. FITC at the training points - not an SGPR equation)
        case["same_inputs"] = (not case["corr"]) and draw(st.integers(0, 11)) == 0
        if case["same_inputs"]:
            case["Xs"], case["ns"] = case["X"], n
        elif case["Xs"] == case["X"]:
            case["Xs"][0][0] = case["Xs"][0][0] + 0.5
    return case


def _sgpr_build(case):
    lik = G.build_likelihood(case["lik"])
    base = kern.build_kernel(case["base"])
    Z = T(case["Z"])
    ipk = K.InducingPointKernel(base, Z.squeeze(-1).clone() if case["z_1d"] else Z.clone(), likelihood=lik)
    model = G.RecipeGP(T(case["X"]), T(case["y"]), lik, kern.build_mean(case["mean"]), ipk)
    return model, lik, ipk


def _sgpr_blocks(case, extra=None):
    """blocks of the BASE kernel as a second, independent instance of it evaluates them (eagerly); the base kernels
    themselves are C05's subject.  Returns Kzz, Kxz, kxx_diag (+ Ksz, Kss for extra inputs)"""
    base = kern.build_kernel(case["base"])
    X, Z = T(case["X"]), T(case["Z"])
    with torch.no_grad(), S.lazily_evaluate_kernels(False):
        out = [base(Z, Z).to_dense(), base(X, Z).to_dense(), base(X, X).to_dense()]
        if extra is not None:
            out += [base(extra, Z).to_dense(), base(extra, extra).to_dense()]
    return out


def _sgpr_tol(kzz, kA):
    # Nystrom (one solve with Kzz) followed by one solve with Q+S: 1e3*eps*kappa(Kzz)*kappa(Q+S), clipped to [1e-10, 1e-6]
    return min(max(1e3 * 2.2e-16 * kzz * max(kA, 1.0), 1e-10), 1e-6)


def run_sgpr_train(case, ctx: Ctx):
    n, m = case["n"], case["m"]
    ctx.cls = f"SGPR|train|{case['lik']['l']}{'+' if case['lik'].get('learn') else ''}"
    ctx.label(f"sgpr_train:lik={case['lik']['l']}{'+' if case['lik'].get('learn') else ''}", f"sgpr_train:m{'<' if m < n else ('=' if m == n else '>')}n", *(["sgpr_train:z_1d"] if case["z_1d"] else []))
    X, y = T(case["X"]), T(case["y"])
    with ctx.observing("blocks"):
        Kzz, Kxz, Kxx = _sgpr_blocks(case)
    kzz = R.cond(Kzz)
    if not kzz <= 1e6:
        raise Discard("inducing matrix Kzz ill-conditioned (kappa > 1e6): the Nystrom matrix is not defined by a stable inverse")
    Q = R.nystrom(Kxz, Kzz, Kxz.T)
    sd = G.ref_noise_diag(case["lik"], n, torch.Size([]))
    A = Q + torch.diag_embed(sd)
    kA = R.cond(A)
    if not kA <= 1e8:
        raise Discard("ill-conditioned (kappa>1e+08)")
    tol = _sgpr_tol(kzz, kA)
    mx = kern.ref_mean(case["mean"], X)
    # Titsias (2009) collapsed bound, heteroskedastic form: log N(y; m, Q + S) - 1/2 sum_i (k_ii - q_ii) / s_i
    bound = R.gauss_logpdf(y, mx, A) - 0.5 * ((Kxx.diagonal() - Q.diagonal()) / sd).sum()
    with ctx.observing("train"):
        model, lik, ipk = _sgpr_build(case)
        model.train()
        lik.train()
        with torch.no_grad():
            gK = ipk(X).to_dense()
            gdiag = _dense(ipk(X, diag=True))
            out = model(X)
            gcov = out.covariance_matrix
            mll = gpytorch.mlls.ExactMarginalLogLikelihood(lik, model)
            val = mll(out, y)
    scale = max(1.0, float(Q.abs().max()))
    ctx.close("nystrom", gK, Q, rtol=tol, atol=tol, scale=scale)
    ctx.close("nystrom_diag", gdiag, Q.diagonal(), rtol=tol, atol=tol, scale=scale)
    ctx.close("model_covar", gcov, Q, rtol=tol, atol=tol, scale=scale)
    ctx.close("titsias_bound", val * n, bound, rtol=max(tol, 1e-9), atol=max(tol, 1e-9), scale=max(1.0, abs(float(bound))))
    ctx.set_nontrivial(n != m and float((Kxx.diagonal() - Q.diagonal()).abs().max()) > 1e-6)


def run_sgpr_predict(case, ctx: Ctx):
    n, m, ns = case["n"], case["m"], case["ns"]
    corr, lazy = case["corr"], case["lazy"]
    has_ad = any(l.get("ad") is not None for l in kern.leaves(case["base"]))
    same = T(case["X"]).shape == T(case["Xs"]).shape and torch.equal(T(case["X"]), T(case["Xs"]))
    ctx.cls = (f"SGPR|predict|corr{int(corr)}|{'lazy' if lazy else 'eager'}|{'same_inputs' if same else 'distinct'}"
               f"|{'base_active_dims' if has_ad else 'base_all_dims'}")
    ctx.label(f"sgpr:corr={int(corr)},{'lazy' if lazy else 'eager'}", *(["sgpr:fpv"] if case["fpv"] else []), *(["sgpr:same_inputs"] if same else []), *(["sgpr:second_call"] if case["second_call"] else []),
              f"sgpr:lik={case['lik']['l']}{'+' if case['lik'].get('learn') else ''}", f"sgpr:m{'<' if m < n else ('=' if m == n else '>')}n", *(["sgpr:base_active_dims"] if has_ad else []))
    X, y, Xs = T(case["X"]), T(case["y"]), T(case["Xs"])
    if corr and torch.equal(X, Xs):
        raise Discard("test inputs identical to the training inputs with the diagonal correction on (FITC cross block): not judged")
    with ctx.observing("blocks"):
        Kzz, Kxz, Kxx, Ksz, Kss = _sgpr_blocks(case, Xs)
    kzz = R.cond(Kzz)
    if not kzz <= 1e6:
        raise Discard("inducing matrix Kzz ill-conditioned (kappa > 1e6): the Nystrom matrix is not defined by a stable inverse")
    Qxx = R.nystrom(Kxz, Kzz, Kxz.T)
    Qxs = R.nystrom(Kxz, Kzz, Ksz.T)
    Qss = R.nystrom(Ksz, Kzz, Ksz.T)
    # evaluation-mode train-train matrix: Q, plus the (clamped) diagonal correction when the setting is on
    Ktt = Qxx + (torch.diag_embed((Kxx.diagonal() - Qxx.diagonal()).clamp_min(0)) if corr else 0)
    if lazy:
        Ktest = Kss  # SGPR predictive equations: prior test-test block of the exact kernel
    else:
        # non-default eager path: only "strategy = dense conditional on the matrix the kernel evaluates to" is checked
        Ktest = Qss + (torch.diag_embed((Kss.diagonal() - Qss.diagonal()).clamp_min(0)) if corr else 0)
    sd = G.ref_noise_diag(case["lik"], n, torch.Size([]))
    mx, ms = kern.ref_mean(case["mean"], X), kern.ref_mean(case["mean"], Xs)
    mean_w, cov_w, kA, _ = G.dense_conditional(Ktt, Qxs, Ktest, mx, ms, sd, y)
    tol = _sgpr_tol(kzz, kA)
    with ctx.observing("predict"):
        model, lik, ipk = _sgpr_build(case)
        model.eval()
        lik.eval()
        with torch.no_grad(), S.sgpr_diagonal_correction(corr), S.lazily_evaluate_kernels(lazy), S.fast_pred_var(case["fpv"]), \
                S.detach_test_caches(case["detach"]):
            gKtt = ipk(X).to_dense()
            if case["second_call"]:
                model(Xs[:1] + 0.125)
            out = model(Xs)
            gm, gc, gv = out.mean, out.covariance_matrix, out.variance
    scale = max(1.0, float(cov_w.abs().max()), float(mean_w.abs().max()), float(Ktt.abs().max()))
    ctx.close("eval_train_covar", gKtt, Ktt, rtol=tol, atol=tol, scale=scale)
    ctx.close("mean", gm, mean_w, rtol=tol, atol=tol, scale=scale)
    ctx.close("cov", gc, cov_w, rtol=tol, atol=tol, scale=scale)
    ctx.close("variance", gv, cov_w.diagonal().clamp_min(S.min_variance.value(gc.dtype)), rtol=tol, atol=tol, scale=scale)
    ctx.set_nontrivial(n != m and ns >= 2)


# ===================================================================================================
# random Fourier features
# ===================================================================================================
@st.composite
def rff_case(draw):
    d = draw(st.integers(1, 3))
    n = draw(st.integers(2, 8))
    ns = draw(st.integers(1, 4))
    ard = d > 1 and draw(st.booleans())
    case = {
        "d": d, "n": n, "ns": ns, "D": draw(st.integers(1, 6)), "ard": ard,
        "lengthscale": draw(kern.arr([1, d if ard else 1], kern.pos(0.3, 5.0))),
        "outputscale": draw(st.one_of(st.none(), kern.pos(0.1, 5.0))),
        "mean": draw(kern.mean_recipe(d, [])), "lik": draw(G.likelihood_recipe([], [], n)),
        "X": draw(kern.points(n, d)), "y": draw(kern.arr([n], kern.REAL)), "Xs": draw(kern.points(ns, d)),
        "lazy": draw(st.sampled_from([True, True, False])), "skip_var": draw(st.integers(0, 7)) == 0,
        "second_call": draw(st.integers(0, 3)) == 0, "torch_seed": draw(st.integers(0, 2**31 - 1)),
    }
    return case


def run_rff(case, ctx: Ctx):
    d, n, ns, D = case["d"], case["n"], case["ns"], case["D"]
    ctx.cls = f"RFF|{'scale' if case['outputscale'] is not None else 'plain'}|{'lazy' if case['lazy'] else 'eager'}|{'n>2D' if n > 2 * D else 'n<=2D'}"
    ctx.label("rff:scale" if case["outputscale"] is not None else "rff:plain", f"rff:{'lazy' if case['lazy'] else 'eager'}", "rff:n>2D" if n > 2 * D else "rff:n<=2D",
              *(["rff:ard"] if case["ard"] else []), *(["rff:skip_var"] if case["skip_var"] else []), f"rff:lik={case['lik']['l']}")
    X, y, Xs = T(case["X"]), T(case["y"]), T(case["Xs"])
    with ctx.observing("build"):
        torch.manual_seed(case["torch_seed"])  # the kernel draws its spectral weights at construction
        rk = K.RFFKernel(num_samples=D, num_dims=d, ard_num_dims=d if case["ard"] else None)
        rk.lengthscale = T(case["lengthscale"])
        covar = rk
        if case["outputscale"] is not None:
            covar = K.ScaleKernel(rk)
            covar.outputscale = case["outputscale"]
        lik = G.build_likelihood(case["lik"])
        model = G.RecipeGP(X, y, lik, kern.build_mean(case["mean"]), covar)
        weights = rk.randn_weights.clone()  # "the stored weights"
    ctx.equal("weights_shape", tuple(weights.shape), (d, D))
    c = 1.0 if case["outputscale"] is None else case["outputscale"]
    Zx = R.rff_features(X, weights, T(case["lengthscale"]))
    Zs = R.rff_features(Xs, weights, T(case["lengthscale"]))
    Kxx, Kxs, Kss = c * Zx @ Zx.T / D, c * Zx @ Zs.T / D, c * Zs @ Zs.T / D
    with ctx.observing("kernel"), torch.no_grad():
        gxx = covar(X).to_dense()
        gxs = covar(X, Xs).to_dense()
        gd = _dense(covar(X, diag=True))
    ctx.close("ZZt", gxx, Kxx, rtol=1e-9, atol=1e-11)
    ctx.close("ZZt_cross", gxs, Kxs, rtol=1e-9, atol=1e-11)
    ctx.close("ZZt_diag", gd, Kxx.diagonal(), rtol=1e-9, atol=1e-11)
    sd = G.ref_noise_diag(case["lik"], n, torch.Size([]))
    mx, ms = kern.ref_mean(case["mean"], X), kern.ref_mean(case["mean"], Xs)
    mean_w, cov_w, kappa, _ = G.dense_conditional(Kxx, Kxs, Kss, mx, ms, sd, y)
    tol = G.chol_tol(kappa)
    with ctx.observing("predict"):
        model.eval()
        lik.eval()
        with torch.no_grad(), S.lazily_evaluate_kernels(case["lazy"]), S.skip_posterior_variances(case["skip_var"]):
            if case["second_call"]:
                model(Xs[:1] + 0.125)
            out = model(Xs)
            gm, gc = out.mean, out.covariance_matrix
    scale = max(1.0, float(cov_w.abs().max()), float(mean_w.abs().max()))
    ctx.close("mean", gm, mean_w, rtol=tol, atol=tol, scale=scale)
    if case["skip_var"]:
        ctx.close("skipped.cov_is_zero", gc, torch.zeros_like(cov_w), rtol=0, atol=0)
    else:
        ctx.close("cov", gc, cov_w, rtol=tol, atol=tol, scale=scale)
    ctx.set_nontrivial(ns >= 2 and n != 2 * D)


# ===================================================================================================
# KISS-GP predictions
# ===================================================================================================
@st.composite
def kiss_settings(draw, n):
    s = G.default_settings()
    s["fpv"] = draw(st.booleans())
    s["max_chol"] = draw(st.sampled_from([800, 0]))
    s["precond"] = draw(st.sampled_from([0, 15]))
    s["detach"] = draw(st.booleans())
    s["lazy"] = draw(st.sampled_from([True, True, False]))
    return s


@st.composite
def kiss_predict_case(draw):
    d = draw(st.integers(1, 2))
    bounds, sizes = draw(ski_geometry(d, gmin=5, gmax=8 if d == 2 else 12))
    n = draw(st.integers(2, 8))
    ns = draw(st.integers(1, 4))
    fantasy = draw(st.integers(0, 2)) == 0
    lik_kinds = ("Gaussian",) if fantasy else ("Gaussian", "Gaussian", "FixedNoise", "FixedNoise+")
    case = {
        "d": d, "bounds": bounds, "sizes": sizes, "n": n, "ns": ns, "size_as_int": False,
        "base": draw(product_base(d)), "outputscale": draw(st.one_of(st.none(), kern.pos(0.1, 5.0))),
        "mean": draw(kern.mean_recipe(d, [])), "lik": draw(G.likelihood_recipe([], [], n, lik_kinds)),
        "X": draw(in_bounds_points(n, bounds)), "y": draw(kern.arr([n], kern.REAL)), "Xs": draw(in_bounds_points(ns, bounds)),
        "settings": draw(kiss_settings(n)), "fps": draw(st.booleans()),
        "torch_seed": draw(st.integers(0, 2**31 - 1)),
    }
    if case["settings"]["max_chol"] == 0 and (case["settings"]["fpv"] or case["fps"]) and n < 3:
        case["settings"]["max_chol"] = 800  # the dependency's Lanczos needs at least a 3x3 matrix
    if case["settings"]["max_chol"] == 0:
        # iterative paths: construct a domain on which the dependency's CG / Lanczos are accurate (pairwise distinct training
        # rows -> no repeated eigenvalues; noise >= 0.1 -> moderate condition numbers) instead of discarding afterwards
        case["X"] = [[b[0] + ((x - b[0]) / (b[1] - b[0]) * 0.8 + 0.011 * (i + 1) * (j + 1)) * (b[1] - b[0]) for j, (x, b) in enumerate(zip(row, bounds))]
                     for i, row in enumerate(case["X"])]
        lr = case["lik"]
        lr["noise"] = [max(v, 0.1) for v in lr["noise"]]
    if fantasy and case["fps"] and not case["settings"]["fpv"] and draw(st.integers(0, 3)) != 0:
        case["settings"]["fpv"] = True  # keep the (WISKI, fast_pred_samples, no fast_pred_var) cell thin: known finding C09-wiski-fps
    if fantasy:
        nf = draw(st.integers(1, 3))
        case["Xf"] = draw(in_bounds_points(nf, bounds))
        case["yf"] = draw(kern.arr([nf], kern.REAL))
    return case


def _kiss_model(case, dynamic=False):
    gik = build_ski(case)
    covar = gik
    if case["outputscale"] is not None:
        covar = K.ScaleKernel(gik)
        covar.outputscale = case["outputscale"]
    lik = G.build_likelihood(case["lik"])
    model = G.RecipeGP(T(case["X"]), T(case["y"]), lik, kern.build_mean(case["mean"]), covar)
    return model, lik, covar, gik


def _joint_blocks(covar, parts):
    """K~ on the concatenation of `parts` as the kernel itself evaluates it (eagerly, one call, one grid)"""
    with torch.no_grad(), S.lazily_evaluate_kernels(False):
        return covar(torch.cat(parts, -2)).to_dense()


class _iter_ctx:
    """gpmodel.settings_ctx (tolerance 1e-12, full-rank decompositions) with the CG iteration cap lowered from 2000 to 100: the
    systems have <= 11 unknowns, and the dependency's CG keeps iterating to the cap once its 1e-12 target is below what it can
    measure (each iteration is a structured W K_UU W^T product)"""

    def __init__(self, s):
        self.s = s

    def __enter__(self):
        from contextlib import ExitStack

        self.stack = ExitStack()
        self.stack.enter_context(G.settings_ctx(self.s))
        self.stack.enter_context(S.max_cg_iterations(100))
        self.stack.enter_context(S.max_lanczos_quadrature_iterations(100))  # linear_cg insists on tridiag size <= iteration cap
        return self

    def __exit__(self, *a):
        return self.stack.__exit__(*a)


def _calibrate_cg(A, rhs, s):
    """gpmodel.cg_calibration's idea under the settings used here: solve the dense system with the dependency's CG itself and
    discard the case if the *solver* misses the dense solution (limit one order below the comparison atol)"""
    from linear_operator import to_linear_operator

    with _iter_ctx(s), torch.no_grad():
        sol = to_linear_operator(A).solve(rhs)
    ref = torch.linalg.solve(A, rhs)
    err = float((sol - ref).abs().max() / ref.abs().max().clamp_min(1e-300))
    if not err <= 1e-6:
        raise Discard("cg path: the dependency's CG (tolerance 1e-12) misses the dense solution of this very system by > 1e-6")


def _calibrate_lanczos_root(M, s):
    """fast_pred_samples above max_cholesky_size: the strategy takes a Lanczos root decomposition of the numerically singular
    m x m matrix K_UU - K_UU W^T (K~+S)^-1 W K_UU.  Run the dependency's root_decomposition on the dense version of that very
    matrix and discard the case if the decomposition itself does not reproduce it (domain calibration, not the oracle)."""
    from linear_operator import to_linear_operator

    with _iter_ctx(s), torch.no_grad():
        root = to_linear_operator(M).root_decomposition().root.to_dense()
    err = float((root @ root.transpose(-1, -2) - M).abs().max() / M.abs().max().clamp_min(1e-300))
    if not err <= 1e-5:
        raise Discard("lanczos path: the dependency's Lanczos root decomposition does not reproduce the m x m matrix it is given (> 1e-5)")


def _kiss_tolerances(case, s, fps, A, rhs, kappa, inside=None):
    """(rtol, atol) and domain calibration of the iterative paths.  The generator constructs well-conditioned systems with
    pairwise distinct training rows for these paths; what is left is discarded (not reported) when the dependency's own
    solver misses the dense solution of the very same system (gpmodel.cg_calibration, one order below the comparison atol)."""
    if s["max_chol"] == 0 and (s["fpv"] or fps):
        # Lanczos (root / inverse-root decompositions from one start vector): spans the whole space only if the eigenvalues of
        # K~+S are distinct; measured error on this domain <= 7e-6, tolerance as in C01 (DESIGN 1.4: Lanczos 2e-3)
        if A.shape[-1] < 3:
            raise Discard("lanczos path: the dependency's Lanczos needs at least a 3x3 matrix")
        ev = torch.linalg.eigvalsh(A)
        gap = float(((ev[1:] - ev[:-1]) / ev[-1:]).min()) if A.shape[-1] > 1 else 1.0
        if gap < 1e-6 or kappa > 1e4:
            raise Discard("lanczos path: repeated eigenvalue (relative gap < 1e-6) or kappa > 1e4")
        _calibrate_cg(A, rhs, s)
        if fps:
            # fast_pred_samples above max_cholesky_size takes a single-start-vector Lanczos root of the numerically singular m x m
            # matrix K_UU - K_UU W^T (K~+S)^-1 W K_UU.  That is not an exact algorithm on such a matrix: how well the root reproduces
            # it depends on the random start vector of the very call (a calibration call with another vector says nothing about it;
            # thorough tier, unchanged tree: 8e-3 on one case in 1e5).  Outside "full rank where they are exact algorithms": counted.
            raise Discard("fast_pred_samples above max_cholesky_size: Lanczos root of a numerically singular matrix (not an exact algorithm)")
        return 2e-3, 2e-3
    if s["max_chol"] == 0:
        if kappa > 1e5:
            raise Discard("ill-conditioned (kappa>1e+05) on the CG path")
        _calibrate_cg(A, rhs, s)
        return 1e-4, 1e-5
    t = G.chol_tol(kappa)
    return t, t


def run_kiss_predict(case, ctx: Ctx):
    d, n, ns = case["d"], case["n"], case["ns"]
    s, fps = case["settings"], case["fps"]
    fantasy = "Xf" in case
    path = "chol" if s["max_chol"] else ("lanczos" if (s["fpv"] or fps) else "cg")
    ctx.cls = f"KISS|d{d}|{'wiski' if fantasy else 'plain'}|fpv{int(s['fpv'])}|fps{int(fps)}|{path}"
    ctx.label(f"kiss:d={d}", f"kiss:{'wiski' if fantasy else 'plain'}:{path}", f"kiss:fpv={int(s['fpv'])},fps={int(fps)}", *([] if s["lazy"] else ["kiss:eager"]),
              *(["kiss:scale"] if case["outputscale"] is not None else []), f"kiss:lik={case['lik']['l']}{'+' if case['lik'].get('learn') else ''}", *(["kiss:no_precond"] if s["precond"] == 0 else []))
    X, y, Xs = T(case["X"]), T(case["y"]), T(case["Xs"])
    # ---- oracle: dense conditional on K~ evaluated eagerly by a second instance of the same kernel
    with ctx.observing("own_prior"):
        _, _, covar2, gik2 = _kiss_model(case)
        parts = [X] + ([T(case["Xf"])] if fantasy else []) + [Xs]
        Kf = _joint_blocks(covar2, parts)
    Xall = torch.cat(parts[:-1], -2)
    yall = torch.cat([y] + ([T(case["yf"])] if fantasy else []))
    nt = Xall.shape[0]
    sd = G.ref_noise_diag(case["lik"], n, torch.Size([]))
    if fantasy:
        sd = torch.cat([sd, T(case["lik"]["noise"]).expand(nt - n)])
    mx, ms = kern.ref_mean(case["mean"], Xall), kern.ref_mean(case["mean"], Xs)
    mean_w, cov_w, kappa, A = G.dense_conditional(Kf[:nt, :nt], Kf[:nt, nt:], Kf[nt:, nt:], mx, ms, sd, yall)
    rhs = torch.cat([(yall - mx).unsqueeze(-1), Kf[:nt, nt:]], -1)
    inside = None
    if fps and s["max_chol"] == 0 and not fantasy:
        with ctx.observing("own_prior"), torch.no_grad():
            axes = [a.clone().to(torch.float64) for a in gik2.grid]
        c = 1.0 if case["outputscale"] is None else case["outputscale"]
        U = R.lex_points(axes)
        Kuu = c * kern.ref_kernel(case["base"], U, U)
        Wx, _ = R.interp_matrix(axes, X)
        KW = Kuu @ Wx.T
        inside = Kuu - KW @ torch.linalg.solve(A, KW.T)
    rtol, atol = _kiss_tolerances(case, s, fps, A, rhs, kappa, inside)
    if fantasy or fps:
        # WISKI and fast_pred_samples work with Cholesky factors of numerically singular m x m matrices (W D^-1 W^T,
        # K_UU - K_UU W^T (K~+S)^-1 W K_UU): the jitter the dependency's psd_safe_cholesky adds to factor them (1e-8, escalating
        # to 1e-6) is part of the algorithm.  Measured on the unchanged tree: <= 1e-7; every seeded defect is >= 1e-3.
        rtol, atol = max(rtol, 1e-5), max(atol, 1e-5)
    if fantasy and s["max_chol"] == 0:
        # WISKI above max_cholesky_size: the fantasy caches come from CG solves against those numerically singular m x m grid
        # matrices, which the calibration of the n x n system above says nothing about (thorough tier, unchanged tree: up to 2.2e-4
        # relative on the mean): the class of the Lanczos-backed caches, 2e-3
        rtol, atol = max(rtol, 2e-3), max(atol, 2e-3)
    with ctx.observing("predict"):
        model, lik, covar, gik = _kiss_model(case)
        model.eval()
        lik.eval()
        torch.manual_seed(case["torch_seed"])
        with _iter_ctx(s), S.fast_pred_samples(fps), torch.no_grad():
            if fantasy:
                model(Xs[:1])
                model = model.get_fantasy_model(T(case["Xf"]), T(case["yf"]))
            out = model(Xs)
            gm, gc = out.mean, out.covariance_matrix
    scale = max(1.0, float(cov_w.abs().max()), float(mean_w.abs().max()))
    ctx.close("mean", gm, mean_w, rtol=rtol, atol=atol, scale=scale)
    ctx.close("cov", gc, cov_w, rtol=rtol, atol=atol, scale=scale)
    ctx.set_nontrivial(ns >= 2 and (d >= 2 or fantasy or s["fpv"] or fps or s["max_chol"] == 0))


# ---- dynamic grid (no grid_bounds) ---------------------------------------------------------------
@st.composite
def kiss_dynamic_case(draw):
    d = draw(st.integers(1, 2))
    n = draw(st.integers(3, 8))
    ns = draw(st.integers(1, 4))
    lo = [draw(st.sampled_from([-1.0, 0.0, 0.5])) for _ in range(d)]
    w = [draw(st.sampled_from([1.0, 2.0, 3.0])) for _ in range(d)]
    U = draw(kern.arr([n, d], UNIT))
    U[0], U[1] = [0.0] * d, [1.0] * d  # the training range is [lo, lo + w] in every dimension
    out_of_range = draw(st.booleans())
    Us = draw(kern.arr([ns, d], UNIT))
    if out_of_range:
        side = draw(st.sampled_from([-1, 1]))
        Us = [[2 * u - 0.5 for u in row] for row in Us]  # [-0.5, 1.5]
        Us[0][draw(st.integers(0, d - 1))] = 1.25 if side > 0 else -0.25  # at least one coordinate outside
    else:
        pass  # fractions of the training range, its end points included
    tox = lambda UU: [[l_ + u * w_ for u, l_, w_ in zip(row, lo, w)] for row in UU]  # noqa: E731
    return {
        "d": d, "n": n, "ns": ns, "bounds": None, "sizes": [draw(st.integers(8, 12)) for _ in range(d)], "size_as_int": False,
        "base": draw(product_base(d)), "outputscale": draw(st.one_of(st.none(), kern.pos(0.1, 5.0))),
        "mean": draw(kern.mean_recipe(d, [])), "lik": draw(G.likelihood_recipe([], [], n, ("Gaussian",))),
        "X": tox(U), "y": draw(kern.arr([n], kern.REAL)), "Xs": tox(Us), "out_of_range": out_of_range,
        "trained_first": draw(st.booleans()),  # one training-mode forward pass before eval (the usual workflow)
        "second_call": draw(st.integers(0, 2)) == 0,
    }


def run_kiss_dynamic(case, ctx: Ctx):
    d, n, ns = case["d"], case["n"], case["ns"]
    ctx.cls = f"KISS|dynamic|d{d}|{'test_outside_train_range' if case['out_of_range'] else 'test_inside_train_range'}"
    ctx.label(f"dyn:d={d}", "dyn:test_outside" if case["out_of_range"] else "dyn:test_inside", *(["dyn:trained_first"] if case["trained_first"] else []), *(["dyn:second_call"] if case["second_call"] else []))
    X, y, Xs = T(case["X"]), T(case["y"]), T(case["Xs"])
    with ctx.observing("predict"):
        model, lik, covar, gik = _kiss_model(case)
        if case["trained_first"]:
            model.train()
            with torch.no_grad():
                model(X).mean
        model.eval()
        lik.eval()
        with torch.no_grad():
            out = model(Xs)
            gm, gc = out.mean, out.covariance_matrix
            if case["second_call"]:
                out2 = model(Xs)
                gm2, gc2 = out2.mean, out2.covariance_matrix
    # ---- oracle: the dense conditional on K~ = W K_UU W^T for ONE grid - the one the kernel derives for [X; X*] (for test
    # inputs inside the training range that is the grid of the training data)
    with ctx.observing("own_prior"):
        Kf = _joint_blocks(covar, [X, Xs])
    sd = G.ref_noise_diag(case["lik"], n, torch.Size([]))
    mx, ms = kern.ref_mean(case["mean"], X), kern.ref_mean(case["mean"], Xs)
    mean_w, cov_w, kappa, A = G.dense_conditional(Kf[:n, :n], Kf[:n, n:], Kf[n:, n:], mx, ms, sd, y)
    tol = G.chol_tol(kappa)
    scale = max(1.0, float(cov_w.abs().max()), float(mean_w.abs().max()))
    ctx.close("mean", gm, mean_w, rtol=tol, atol=tol, scale=scale)
    ctx.close("cov", gc, cov_w, rtol=tol, atol=tol, scale=scale)
    if case["second_call"]:
        ctx.close("mean_second_call", gm2, mean_w, rtol=tol, atol=tol, scale=scale)
        ctx.close("cov_second_call", gc2, cov_w, rtol=tol, atol=tol, scale=scale)
    ctx.set_nontrivial(ns >= 2)


# ===================================================================================================
# convergence of the interpolated kernel
# ===================================================================================================
@st.composite
def convergence_case(draw):
    d = draw(st.integers(1, 3))
    gmin, gmax = (16, 24) if d < 3 else (12, 16)
    bounds, sizes = draw(ski_geometry(d, gmin=gmin, gmax=gmax, force_asym=None if d == 1 else draw(st.integers(0, 5)) != 0))
    name = draw(st.sampled_from(["RBF", "RBF", "RQ", "Matern2.5", "Periodic"])) if d == 1 else draw(st.sampled_from(["RBF", "RBF", "RBF", "Periodic"]))
    ard = d > 1 and draw(st.integers(0, 5)) != 0
    ld = d if ard else 1
    # lengthscale relative to the extent of each dimension: >= 0.25 of the width, i.e. >= ~3.5 grid cells on the coarse grid
    width = [b[1] - b[0] for b in bounds]
    frac = [draw(st.sampled_from([0.25, 0.3, 0.4, 0.5, 0.75, 1.0])) for _ in range(ld)]
    wref = width if ard else [max(width)]
    base = {"k": name, "batch": [], "ad": None, "d": d, "ard": ard, "p": {"lengthscale": [[round(f * w_, 6) for f, w_ in zip(frac, wref)]]}}
    if name == "RQ":
        base["p"]["alpha"] = [draw(kern.pos(0.5, 5.0))]
    if name == "Periodic":
        # effective lengthscale p * sqrt(l) / (2 pi) >= 0.3 of the width
        base["p"]["lengthscale"] = [[draw(st.sampled_from([1.0, 2.0, 4.0])) for _ in range(ld)]]
        base["p"]["period_length"] = [[round(draw(st.sampled_from([2.0, 3.0, 5.0])) * w_, 6) for w_ in wref]]
    n = draw(st.integers(2, 5))
    inner = lambda U: [[0.05 + 0.9 * u for u in row] for row in U]  # noqa: E731  (5 % away from the bounds: see assumptions)
    U1, U2 = inner(draw(kern.arr([n, d], UNIT))), inner(draw(kern.arr([n, d], UNIT)))
    tox = lambda UU: [[b[0] + u * (b[1] - b[0]) for u, b in zip(row, bounds)] for row in UU]  # noqa: E731
    return {"d": d, "bounds": bounds, "sizes": sizes, "size_as_int": False, "base": base, "x1": tox(U1), "x2": tox(U2), "toeplitz": draw(st.booleans())}


def run_convergence(case, ctx: Ctx):
    d = case["d"]
    sym = is_symmetric_setup(case)
    ctx.cls = f"SKI|converge|d{d}|{'sym' if sym or d == 1 else 'asym'}"
    ctx.label(f"conv:d={d}", "conv:sym" if sym or d == 1 else "conv:asym", *(["conv:ard"] if case["base"].get("ard") else []), *(["conv:non_rbf"] if case["base"]["k"] != "RBF" else []))
    # the drawn points plus a fixed low-discrepancy set in the same interior region, so that the maximum over the point pairs is
    # a fair estimate of the sup norm of the error (a single pair can sit next to a zero of the error function)
    lo = T([b[0] for b in case["bounds"]])
    wd = T([b[1] - b[0] for b in case["bounds"]])
    primes = [2.0, 3.0, 5.0]
    halton = T([[0.05 + 0.9 * (((i + 1) * math.sqrt(primes[j])) % 1.0) for j in range(d)] for i in range(12)])
    x1 = torch.cat([T(case["x1"]), lo + halton[:6] * wd])
    x2 = torch.cat([T(case["x2"]), lo + halton[6:] * wd])
    want = kern.ref_kernel(case["base"], x1, x2)
    errs = []
    for mult in (1, 2):
        c = dict(case, sizes=[g * mult for g in case["sizes"]])
        with ctx.observing("eval"), torch.no_grad(), S.use_toeplitz(case["toeplitz"]):
            k = build_ski(c)
            got = k(x1, x2).to_dense()
        errs.append(float((got - want).abs().max()))
    # cubic interpolation is third order (ratio 8 per halving); the float32 grid buffers put a floor of ~1e-6 under the error
    ctx.check("fine_error", errs[1] < 1e-3, f"|K~ - K| = {errs[1]:.3e} on the fine grid {[2 * g for g in case['sizes']]} (coarse: {errs[0]:.3e})")
    # measured on the repaired tree over 600 cases: ratio >= 7 whenever the fine error is above the float32 floor, fine error
    # <= 2.7e-4; an ordering defect gives a ratio of ~1 at an error of 0.1 ... 0.8
    ctx.check("error_decreases", errs[1] <= max(errs[0] / 4, 5e-6), f"|K~ - K| = {errs[0]:.3e} on {case['sizes']}, {errs[1]:.3e} on the doubled grid")
    ctx.notes["errs"] = errs
    ctx.set_nontrivial(d >= 2 and not sym)


# ===================================================================================================
# registry
# ===================================================================================================
SUBCHECKS = [
    Subcheck("dense.multitask", run_multitask_kernel, strategy=multitask_kernel_case, quick=400, thorough=8000, min_shard=100),
    Subcheck("dense.index", run_index_kernel, strategy=index_kernel_case, quick=300, thorough=5000, min_shard=150),
    Subcheck("dense.lcm", run_lcm_kernel, strategy=lcm_kernel_case, quick=300, thorough=6000, min_shard=100),
    Subcheck("dense.grid", run_grid_kernel, strategy=grid_kernel_case, quick=800, thorough=12000, min_shard=100),
    Subcheck("sgpr.train", run_sgpr_train, strategy=lambda: sgpr_case(False), quick=400, thorough=10000, min_shard=50),
    Subcheck("sgpr.predict", run_sgpr_predict, strategy=lambda: sgpr_case(True), quick=1000, thorough=20000, min_shard=50),
    Subcheck("kiss.kernel", run_ski_kernel, strategy=ski_kernel_case, quick=800, thorough=10000, min_shard=100),
    Subcheck("kiss.predict", run_kiss_predict, strategy=kiss_predict_case, quick=1600, thorough=30000, min_shard=50),
    Subcheck("kiss.dynamic", run_kiss_dynamic, strategy=kiss_dynamic_case, quick=400, thorough=6000, min_shard=50),
    Subcheck("kiss.convergence", run_convergence, strategy=convergence_case, quick=300, thorough=3000, min_shard=50),
    Subcheck("rff.predict", run_rff, strategy=rff_case, quick=500, thorough=10000, min_shard=50),
    Subcheck("interp.laws", run_interp_laws, strategy=interp_case, quick=800, thorough=12000, min_shard=150),
    Subcheck("interp.order", run_interp_order, strategy=interp_order_case, quick=100, thorough=1000, min_shard=100),
]

RULE = ("Generated cases per sub-check: structured kernels (MultitaskKernel t<=4 / IndexKernel t<=5, rank 0..t, kernel and input batch "
        "shapes; LCMKernel with <= 3 members and per-member ranks; GridKernel d<=3, ragged sizes 2..5, Toeplitz on/off, regular / irregular "
        "axes, train/eval with cache reuse and update_grid, product kernels RBF/ARD, Periodic, SpectralMixture in d>=2 and any stationary "
        "kernel in d=1) against explicit dense formulas; InducingPointKernel (depth-1 kernel expressions over 10 strictly p.d. kernels, "
        "n<=8, m<=5 distinct inducing points, Gaussian / fixed-noise (+learned) likelihood) against the Nystrom matrix, the Titsias bound "
        "and the SGPR predictive equations over sgpr_diagonal_correction x lazily_evaluate_kernels x fast_pred_var x detach x repeated "
        "call; GridInterpolationKernel (d<=3, per-dimension bounds and sizes, Toeplitz on/off) against W K_UU W^T built from an "
        "independent cubic-convolution W; KISS-GP exact-GP predictions (d<=2) over fast_pred_var x fast_pred_samples x {Cholesky, CG, "
        "Lanczos} x lazy/eager x preconditioner, with and without a WISKI fantasy update, against the dense conditional on the kernel's "
        "own eagerly evaluated matrix; the same with data-derived grids and test inputs inside / outside the training range; RFF kernel "
        "and predictions against Z Z^T / D with the stored weights; Interpolation.interpolate (d<=3, ragged) against the independent W "
        "(partition of unity, node exactness, lexicographic index, quadratics, nearest-node boundary cells) and its error order on grid "
        "halving; convergence of the interpolated kernel on grid doubling. Non-trivial: d>=2 with an asymmetric grid or ARD base kernel "
        "(grid / interpolation sub-checks); number of inducing points != n (SGPR); rank < tasks or n1 != n2 (multitask / index / LCM); "
        "n* >= 2 and a non-default path (KISS predictions); n != 2D (RFF); distinct = distinct canonical case.")

ASSUMPTIONS = [
    "float64, CPU. The inducing grid buffers of GridInterpolationKernel are float32 (create_grid default dtype): kiss.kernel compares at 1e-5, "
    "the convergence thresholds (1e-3, factor 4, floor 5e-6) are chosen with that in mind",
    "GridKernel / GridInterpolationKernel in d >= 2 are judged for product kernels only (RBF incl. ARD, Periodic, SpectralMixture): the "
    "Kronecker structure is the product over dimensions of the 1-d base kernel, which is the d-dimensional kernel only for those; "
    "Toeplitz assembly is judged on equally spaced axes only (documented premise)",
    "prediction strategies are compared with the dense conditional on the approximate kernel matrix as the kernel itself evaluates it "
    "eagerly (second instance of the same recipe); SGPR: K(X,X) = Q (+ clamped diagonal correction), K(X*,X) = Q*x, K(X*,X*) = exact base "
    "kernel on the default lazy path; on the eager path (lazily_evaluate_kernels off) only 'strategy = dense conditional on the matrix "
    "the kernel evaluates to' is checked (test-test block Q** + correction)",
    "SGPR with test inputs identical to the training inputs is generated without the diagonal correction only (with it the kernel's own "
    "cross block carries the correction: FITC at the training points, not an SGPR equation)",
    "inducing matrices with cond(Kzz) > 1e6 and systems with cond(K+S) > 1e8 (1e5 CG, 1e4 Lanczos) are discarded and counted",
    "iterative paths: cg/eval_cg tolerance 1e-12, max_cg_iterations 100 (<= 11 unknowns), max_root_decomposition_size 200; cases on which the "
    "dependency's own CG misses the dense solution of the same system by > 1e-6, or its Lanczos root decomposition does not reproduce the "
    "m x m matrix of the fast_pred_samples path to 1e-5, are discarded (calibration of the domain, not the oracle)",
    "WISKI and fast_pred_samples factor numerically singular m x m matrices with jitter (psd_safe_cholesky): compared at 1e-5",
    "kiss.convergence evaluates at points >= 5 % of the width away from the grid bounds: create_grid extends the grid by less than one "
    "(actual) cell, so inputs within width/((G-1)(G-2)) of a bound fall into the boundary cell and are interpolated by nearest node "
    "(first-order accurate); kiss.kernel covers that sliver exactly through the independent W",
    "LCMKernel members are generated without active_dims (LCMKernel calls MultitaskKernel.forward directly; active_dims is C06's subject); "
    "InducingPointKernel with a MultitaskGaussianLikelihood is not generated",
]

SPEC = PropertySpec(pid="C09", rule=RULE, assumptions=ASSUMPTIONS, subchecks=SUBCHECKS)

"""C10 - MultivariateNormal is the distribution it claims to be.

Every sub-check builds a MultivariateNormal from a *recipe* (mean + one of eleven covariance representations, with
independent batch shapes for mean and covariance) and compares what the library returns with dense float64
reference formulas evaluated on the broadcast dense arrays (torch.linalg.slogdet / solve, explicit algebra, plain
torch indexing).  The oracle never calls gpytorch / linear_operator.

Covariance representations (``rep``):
  dense      torch.Tensor                          A A^T/N + diag(dv)
  DenseLO    DenseLinearOperator                   same
  Diag       DiagLinearOperator(dv)
  RootLow    RootLinearOperator(R), R: N x r, r<N  (singular: excluded from log_prob / KL)
  RootFull   RootLinearOperator([L | E]), r = N+k  (k = 0, 1, 2; L lower triangular with positive diagonal)
  Chol       CholLinearOperator(Triangular(L))
  AddedDiag  RootLinearOperator(R) + DiagLinearOperator(dv)   (an AddedDiagLinearOperator)
  Kron       KroneckerProductLinearOperator(S1, S2)
  BatchRepeat BatchRepeatLinearOperator(DenseLinearOperator(S0), repeat)
  Kernel     RBFKernel()(x)   (optionally wrapped in a ScaleKernel): a LazyEvaluatedKernelTensor
"""
from __future__ import annotations

import itertools
import math

import torch
from hypothesis import strategies as st

import gpytorch
from gpytorch.distributions import Delta, MultivariateNormal
from linear_operator import operators as LO

from pbt.core import Ctx, Discard, PropertySpec, Subcheck

EPS = 2.220446049250313e-16
LOG2PI = math.log(2 * math.pi)

ALL_REPS = ["dense", "DenseLO", "Diag", "RootLow", "RootFull", "Chol", "AddedDiag", "Kron", "BatchRepeat", "Kernel"]
PD_REPS = [r for r in ALL_REPS if r != "RootLow"]


# ====================================================================================================
# recipes -> (library object, dense oracle)
# ====================================================================================================
def T(flat, shape):
    return torch.tensor(flat, dtype=torch.float64).reshape(tuple(shape))


def _spd(A, dv):
    return A @ A.transpose(-1, -2) / A.shape[-1] + torch.diag_embed(dv)


def _tril(A, dv):
    # unit-ish lower triangular factor: off-diagonal entries in [-1, 1], diagonal in [0.5, 2] -> cond(L L^T) <~ 1e5
    return torch.tril(A, -1) / 3.0 + torch.diag_embed(dv)


def _kron(S1, S2):
    n1, n2 = S1.shape[-1], S2.shape[-1]
    K = S1[..., :, None, :, None] * S2[..., None, :, None, :]
    return K.reshape(*K.shape[:-4], n1 * n2, n1 * n2)


def _rbf(x, ls, os_):
    d2 = ((x[..., :, None, :] - x[..., None, :, :]) / ls).pow(2).sum(-1)
    K = torch.exp(-0.5 * d2)
    return K if os_ is None else os_ * K


def dense_cov(s):
    """The covariance the recipe *means*, as a dense tensor of shape cb + [N, N] (oracle side; plain torch)."""
    rep, N, cb = s["rep"], s["N"], s["cb"]
    if rep in ("dense", "DenseLO"):
        return _spd(T(s["A"], cb + [N, N]), T(s["dv"], cb + [N]))
    if rep == "Diag":
        return torch.diag_embed(T(s["dv"], cb + [N]))
    if rep == "RootLow":
        R = T(s["R"], cb + [N, s["r"]])
        return R @ R.transpose(-1, -2)
    if rep == "RootFull":
        R = _root_full(s)
        return R @ R.transpose(-1, -2)
    if rep == "Chol":
        L = _tril(T(s["A"], cb + [N, N]), T(s["dv"], cb + [N]))
        return L @ L.transpose(-1, -2)
    if rep == "AddedDiag":
        R = T(s["R"], cb + [N, s["r"]])
        return R @ R.transpose(-1, -2) + torch.diag_embed(T(s["dv"], cb + [N]))
    if rep == "Kron":
        n1, n2 = s["n1"], s["n2"]
        return _kron(_spd(T(s["A1"], cb + [n1, n1]), T(s["dv1"], cb + [n1])), _spd(T(s["A2"], cb + [n2, n2]), T(s["dv2"], cb + [n2])))
    if rep == "BatchRepeat":
        cb0 = s["cb0"]
        S0 = _spd(T(s["A"], cb0 + [N, N]), T(s["dv"], cb0 + [N]))
        return S0.repeat(*s["repeat"], 1, 1)
    if rep == "Kernel":
        return _rbf(T(s["x"], cb + [N, s["d"]]), s["ls"], s.get("os"))
    raise KeyError(rep)


def _root_full(s):
    N, cb = s["N"], s["cb"]
    L = _tril(T(s["A"], cb + [N, N]), T(s["dv"], cb + [N]))
    if s["k"] == 0:
        return L
    return torch.cat([L, T(s["E"], cb + [N, s["k"]])], -1)


def lib_cov(s):
    """The library-side covariance object (call inside ctx.observing)."""
    rep, N, cb = s["rep"], s["N"], s["cb"]
    if rep == "dense":
        return dense_cov(s)
    if rep == "DenseLO":
        return LO.DenseLinearOperator(dense_cov(s))
    if rep == "Diag":
        return LO.DiagLinearOperator(T(s["dv"], cb + [N]))
    if rep == "RootLow":
        return LO.RootLinearOperator(T(s["R"], cb + [N, s["r"]]))
    if rep == "RootFull":
        return LO.RootLinearOperator(_root_full(s))
    if rep == "Chol":
        return LO.CholLinearOperator(LO.TriangularLinearOperator(_tril(T(s["A"], cb + [N, N]), T(s["dv"], cb + [N]))))
    if rep == "AddedDiag":
        op = LO.RootLinearOperator(T(s["R"], cb + [N, s["r"]])) + LO.DiagLinearOperator(T(s["dv"], cb + [N]))
        assert isinstance(op, LO.AddedDiagLinearOperator), type(op)
        return op
    if rep == "Kron":
        n1, n2 = s["n1"], s["n2"]
        return LO.KroneckerProductLinearOperator(
            LO.DenseLinearOperator(_spd(T(s["A1"], cb + [n1, n1]), T(s["dv1"], cb + [n1]))),
            LO.DenseLinearOperator(_spd(T(s["A2"], cb + [n2, n2]), T(s["dv2"], cb + [n2]))),
        )
    if rep == "BatchRepeat":
        cb0 = s["cb0"]
        S0 = _spd(T(s["A"], cb0 + [N, N]), T(s["dv"], cb0 + [N]))
        return LO.BatchRepeatLinearOperator(LO.DenseLinearOperator(S0), batch_repeat=torch.Size(s["repeat"]))
    if rep == "Kernel":
        k = gpytorch.kernels.RBFKernel()
        k.lengthscale = s["ls"]
        if s.get("os") is not None:
            k = gpytorch.kernels.ScaleKernel(k)
            k.outputscale = s["os"]
        k.eval()
        op = k(T(s["x"], cb + [N, s["d"]]))
        return op
    raise KeyError(rep)


class Dist:
    """A recipe, its library object and the dense description (mean, C) broadcast to the distribution batch shape."""

    def __init__(self, s, ctx: Ctx, name="construct"):
        self.s = s
        self.N = s["N"]
        self.mean_raw = T(s["mean"], s["mb"] + [self.N])
        self.C_raw = dense_cov(s)
        self.batch = list(torch.broadcast_shapes(tuple(s["mb"]), tuple(s["cb"])))
        self.mean = self.mean_raw.expand(*self.batch, self.N)
        self.C = self.C_raw.expand(*self.batch, self.N, self.N)
        self.loc_bcast = list(s["mb"]) != self.batch  # the mean has to be broadcast against the covariance batch
        self.cov_bcast = list(s["cb"]) != self.batch
        self.lazy = s["rep"] != "dense"
        with ctx.observing(name):
            cov = lib_cov(s)
            self.d = MultivariateNormal(self.mean_raw, cov)
        if s["rep"] == "Kernel":
            # make sure the representation is the one the label says (it depends on a global default)
            assert type(cov).__name__ == "LazyEvaluatedKernelTensor", type(cov)

    @property
    def rep_label(self):
        s = self.s
        if s["rep"] == "RootFull":
            return "RootFull(r=N)" if s["k"] == 0 else "RootFull(r>N)"
        return s["rep"]

    @property
    def bc(self):
        """Which of mean / covariance has to be broadcast to reach the distribution batch shape."""
        return {(False, False): "full", (True, False): "locbc", (False, True): "covbc", (True, True): "loc+covbc"}[
            (self.loc_bcast, self.cov_bcast)]

    def cls(self, *extra):
        return "|".join([self.rep_label, self.bc, *extra])

    def cond(self):
        ev = torch.linalg.eigvalsh(self.C_raw)
        lo = float(ev.min())
        return float("inf") if lo <= 0 else float(ev.max()) / lo

    def base_width(self):
        s = self.s
        if s["rep"] == "RootLow":
            return s["r"]
        if s["rep"] == "RootFull":
            return s["N"] + s["k"]
        return s["N"]


def ref_log_prob(mean, C, v):
    N = mean.shape[-1]
    bs = torch.broadcast_shapes(mean.shape[:-1], C.shape[:-2], v.shape[:-1])
    m, Cb, vb = mean.expand(*bs, N), C.expand(*bs, N, N), v.expand(*bs, N)
    diff = (vb - m).unsqueeze(-1)
    sol = torch.linalg.solve(Cb, diff)
    quad = (diff * sol).sum((-1, -2))
    return -0.5 * (quad + torch.linalg.slogdet(Cb)[1] + N * LOG2PI)


def solve_tol(kappa):
    # DESIGN 1.4, "one dense solve / Cholesky": 1e3 * eps * cond, clipped to [1e-10, 1e-6]
    return min(max(1e3 * EPS * kappa, 1e-10), 1e-6)


# ====================================================================================================
# strategies
# ====================================================================================================
EXT = st.sampled_from([1, 2, 2, 3, 3])


# Numeric payloads are decoded from Hypothesis-drawn bytes (5x cheaper to generate than lists of floats, and they
# shrink towards 0): either the coarse lattice k/4 in [-3, 3] (duplicate / zero rows and columns are common) or the
# fine lattice k/40 in [-3.2, 3.175].
def _dec_coarse(bs):
    return [(((b + 12) % 25) - 12) / 4.0 for b in bs]


def _dec_fine(bs):
    return [(((b + 128) % 256) - 128) / 40.0 for b in bs]


def nums(n):
    if n == 0:
        return st.just([])
    return st.builds(lambda fine, bs: _dec_fine(bs) if fine else _dec_coarse(bs), st.booleans(), st.binary(min_size=n, max_size=n))


def poss(n):
    """n positive numbers in [0.5, 2]."""
    if n == 0:
        return st.just([])
    return st.builds(lambda fine, bs: [0.5 + (b % 61) / 40.0 for b in bs] if fine else [0.5 + (b % 7) / 4.0 for b in bs],
                     st.booleans(), st.binary(min_size=n, max_size=n))


NUM = st.one_of(st.integers(-12, 12).map(lambda k: k / 4.0), st.integers(-128, 127).map(lambda k: k / 40.0))


def prod(shape):
    p = 1
    for x in shape:
        p *= x
    return p


@st.composite
def sub_shape(draw, full, p_same=0.5):
    """A shape that broadcasts to `full`: leading dimensions dropped and/or extents replaced by 1."""
    full = list(full)
    if not full or draw(st.floats(0, 1)) < p_same:
        return full
    k = draw(st.integers(0, len(full)))
    out = full[k:]
    return [1 if (e != 1 and draw(st.booleans())) else e for e in out]


@st.composite
def cov_payload(draw, rep, N, cb):
    """Everything of the recipe except mean / mb."""
    nb = prod(cb)
    s = {"rep": rep, "N": N, "cb": list(cb)}
    if rep in ("dense", "DenseLO", "Chol"):
        s["A"] = draw(nums(nb * N * N))
        s["dv"] = draw(poss(nb * N))
    elif rep == "Diag":
        s["dv"] = draw(poss(nb * N))
    elif rep == "RootLow":
        s["r"] = draw(st.integers(1, N - 1))
        s["R"] = draw(nums(nb * N * s["r"]))
    elif rep == "RootFull":
        s["k"] = draw(st.sampled_from([0, 1, 1, 2]))
        s["A"] = draw(nums(nb * N * N))
        s["dv"] = draw(poss(nb * N))
        if s["k"]:
            s["E"] = draw(nums(nb * N * s["k"]))
    elif rep == "AddedDiag":
        s["r"] = draw(st.integers(1, N + 1))
        s["R"] = draw(nums(nb * N * s["r"]))
        s["dv"] = draw(poss(nb * N))
    elif rep == "Kron":
        n1, n2 = s["n1"], s["n2"] = draw(st.sampled_from(KRON_FACT[N]))
        s["A1"], s["dv1"] = draw(nums(nb * n1 * n1)), draw(poss(nb * n1))
        s["A2"], s["dv2"] = draw(nums(nb * n2 * n2)), draw(poss(nb * n2))
    elif rep == "BatchRepeat":
        # cb = repeat * pad(cb0): every extent is either carried by the base operator or produced by repetition
        rep_, base = [], []
        for e in cb:
            if draw(st.booleans()):
                rep_.append(e), base.append(1)
            else:
                rep_.append(1), base.append(e)
        lead = 0
        while lead < len(base) and base[lead] == 1 and draw(st.booleans()):
            lead += 1
        s["cb0"] = base[lead:]
        s["repeat"] = rep_
        s["A"] = draw(nums(prod(s["cb0"]) * N * N))
        s["dv"] = draw(poss(prod(s["cb0"]) * N))
    elif rep == "Kernel":
        d = s["d"] = draw(st.integers(1, 2))
        # points i + noise, |noise| <= 1/4, lengthscale <= 1: neighbours are >= 1/2 apart -> cond <~ 1e5
        noise = draw(st.lists(st.integers(-4, 4).map(lambda k: k / 16.0), min_size=nb * N * d, max_size=nb * N * d))
        perm = draw(st.permutations(list(range(N))))
        x = torch.tensor(noise, dtype=torch.float64).reshape(nb, N, d)
        x[:, :, 0] += torch.tensor(perm, dtype=torch.float64)
        s["x"] = x.reshape(-1).tolist()
        s["ls"] = draw(st.sampled_from([0.4, 0.5, 0.75, 1.0]))
        s["os"] = draw(st.sampled_from([None, None, 0.5, 2.0]))
    else:
        raise KeyError(rep)
    return s


KRON_FACT = {2: [(1, 2), (2, 1)], 3: [(1, 3), (3, 1)], 4: [(2, 2), (2, 2), (1, 4), (4, 1)], 6: [(2, 3), (3, 2)]}


@st.composite
def dist_recipe(draw, reps=ALL_REPS, full=None, N=None, p_same=0.75, mb=None, cb=None):
    rep = draw(st.sampled_from(reps))
    if N is None:
        if rep == "Kron":
            N = draw(st.sampled_from([2, 3, 4, 4, 6]))
        elif rep == "RootLow":
            N = draw(st.integers(2, 5))
        else:
            N = draw(st.integers(1, 5))
    if full is None:
        full = draw(st.lists(EXT, max_size=2))
    if cb is None:
        cb = draw(sub_shape(full, p_same))
    if rep == "BatchRepeat" and not cb:
        cb = [1]  # a BatchRepeatLinearOperator has at least one (repeated) batch dimension
    if mb is None:
        mb = draw(sub_shape(full, p_same))
    s = draw(cov_payload(rep, N, cb))
    s["mb"] = list(mb)
    s["mean"] = draw(nums(prod(mb) * N))
    return s


def reps_for_N(reps, N):
    out = []
    for r in reps:
        if r == "Kron" and N not in KRON_FACT:
            continue
        if r == "RootLow" and N < 2:
            continue
        out.append(r)
    return out


@st.composite
def value_shape(draw, batch, extra=True):
    """A value batch shape broadcastable with the distribution batch shape (optionally with extra leading dims)."""
    mode = draw(st.sampled_from(["same", "sub", "sub", "lead", "lead_sub"] if extra else ["same", "sub"]))
    b = list(batch)
    if mode == "same":
        return b
    if mode == "sub":
        return draw(sub_shape(b, 0.0))
    lead = draw(st.lists(EXT, min_size=1, max_size=1 if len(b) >= 2 else 2))
    if mode == "lead":
        return lead + b
    rest = [1 if (e != 1 and draw(st.booleans())) else e for e in b]
    return lead + rest


# ====================================================================================================
# mvn.log_prob
# ====================================================================================================
@st.composite
def log_prob_cases(draw):
    s = draw(dist_recipe(reps=PD_REPS))
    batch = list(torch.broadcast_shapes(tuple(s["mb"]), tuple(s["cb"])))
    vb = draw(value_shape(batch))
    # values of the batch may extend a size-1 distribution dim as well
    if draw(st.integers(0, 5)) == 0:
        def dist_extent(i):  # extent of the distribution batch dim aligned with position i of vb (1 if there is none)
            j = i - (len(vb) - len(batch))
            return batch[j] if 0 <= j < len(batch) else 1

        vb = [draw(EXT) if (e == 1 and dist_extent(i) == 1) else e for i, e in enumerate(vb)]
    path = draw(st.sampled_from(["chol_off", "fast", "fast", "fast_cg"]))
    case = {"dist": s, "vb": vb, "value": draw(nums(prod(vb) * s["N"])), "path": path}
    if path == "fast_cg":
        case["torch_seed"] = draw(st.integers(0, 2**20))
    return case


def _diff_cover_tag(D: Dist, vb):
    """How (value - mean), computed on the shapes *as given*, relates to the covariance batch shape as given:
    full         mean and covariance both carry the whole distribution batch shape
    bc-covered   broadcasting is needed, and value - mean has at least the covariance's batch dims with no 1-vs-k gap
    bc-lowrank   value - mean has fewer batch dims than the covariance
    bc-uncovered value - mean has extent 1 where the covariance batch has k > 1
    (only used to key findings narrowly; for a dense-tensor covariance torch broadcasts at construction: always full)"""
    if D.bc == "full" or not D.lazy:
        return "full"
    db = list(torch.broadcast_shapes(tuple(vb), tuple(D.s["mb"])))
    cb = list(D.s["cb"])
    if len(db) < len(cb):
        return "bc-lowrank"
    al = db[len(db) - len(cb):]
    if any(a == 1 and c > 1 for a, c in zip(al, cb)):
        return "bc-uncovered"
    return "bc-covered"


def run_log_prob(case, ctx: Ctx):
    s = case["dist"]
    path = case["path"]
    D = Dist(s, ctx)
    v = T(case["value"], case["vb"] + [D.N])
    ctx.cls = "|".join([D.rep_label, _diff_cover_tag(D, case["vb"]), path])
    vrel = "v=dist" if case["vb"] == D.batch else ("v<dist" if len(case["vb"]) < len(D.batch) or prod(case["vb"]) < prod(D.batch) else "v>dist")
    ctx.label(f"rep={D.rep_label}", f"path={path}", f"value:{vrel}", f"bc={D.bc}", f"cell={ctx.cls.split('|')[1]}",
              f"rank(batch)={len(D.batch)}", f"N={D.N}")
    ctx.set_nontrivial(case["vb"] != D.batch or D.lazy)
    kappa = D.cond()
    if kappa > 1e8:
        raise Discard("cond > 1e8")
    want = ref_log_prob(D.mean, D.C, v)
    if path == "chol_off":
        with ctx.observing("log_prob"):
            with gpytorch.settings.fast_computations(log_prob=False):
                got = D.d.log_prob(v)
        tol = solve_tol(kappa)
        ctx.close("log_prob", got, want, rtol=tol, atol=tol)
    elif path == "fast":
        # N <= 6 is far below max_cholesky_size (800): inv_quad_logdet takes its Cholesky route -> exact
        with ctx.observing("log_prob"):
            with gpytorch.settings.fast_computations(log_prob=True):
                got = D.d.log_prob(v)
        tol = solve_tol(kappa)
        ctx.close("log_prob", got, want, rtol=tol, atol=tol)
    else:
        # CG + stochastic Lanczos quadrature (max_cholesky_size(0)).  inv_quad: CG run to 1e-10 (exact after <= N
        # steps); logdet: Hutchinson/SLQ with T probes, Var <= 2 |log C|_F^2 / T (DESIGN 1.4) -> 6 standard errors.
        Tn = 64
        torch.manual_seed(case["torch_seed"])
        with ctx.observing("log_prob"):
            with gpytorch.settings.fast_computations(log_prob=True), gpytorch.settings.max_cholesky_size(0), \
                    gpytorch.settings.cg_tolerance(1e-10), gpytorch.settings.num_trace_samples(Tn), \
                    gpytorch.settings.max_cg_iterations(200), gpytorch.settings.max_lanczos_quadrature_iterations(30):
                got = D.d.log_prob(v)
        ev = torch.linalg.eigvalsh(D.C)
        se = torch.sqrt(2.0 * ev.log().pow(2).sum(-1) / Tn)  # per batch element
        # log_prob = -(inv_quad + logdet + const)/2: the logdet error enters halved; CG part: rtol 1e-4 / atol 1e-5 (DESIGN 1.4)
        bound = (0.5 * 6.0 * se).expand(want.shape) + 1e-4 * want.abs() + 1e-5
        ctx.comparisons += 1
        if tuple(got.shape) != tuple(want.shape):
            ctx.fail("log_prob_cg", "shape", f"got shape {tuple(got.shape)}, expected {tuple(want.shape)}")
        elif not bool(((got - want).abs() <= bound).all()):
            ctx.fail("log_prob_cg", "value", f"max|err|={float((got - want).abs().max()):.3e} beyond 6 s.e. (max bound {float(bound.max()):.3e})")


# ====================================================================================================
# mvn.kl
# ====================================================================================================
@st.composite
def kl_cases(draw):
    kind = draw(st.sampled_from(["pq", "pq", "pq", "same_object", "same_recipe", "delta", "delta"]))
    N = draw(st.sampled_from([1, 2, 3, 4, 4, 5, 6]))
    full = draw(st.lists(EXT, max_size=2))
    reps = reps_for_N(PD_REPS, N)
    if N == 6:
        reps = ["Kron", "dense", "DenseLO"]
    q = draw(dist_recipe(reps=reps, full=full, N=N, p_same=0.8))
    case = {"kind": kind, "q": q}
    if kind == "pq":
        case["p"] = draw(dist_recipe(reps=reps, full=full, N=N, p_same=0.8))
    elif kind == "delta":
        qb = list(torch.broadcast_shapes(tuple(q["mb"]), tuple(q["cb"])))
        vb = draw(value_shape(qb, extra=False))
        case["vb"] = vb
        case["v"] = draw(nums(prod(vb) * N))
    case["fast"] = draw(st.booleans())
    return case


def ref_kl(mp, Cp, mq, Cq):
    N = mp.shape[-1]
    bs = torch.broadcast_shapes(mp.shape[:-1], mq.shape[:-1])
    mp, mq = mp.expand(*bs, N), mq.expand(*bs, N)
    Cp, Cq = Cp.expand(*bs, N, N), Cq.expand(*bs, N, N)
    dm = (mq - mp).unsqueeze(-1)
    tr = torch.linalg.solve(Cq, Cp).diagonal(dim1=-1, dim2=-2).sum(-1)
    quad = (dm * torch.linalg.solve(Cq, dm)).sum((-1, -2))
    return 0.5 * (torch.linalg.slogdet(Cq)[1] - torch.linalg.slogdet(Cp)[1] + tr + quad - N)


def run_kl(case, ctx: Ctx):
    kind = case["kind"]
    Q = Dist(case["q"], ctx, "construct_q")
    kq = Q.cond()
    ctx.cls = Q.cls("kl_" + kind)
    ctx.label(f"kl:{kind}", f"kl.q={Q.rep_label}", f"kl.fast={case['fast']}")
    if kq > 1e8:
        raise Discard("cond > 1e8")
    fc = gpytorch.settings.fast_computations(log_prob=case["fast"])
    if kind == "delta":
        v = T(case["v"], case["vb"] + [Q.N])
        ctx.set_nontrivial(True)
        ctx.label(f"kl.delta.v{'=' if case['vb'] == Q.batch else '<'}q")
        with ctx.observing("kl_delta"):
            with fc:
                got = torch.distributions.kl_divergence(Delta(v, event_dim=1), Q.d)
        tol = solve_tol(kq)
        ctx.close("kl_delta", got, -ref_log_prob(Q.mean, Q.C, v), rtol=tol, atol=tol)
        return
    if kind == "same_object":
        P = Q
    elif kind == "same_recipe":
        P = Dist(case["q"], ctx, "construct_p")
    else:
        P = Dist(case["p"], ctx, "construct_p")
        ctx.label(f"kl.p={P.rep_label}")
        ctx.cls = "|".join([P.rep_label, Q.rep_label, "full" if (P.bc == "full" and Q.bc == "full") else "bc", "pq"])
    kp = P.cond()
    if kp > 1e8:
        raise Discard("cond > 1e8")
    ctx.set_nontrivial(P.lazy or Q.lazy or P.batch != Q.batch)
    ctx.label(f"kl.batch:{'p=q' if P.batch == Q.batch else 'p!=q'}")
    with ctx.observing("kl"):
        with fc:
            got = torch.distributions.kl_divergence(P.d, Q.d)
    want = ref_kl(P.mean, P.C, Q.mean, Q.C)
    tol = solve_tol(max(kp, kq))
    if kind == "pq":
        ctx.close("kl", got, want, rtol=tol, atol=tol)
    else:
        # identical arguments: 0 +- 1e-10 (DESIGN C10); the terms that cancel are O(N + |logdet|) and each carries the
        # rounding of one Cholesky, so the floor grows with the condition number: 1e-2 * solve_tol (= 1e-8 at cond 1e8,
        # 2e-10 at the largest cond the generator produces, 1e5)
        ctx.close("kl_identical", got, torch.zeros_like(want), rtol=0.0, atol=max(1e-10, 1e-2 * tol), scale=1.0)


# ====================================================================================================
# mvn.rsample_base
# ====================================================================================================
@st.composite
def rsample_cases(draw):
    s = draw(dist_recipe(reps=ALL_REPS))
    w = s["r"] if s["rep"] == "RootLow" else (s["N"] + s["k"] if s["rep"] == "RootFull" else s["N"])
    batch = list(torch.broadcast_shapes(tuple(s["mb"]), tuple(s["cb"])))
    ss = draw(st.sampled_from([[], [1], [2], [3], [2, 2]]))
    return {"dist": s, "sample_shape": ss, "e": draw(nums(prod(ss) * prod(batch) * w)), "use_sample": draw(st.booleans())}


def run_rsample(case, ctx: Ctx):
    D = Dist(case["dist"], ctx)
    w = D.base_width()
    ss = case["sample_shape"]
    ctx.cls = D.cls("rsample")
    ctx.label(f"rs.rep={D.rep_label}", f"rs.sample_rank={len(ss)}", f"rs.bc={D.bc}")
    ctx.set_nontrivial(D.lazy or len(ss) != 1)
    with ctx.observing("base_sample_shape"):
        bss = tuple(D.d.base_sample_shape)
        gshape = tuple(D.d.get_base_samples(torch.Size(ss)).shape)
    ctx.equal("base_sample_shape", bss, (w,))
    ctx.equal("get_base_samples.shape", gshape, tuple(ss) + tuple(D.batch) + (w,))
    # identity basis -> the matrix L actually used
    eye = torch.eye(w).reshape(w, *([1] * len(D.batch)), w).expand(w, *D.batch, w).contiguous()
    with ctx.observing("rsample(identity)"):
        cols = D.d.rsample(base_samples=eye)
    if not ctx.equal("rsample(identity).shape", tuple(cols.shape), (w, *D.batch, D.N)):
        return
    Lm = (cols - D.mean).movedim(0, -1)  # batch x N x w
    scale = float(D.C.abs().max())
    # L L^T is compared with C in absolute terms relative to the largest covariance entry: a Cholesky factor of C
    # reproduces C to ~N eps |C|; 1e-9 leaves six orders of margin
    ctx.close("L L^T = covariance", Lm @ Lm.transpose(-1, -2), D.C, rtol=1e-9, atol=1e-9, scale=max(scale, 1.0))
    e = T(case["e"], ss + D.batch + [w])
    with ctx.observing("rsample(e)"):
        got = (D.d.sample if case["use_sample"] else D.d.rsample)(base_samples=e)
    want = D.mean + (Lm @ e.unsqueeze(-1)).squeeze(-1)
    ctx.close("sample = mean + L e", got, want, rtol=1e-9, atol=1e-10)


# ====================================================================================================
# mvn.moments
# ====================================================================================================
@st.composite
def moments_cases(draw):
    s = draw(dist_recipe(reps=ALL_REPS))
    return {"dist": s, "torch_seed": draw(st.integers(0, 2**20)), "split": draw(st.booleans()), "use_sample": draw(st.booleans())}


def run_moments(case, ctx: Ctx):
    D = Dist(case["dist"], ctx)
    n = 20000
    ss = [n // 4, 4] if case["split"] else [n]
    ctx.cls = D.cls("moments")
    ctx.label(f"mom.rep={D.rep_label}", f"mom.sample_rank={len(ss)}", f"mom.bc={D.bc}")
    ctx.set_nontrivial(True)
    torch.manual_seed(case["torch_seed"])
    with ctx.observing("sample"):
        x = (D.d.sample if case["use_sample"] else D.d.rsample)(torch.Size(ss))
    if not ctx.equal("sample.shape", tuple(x.shape), (*ss, *D.batch, D.N)):
        return
    x = x.reshape(n, *D.batch, D.N)
    # 6 standard errors (DESIGN 1.4): se(mean_i) = sqrt(C_ii/n); se(cov_ij) = sqrt((C_ii C_jj + C_ij^2)/n)
    var = D.C.diagonal(dim1=-1, dim2=-2)
    m_hat = x.mean(0)
    se_m = (var / n).sqrt()
    ctx.check("sample mean", bool(((m_hat - D.mean).abs() <= 6 * se_m + 1e-12).all()),
              f"max |mean err|/se = {float(((m_hat - D.mean).abs() / (se_m + 1e-300)).max()):.2f}", kind="value")
    xc = x - D.mean
    c_hat = torch.einsum("n...i,n...j->...ij", xc, xc) / n
    se_c = ((var.unsqueeze(-1) * var.unsqueeze(-2) + D.C.pow(2)) / n).sqrt()
    ctx.check("sample covariance", bool(((c_hat - D.C).abs() <= 6 * se_c + 1e-12).all()),
              f"max |cov err|/se = {float(((c_hat - D.C).abs() / (se_c + 1e-300)).max()):.2f}", kind="value")


# ====================================================================================================
# mvn.variance
# ====================================================================================================
@st.composite
def variance_cases(draw):
    s = draw(dist_recipe(reps=ALL_REPS))
    return {"dist": s, "min_var": draw(st.sampled_from([None, None, 0.75, 1.5, 4.0]))}


def run_variance(case, ctx: Ctx):
    D = Dist(case["dist"], ctx)
    mv = case["min_var"]
    ctx.cls = D.cls("variance")
    floor = 1e-10 if mv is None else mv  # documented default for float64 (settings.min_variance docstring)
    diag = D.C.diagonal(dim1=-1, dim2=-2)
    want_var = diag.clamp_min(floor)
    clamped = bool((diag < floor).any())
    ctx.label(f"var.rep={D.rep_label}", f"var.clamped={clamped}", f"var.bc={D.bc}")
    ctx.set_nontrivial(D.lazy or clamped)
    scope = gpytorch.settings.min_variance(double_value=mv) if mv is not None else gpytorch.settings.min_variance()
    with ctx.observing("variance"):
        with scope:
            var = D.d.variance.clone()
            std = D.d.stddev.clone()
            lo, hi = D.d.confidence_region()
            var2 = D.d.variance.clone()
            mean_after = D.d.mean.clone()
    ctx.close("variance", var, want_var)
    ctx.close("stddev", std, want_var.sqrt())
    ctx.close("confidence_region.lower", lo, D.mean - 2 * want_var.sqrt())
    ctx.close("confidence_region.upper", hi, D.mean + 2 * want_var.sqrt())
    ctx.close("variance after confidence_region", var2, want_var)
    ctx.close("mean after confidence_region", mean_after.expand(D.mean.shape), D.mean)


# ====================================================================================================
# mvn.arith
# ====================================================================================================
OPS = ["add_scalar", "radd_scalar", "mul", "div", "add_mvn", "sum", "expand", "unsqueeze", "add_jitter"]
SCAL = st.one_of(st.sampled_from([2, -1, 3, 0.5, -2.5, 1, 1.0, 0.25]), st.integers(-4, 4), NUM)


@st.composite
def arith_cases(draw):
    op = draw(st.sampled_from(OPS))
    full = draw(st.lists(EXT, max_size=2))
    N = draw(st.sampled_from([1, 2, 3, 4, 4, 5, 6]))
    reps = reps_for_N(ALL_REPS, N) if N < 6 else ["Kron", "dense", "DenseLO"]
    s = draw(dist_recipe(reps=reps, full=full, N=N, p_same=0.8))
    batch = list(torch.broadcast_shapes(tuple(s["mb"]), tuple(s["cb"])))
    case = {"op": op, "dist": s}
    if op in ("add_scalar", "radd_scalar", "mul"):
        case["c"] = draw(SCAL)
    elif op == "div":
        case["c"] = draw(SCAL.filter(lambda c: abs(c) >= 0.125))
    elif op == "add_mvn":
        case["other"] = [draw(dist_recipe(reps=reps, full=full, N=N, p_same=0.8))]
    elif op == "sum":
        # sum([...]) needs equal batch shapes only up to broadcasting
        case["other"] = draw(st.lists(dist_recipe(reps=reps, full=full, N=N, p_same=0.8), min_size=0, max_size=2))
    elif op == "expand":
        lead = draw(st.lists(EXT, max_size=2 if len(batch) < 2 else 1))
        case["shape"] = lead + [draw(EXT) if e == 1 else e for e in batch]
    elif op == "unsqueeze":
        case["dim"] = draw(st.integers(-len(batch) - 1, len(batch)))
    elif op == "add_jitter":
        case["eps"] = draw(st.sampled_from([1e-4, 0.5, 1.0, 0.125]))
        case["default_eps"] = draw(st.booleans())
    vb = draw(st.sampled_from(["same", "event"]))
    case["vmode"] = vb
    case["v"] = draw(nums(N))
    # the source distribution has already been used on the Cholesky path (scale_tril cached) before the operation
    case["warm"] = draw(st.booleans())
    return case


def run_arith(case, ctx: Ctx):
    op = case["op"]
    D = Dist(case["dist"], ctx)
    ctx.cls = D.cls(op)
    ctx.label(f"op={op}", f"op.rep={D.rep_label}", f"op.bc={D.bc}")
    ctx.set_nontrivial(D.lazy)
    N = D.N
    others = [Dist(o, ctx, f"construct_other{i}") for i, o in enumerate(case.get("other", []))]
    if D.bc == "full" and any(o.bc != "full" for o in others):
        ctx.cls = "|".join([D.rep_label, "otherbc", op])
    if case.get("warm"):
        ev0 = torch.linalg.eigvalsh(D.C)
        if float(ev0.min()) > 0 and float(ev0.max() / ev0.min()) <= 1e8:
            with ctx.observing("warm.scale_tril"):
                D.d.scale_tril
            ctx.label("op.warm_scale_tril")
    if op == "add_scalar":
        with ctx.observing(op):
            r = D.d + case["c"]
        wm, wC = D.mean + case["c"], D.C
    elif op == "radd_scalar":
        with ctx.observing(op):
            r = case["c"] + D.d
        wm, wC = D.mean + case["c"], D.C
    elif op == "mul":
        with ctx.observing(op):
            r = D.d * case["c"]
        wm, wC = D.mean * case["c"], D.C * (case["c"] ** 2)
    elif op == "div":
        with ctx.observing(op):
            r = D.d / case["c"]
        wm, wC = D.mean / case["c"], D.C / (case["c"] ** 2)
    elif op == "add_mvn":
        with ctx.observing(op):
            r = D.d + others[0].d
        wm, wC = D.mean + others[0].mean, D.C + others[0].C
        ctx.label(f"op.other={others[0].rep_label}")
    elif op == "sum":
        with ctx.observing(op):
            r = sum([D.d] + [o.d for o in others])
        wm, wC = D.mean, D.C
        for o in others:
            wm, wC = wm + o.mean, wC + o.C
        ctx.label(f"op.sum.n={1 + len(others)}")
    elif op == "expand":
        shape = case["shape"]
        with ctx.observing(op):
            r = D.d.expand(torch.Size(shape))
        wm, wC = D.mean.expand(*shape, N), D.C.expand(*shape, N, N)
    elif op == "unsqueeze":
        dim = case["dim"]
        with ctx.observing(op):
            r = D.d.unsqueeze(dim)
        pos = dim if dim >= 0 else len(D.batch) + 1 + dim  # position among the batch dims (docstring of unsqueeze)
        wm, wC = D.mean.unsqueeze(pos), D.C.unsqueeze(pos)
        ctx.label(f"unsqueeze.dim={'neg' if dim < 0 else 'nonneg'}")
    elif op == "add_jitter":
        with ctx.observing(op):
            r = D.d.add_jitter() if case["default_eps"] else D.d.add_jitter(case["eps"])
        eps = 1e-4 if case["default_eps"] else case["eps"]  # documented default
        wm, wC = D.mean, D.C + eps * torch.eye(N)
    else:
        raise KeyError(op)
    ctx.check("type", isinstance(r, MultivariateNormal), f"result is {type(r).__name__}")
    wb = tuple(wm.shape[:-1])
    with ctx.observing("result.read"):
        gb, ge = tuple(r.batch_shape), tuple(r.event_shape)
        gm = r.mean
        gC = r.covariance_matrix
        glazy = r.lazy_covariance_matrix.to_dense()
        gvar = r.variance
    ctx.equal("batch_shape", gb, wb)
    ctx.equal("event_shape", ge, (N,))
    # mean / covariance may be stored un-broadcast (the batch shape says what they mean): compare after broadcasting,
    # but never let the library return *more* dims than the batch shape has
    ctx.check("mean.rank", gm.dim() <= len(wb) + 1, f"mean has shape {tuple(gm.shape)} for batch shape {wb}")
    try:
        gm_b = gm.expand(*wb, N)
        gC_b = gC.expand(*wb, N, N)
        gl_b = glazy.expand(*wb, N, N)
    except RuntimeError as e:
        ctx.fail("broadcastable", "shape", f"mean {tuple(gm.shape)} / covariance {tuple(gC.shape)} do not broadcast to batch {wb}: {e}")
        return
    ctx.close("mean", gm_b, wm)
    ctx.close("covariance_matrix", gC_b, wC)
    ctx.close("lazy_covariance_matrix", gl_b, wC)
    ctx.close("variance", gvar, wC.diagonal(dim1=-1, dim2=-2).clamp_min(1e-10))
    # the result must *behave* as that distribution: log density on both paths (exercises the cached scale_tril that
    # expand / unsqueeze hand over)
    ev = torch.linalg.eigvalsh(wC)
    lo = float(ev.min())
    krons = {(o.s["n1"], o.s["n2"]) for o in [D] + others if o.s["rep"] == "Kron"}
    if len(krons) > 1:
        # dependency defect, outside /repo: the sum of two KroneckerProductLinearOperators whose factors have different
        # sizes (2x3 and 3x2) becomes a SumKroneckerLinearOperator whose inv_quad_logdet raises a matmul shape error in
        # linear_operator itself.  mean / covariance of the sum are still judged.
        ctx.label("op.result_log_prob=excluded:Kron+Kron-different-factors(linear_operator)")
    elif D.s["rep"] == "Chol" and op in ("mul", "div") and case["c"] != 1:
        # dependency defect, outside /repo: `CholLinearOperator(L) * c` (RootLinearOperator._mul_constant rebuilt as a
        # CholLinearOperator) has a wrong solve / inv_quad (or raises NotPSDError) in linear_operator itself, without
        # gpytorch involved.  mean / covariance above are still judged; the density of the product is not.
        ctx.label("op.result_log_prob=excluded:Chol*scalar(linear_operator)")
    elif lo > 0 and float(ev.max()) / lo <= 1e8:
        kappa = float((ev.max(-1).values / ev.min(-1).values).max())
        tol = solve_tol(kappa)
        v = T(case["v"], [N]) if case["vmode"] == "event" else (wm + T(case["v"], [N]))
        want = ref_log_prob(wm, wC, v)
        for fast in (False, True):
            with ctx.observing(f"result.log_prob(fast={fast})"):
                with gpytorch.settings.fast_computations(log_prob=fast):
                    got = r.log_prob(v)
            ctx.close(f"result.log_prob(fast={fast})", got, want, rtol=tol, atol=tol)
        ctx.label("op.result_log_prob=checked")
    else:
        ctx.label("op.result_log_prob=singular-skipped")


# ====================================================================================================
# indexing
# ====================================================================================================
def decode_idx(ix):
    out = []
    for i in ix:
        if i == "...":
            out.append(Ellipsis)
        elif "int" in i:
            out.append(int(i["int"]))
        elif "slice" in i:
            out.append(slice(*i["slice"]))
        else:
            out.append(torch.tensor(i["tensor"], dtype=torch.long))
    return tuple(out)


def index_oracle(mean, C, idx):
    """(expected mean, expected covariance, flags) for d[idx]; None if torch itself rejects the index / out of domain.
    mean: batch x N, C: batch x N x N (dense, full batch shape)."""
    nd = mean.dim()
    try:
        em = mean[idx]
    except (IndexError, RuntimeError, ValueError):
        return "torch-rejects", None, None
    if em.dim() == 0 or em.numel() == 0:
        return "scalar-or-empty", None, None
    # normalise to one entry per dimension of mean
    n_ell = sum(1 for i in idx if i is Ellipsis)
    if n_ell:
        pos = [k for k, i in enumerate(idx) if i is Ellipsis][0]
        fill = nd - (len(idx) - 1)
        full = list(idx[:pos]) + [slice(None)] * fill + list(idx[pos + 1:])
    else:
        full = list(idx) + [slice(None)] * (nd - len(idx))
    bidx, e = full[:-1], full[-1]
    batch_tensor = any(torch.is_tensor(i) for i in bidx)
    if torch.is_tensor(e) and batch_tensor:
        return "tensor-in-batch-and-event", None, None
    if isinstance(e, int):
        var = C.diagonal(dim1=-1, dim2=-2)[tuple(full)]
        ec = torch.diag_embed(var)
    elif isinstance(e, slice):
        ec = C[(*bidx, e, e)]
    else:
        ec = C[(*bidx, slice(None), slice(None))][..., e, :][..., :, e]
    touches_event = not (isinstance(e, slice) and e == slice(None))
    return "ok", (em, ec), dict(touches_event=touches_event, event_kind=type(e).__name__ if not torch.is_tensor(e) else "tensor",
                                batch_tensor=batch_tensor, neg_int=any(isinstance(i, int) and i < 0 for i in full),
                                ellipsis=bool(n_ell), short=len(idx) - n_ell < nd)


def run_index_common(D: Dist, idx, ctx: Ctx, bare=False):
    status, exp, fl = index_oracle(D.mean, D.C, idx)
    if status != "ok":
        ctx.label(f"idx.skip:{status}")
        ctx.set_nontrivial(False)
        return
    if D.s["rep"] == "Chol" and fl["event_kind"] == "slice" and fl["touches_event"]:
        # dependency defect, outside /repo: CholLinearOperator inherits RootLinearOperator._getitem, which rebuilds
        # `self.__class__(root[rows])` - the CholLinearOperator constructor then rejects the (non-triangular, lazily
        # indexed) root: `CholLinearOperator(L)[..., 0:2, 0:2]` raises NotImplementedError without gpytorch involved.
        ctx.label("idx.excluded:Chol-event-slice(linear_operator)")
        ctx.set_nontrivial(False)
        return
    em, ec = exp
    ctx.label(f"idx.rep={D.rep_label}", f"idx.event={fl['event_kind'] if fl['touches_event'] else 'untouched'}",
              f"idx.batch_tensor={fl['batch_tensor']}", f"idx.neg_int={fl['neg_int']}", f"idx.ellipsis={fl['ellipsis']}",
              f"idx.short={fl['short']}")
    ctx.set_nontrivial(fl["touches_event"])
    with ctx.observing("getitem"):
        r = D.d[idx[0]] if (bare and len(idx) == 1) else D.d[idx]  # d[i] and d[(i,)] are both documented forms
        gm = r.mean
        gC = r.covariance_matrix
        gb, ge = tuple(r.batch_shape), tuple(r.event_shape)
    ctx.check("type", isinstance(r, MultivariateNormal), f"result is {type(r).__name__}")
    ctx.close("mean", gm, em, rtol=0.0, atol=0.0)
    ctx.close("covariance", gC, ec, rtol=1e-12, atol=1e-13)
    ctx.equal("batch_shape", gb, tuple(em.shape[:-1]))
    ctx.equal("event_shape", ge, tuple(em.shape[-1:]))


# ---- fixed instances for the exhaustive family -------------------------------------------------------
def fixed_recipe(rep, shape):
    """A deterministic, well-conditioned recipe with mean shape `shape` (batch + [N]) - no randomness."""
    *b, N = shape
    nb = prod(b)

    def seq(n, a, m, off=0.0):  # a simple non-repeating lattice sequence
        return [(((i * a + 3) % m) - m / 2) / 4.0 + off for i in range(n)]

    s = {"rep": rep, "N": N, "cb": list(b), "mb": list(b), "mean": seq(nb * N, 7, 23)}
    pos = lambda n: [0.5 + ((i * 5) % 7) / 4.0 for i in range(n)]  # noqa: E731
    if rep in ("dense", "DenseLO", "Chol"):
        s["A"], s["dv"] = seq(nb * N * N, 5, 19), pos(nb * N)
    elif rep == "Diag":
        s["dv"] = pos(nb * N)
    elif rep == "RootLow":
        s["r"] = N - 1
        s["R"] = seq(nb * N * (N - 1), 5, 19)
    elif rep == "RootFull":
        s["k"] = 1
        s["A"], s["dv"], s["E"] = seq(nb * N * N, 5, 19), pos(nb * N), seq(nb * N, 3, 11)
    elif rep == "AddedDiag":
        s["r"] = 2
        s["R"], s["dv"] = seq(nb * N * 2, 5, 19), pos(nb * N)
    elif rep == "Kron":
        n1, n2 = KRON_FACT[N][0]
        s["n1"], s["n2"] = n1, n2
        s["A1"], s["dv1"], s["A2"], s["dv2"] = seq(nb * n1 * n1, 5, 19), pos(nb * n1), seq(nb * n2 * n2, 3, 17), pos(nb * n2)
    elif rep == "BatchRepeat":
        # the leading batch dim is produced by repetition, the rest is carried by the base operator
        s["cb0"] = list(b[1:])
        s["repeat"] = [b[0]] + [1] * (len(b) - 1)
        s["A"], s["dv"] = seq(prod(b[1:]) * N * N, 5, 19), pos(prod(b[1:]) * N)
    elif rep == "Kernel":
        s["d"] = 1
        s["x"] = [float(i % N) + ((i * 3) % 5 - 2) / 16.0 for i in range(nb * N)]
        s["ls"], s["os"] = 0.75, 2.0
    return s


def family_dim_options(size):
    """The stated index family for one dimension of extent `size` (DESIGN C10 / C06): every int (both signs), slices
    with start/stop in {None, 1, 2, -1, size+2} and step in {None, 2}, three 1-d index tensors."""
    out = [{"int": i} for i in range(-size, size)]
    vals = [None, 1, 2, -1, size + 2]
    for a, b, c in itertools.product(vals, vals, [None, 2]):
        out.append({"slice": [a, b, c]})
    out.append({"tensor": [0]})
    out.append({"tensor": [size - 1, 0]})
    out.append({"tensor": [0, 0, size - 1]})
    return out


def family(shape, zero_width_ellipsis=True):
    """All index tuples of the family for a mean of shape `shape`: full-length products, shorter prefixes, and `...`
    inserted at every position of every tuple that is shorter than the number of dimensions (and of full-length ones,
    where it stands for zero dimensions - optional)."""
    opts = [family_dim_options(n) for n in shape]
    nd = len(shape)
    for k in range(1, nd + 1):
        for combo in itertools.product(*opts[:k]):
            yield list(combo)
    # ellipsis: choose which leading dims (p of them) and trailing dims (q of them) are indexed explicitly
    for p in range(0, nd + 1):
        for q in range(0, nd + 1 - p):
            if p + q == nd and not zero_width_ellipsis:
                continue
            lead, trail = opts[:p], opts[nd - q:] if q else []
            for combo in itertools.product(*lead, *trail):
                yield list(combo[:p]) + ["..."] + list(combo[p:])


# (rep, mean shape, include full-length tuples that additionally carry a zero-width `...`)
ENUM_QUICK = [(r, [2, 3], True) for r in ("dense", "DenseLO", "Diag", "RootLow", "RootFull", "Chol", "AddedDiag", "BatchRepeat", "Kernel")] + [
    ("Kron", [2, 4], True), ("DenseLO", [2, 2, 3], False)]
ENUM_THOROUGH = [(r, [2, 3], True) for r in ("dense", "DenseLO", "Diag", "RootLow", "RootFull", "Chol", "AddedDiag", "BatchRepeat", "Kernel")] + [
    ("Kron", [2, 4], True)] + [(r, [2, 2, 3], r == "DenseLO") for r in ("dense", "DenseLO", "Diag", "RootLow", "RootFull", "Chol", "AddedDiag",
                                                                     "BatchRepeat", "Kernel")] + [("Kron", [2, 2, 4], False)]


def enumerate_index(tier):
    for rep, shape, zw in (ENUM_QUICK if tier == "quick" else ENUM_THOROUGH):
        for ix in family(shape, zw):
            yield {"rep": rep, "shape": shape, "idx": ix}
            if len(ix) == 1:
                yield {"rep": rep, "shape": shape, "idx": ix, "bare": True}


_FIXED = {}


def run_index_enum(case, ctx: Ctx):
    key = (case["rep"], tuple(case["shape"]))
    # the recipe is a pure function of (rep, shape); the Dist is rebuilt for every case (the library caches on it)
    s = _FIXED.get(key)
    if s is None:
        s = _FIXED[key] = fixed_recipe(case["rep"], case["shape"])
    ctx.cls = f"{case['rep']}|full|index{'x'.join(map(str, case['shape']))}"
    D = Dist(s, ctx)
    run_index_common(D, decode_idx(case["idx"]), ctx, bare=case.get("bare", False))


@st.composite
def idx_dim(draw, size):
    kind = draw(st.sampled_from(["int", "slice", "slice", "slice", "tensor", "full"]))
    if kind == "int":
        return {"int": draw(st.integers(-size, size - 1))}
    if kind == "full":
        return {"slice": [None, None, None]}
    if kind == "slice":
        vals = st.sampled_from([None, 0, 1, 2, -1, -2, size, size + 3, -size - 3])
        return {"slice": [draw(vals), draw(vals), draw(st.sampled_from([None, 1, 2, 3]))]}
    return {"tensor": draw(st.lists(st.integers(-size, size - 1), min_size=1, max_size=4))}


@st.composite
def index_cases(draw):
    rep = draw(st.sampled_from(ALL_REPS))
    b = draw(st.lists(EXT, min_size=0, max_size=2))
    N = draw(st.sampled_from([2, 4] if rep == "Kron" else [2, 3, 4])) if rep in ("Kron", "RootLow") else draw(st.integers(1, 4))
    s = draw(dist_recipe(reps=[rep], full=b, N=N, p_same=0.75))
    shape = list(torch.broadcast_shapes(tuple(s["mb"]), tuple(s["cb"]))) + [N]
    nd = len(shape)
    k = draw(st.sampled_from([nd, nd, nd, max(nd - 1, 1), 1]))
    ix = [draw(idx_dim(shape[i])) for i in range(k)]
    mode = draw(st.sampled_from(["plain", "plain", "ellipsis"]))
    if mode == "ellipsis":
        # `...` somewhere; the explicit entries after it address the trailing dims
        p = draw(st.integers(0, k))
        q = k - p
        ix = [draw(idx_dim(shape[i])) for i in range(p)] + ["..."] + [draw(idx_dim(shape[nd - q + j])) for j in range(q)]
    return {"dist": s, "idx": ix, "bare": draw(st.booleans())}


def run_index(case, ctx: Ctx):
    D = Dist(case["dist"], ctx)
    ctx.cls = D.cls("index")
    run_index_common(D, decode_idx(case["idx"]), ctx, bare=case.get("bare", False))


# ====================================================================================================
RULE = ("cases = MultivariateNormal recipes (mean batch x covariance batch x one of 10 covariance representations, N <= 6) "
        "with a value / index / operation; non-trivial = value batch shape differs from the distribution batch shape, or a "
        "lazy covariance representation, or an index touching the event dimension (for moments: every case); "
        "distinct = distinct canonical case")

SPEC = PropertySpec(
    pid="C10",
    rule=RULE,
    assumptions=[
        "float64, CPU; event size <= 6, batch rank <= 2 (extents <= 3), value rank <= 3",
        "covariances are constructed well conditioned (cond <= ~1e5); cond > 1e8 is discarded and counted",
        "the fast log_prob path is exercised below max_cholesky_size (exact) and, with max_cholesky_size(0), through CG/SLQ "
        "at 6 standard errors of the Hutchinson estimator",
        "singular covariances (RootLinearOperator of rank < N) are excluded from log_prob and KL",
        "index expressions with an index tensor in a batch position and in the event position are excluded (no single reading of 'marginal')",
    ],
    subchecks=[
        Subcheck("mvn.log_prob", run_log_prob, strategy=log_prob_cases, quick=3200, thorough=100000, min_shard=100),
        Subcheck("mvn.kl", run_kl, strategy=kl_cases, quick=1600, thorough=40000, min_shard=50),
        Subcheck("mvn.rsample_base", run_rsample, strategy=rsample_cases, quick=1600, thorough=40000, min_shard=50),
        Subcheck("mvn.variance", run_variance, strategy=variance_cases, quick=1200, thorough=20000, min_shard=50),
        Subcheck("mvn.arith", run_arith, strategy=arith_cases, quick=2400, thorough=80000, min_shard=100),
        Subcheck("mvn.moments", run_moments, strategy=moments_cases, quick=48, thorough=4000, min_shard=3),
        Subcheck("mvn.index", run_index, strategy=index_cases, quick=5000, thorough=200000, min_shard=200),
        Subcheck("mvn.index_exhaustive", run_index_enum, enumerate=enumerate_index,
                 exhaustive_note="every index tuple of the stated family (all ints, slices with start/stop in {None,1,2,-1,size+2} x step in "
                                 "{None,2}, three 1-d index tensors, prefixes, `...` in every position) on mean shapes (2,3) for every "
                                 "representation and (2,2,3) for dense / DenseLinearOperator (thorough: (2,2,3) for every representation)"),
    ],
)

"""C12 - Gaussian-family likelihoods add exactly the specified noise and integrate exactly.

For every likelihood of the Gaussian family that is exported by ``gpytorch.likelihoods`` (GaussianLikelihood,
GaussianLikelihoodWithMissingObs, FixedNoiseGaussianLikelihood, DirichletClassificationLikelihood,
MultitaskGaussianLikelihood) and for LikelihoodList the noise matrix R is written down explicitly from the
documentation (float64, plain torch / scipy, explicit einsum for the Kronecker structure) and compared with

* ``lik(N(m, C))``             -> mean m, covariance C + R (exact output batch shape = broadcast of all participants)
* ``lik(lik(N(m, C)))``        -> covariance C + 2R  ("added once" per application)
* ``lik(f)`` (tensor input)    -> the conditional N(f, diag R), its log_prob summed over tasks
* ``expected_log_prob(y, N(m, C))`` = -1/2 [log 2 pi r_i + ((y_i-m_i)^2 + C_ii)/r_i]      (summed over tasks for multitask)
* ``log_marginal(y, N(m, C))``      = log N(y_i; m_i, C_ii + r_i)                          (summed over tasks for multitask)

No oracle calls library code.  The sub-checks share one judge (``judge``); they differ in how the likelihood is
built and how R is derived."""
from __future__ import annotations

import itertools
import math
import warnings

import numpy as np
import scipy.stats
import torch
from hypothesis import strategies as st

import gpytorch
from gpytorch.distributions import MultitaskMultivariateNormal, MultivariateNormal
from linear_operator import to_linear_operator
from linear_operator.operators import DiagLinearOperator, KroneckerProductLinearOperator, RootLinearOperator

from pbt.core import Ctx, PropertySpec, Subcheck

L = gpytorch.likelihoods

# The Gaussian family that has a documented noise meaning; anything else exported with "Gaussian"/"Dirichlet" in its
# name must be added here consciously (harness error otherwise, like the frozen table of C20).
FAMILY = {
    "GaussianLikelihood", "GaussianLikelihoodWithMissingObs", "FixedNoiseGaussianLikelihood",
    "DirichletClassificationLikelihood", "MultitaskGaussianLikelihood", "LikelihoodList",
    # exported base classes without a constructor-level noise model of their own (not instantiable as such):
    "_GaussianLikelihoodBase", "_MultitaskGaussianLikelihoodBase",
}
for _n in L.__all__:
    if ("Gaussian" in _n or "Dirichlet" in _n or "List" in _n) and _n not in FAMILY:
        raise AssertionError(f"exported likelihood {_n} is not handled by pbt/props/c12.py")


# ----------------------------------------------------------------------------------------------------
# small helpers (harness side)
# ----------------------------------------------------------------------------------------------------
def T(x, shape=None):
    t = torch.tensor(x, dtype=torch.float64)
    if shape is not None:
        t = t.reshape(tuple(shape))
    return t


def nest(flat, shape):
    """flat list -> nested lists of the given shape (pure python, so the case stays JSON)."""
    shape = list(shape)
    if not shape:
        return flat[0]
    if len(shape) == 1:
        return list(flat[: shape[0]])
    step = 1
    for s in shape[1:]:
        step *= s
    return [nest(flat[i * step:(i + 1) * step], shape[1:]) for i in range(shape[0])]


def numel(shape):
    k = 1
    for s in shape:
        k *= s
    return k


def bshape(*shapes):
    return tuple(torch.broadcast_shapes(*[tuple(s) for s in shapes]))


def sh(shape):
    return "x".join(str(s) for s in shape) if len(shape) else "-"


def kron_interleaved(Kx, Kt):
    """index (i, a) -> i*t + a  :  C[(i,a),(j,b)] = Kx[i,j] Kt[a,b]"""
    n, t = Kx.shape[-1], Kt.shape[-1]
    out = torch.einsum("...ij,...ab->...iajb", Kx, Kt)
    return out.reshape(*out.shape[:-4], n * t, n * t)


def kron_blocked(Kt, Kx):
    """index (a, i) -> a*n + i  :  C[(a,i),(b,j)] = Kt[a,b] Kx[i,j]"""
    n, t = Kx.shape[-1], Kt.shape[-1]
    out = torch.einsum("...ab,...ij->...aibj", Kt, Kx)
    return out.reshape(*out.shape[:-4], n * t, n * t)


def dense_cov(spec, dist_batch, k, mt=None):
    """The dense covariance the case describes (oracle side).  mt = (n, t, interleaved) for multitask inputs."""
    kind = spec["kind"]
    eye = torch.eye(k, dtype=torch.float64)
    if kind in ("dense", "lazy", "root"):
        A = T(spec["A"])
        return A @ A.transpose(-1, -2) + spec["delta"] * eye
    if kind == "diag":
        return torch.diag_embed(T(spec["d"]))
    if kind == "kron":
        n, t, inter = mt
        Ax, At = T(spec["Ax"]), T(spec["At"])
        Kx = Ax @ Ax.transpose(-1, -2) + spec["delta"] * torch.eye(n, dtype=torch.float64)
        Kt = At @ At.transpose(-1, -2) + spec["delta"] * torch.eye(t, dtype=torch.float64)
        return kron_interleaved(Kx, Kt) if inter else kron_blocked(Kt, Kx)
    raise KeyError(kind)


def library_cov(spec, k, mt=None):
    """What is handed to the distribution constructor: a dense tensor or one of several operator classes."""
    kind = spec["kind"]
    if kind == "dense":
        return dense_cov(spec, None, k, mt)
    if kind == "lazy":
        return to_linear_operator(dense_cov(spec, None, k, mt))
    if kind == "root":
        A = T(spec["A"])
        return RootLinearOperator(A) + DiagLinearOperator(torch.full((*A.shape[:-2], k), float(spec["delta"]), dtype=torch.float64))
    if kind == "diag":
        return DiagLinearOperator(T(spec["d"]))
    if kind == "kron":
        n, t, inter = mt
        Ax, At = T(spec["Ax"]), T(spec["At"])
        Kx = Ax @ Ax.transpose(-1, -2) + spec["delta"] * torch.eye(n, dtype=torch.float64)
        Kt = At @ At.transpose(-1, -2) + spec["delta"] * torch.eye(t, dtype=torch.float64)
        return KroneckerProductLinearOperator(Kx, Kt) if inter else KroneckerProductLinearOperator(Kt, Kx)
    raise KeyError(kind)


def ref_elp(y, m, v, r):
    return -0.5 * (torch.log(2 * math.pi * r) + ((y - m) ** 2 + v) / r)


def ref_lm(y, m, v, r):
    y, m, s = torch.broadcast_tensors(y, m, (v + r).sqrt())
    return torch.as_tensor(scipy.stats.norm.logpdf(y.numpy(), loc=m.numpy(), scale=s.numpy()), dtype=torch.float64).reshape(y.shape)


# ----------------------------------------------------------------------------------------------------
# the judge: everything the property says about one (likelihood, distribution, call kwargs) triple
# ----------------------------------------------------------------------------------------------------
def judge(ctx: Ctx, lik, make_dist, m, C, R, r_event, full, kw, y, f, ops, tasks=False, skip_closed=False, nanmask=None):
    """m: mean (dist batch + event); C: dense covariance (dist batch + k x k); R: dense noise (some batch + k x k);
    r_event: diag(R) in event layout (some batch + event); full: expected output batch shape;
    kw: call kwargs as a zero-arg factory (fresh tensors every call); y: observations; f: function values (tensor input);
    ops: which observations to make; tasks: sum closed forms over the last (task) dimension."""
    k = C.shape[-1]
    event = tuple(m.shape[-2:]) if tasks else tuple(m.shape[-1:])
    Cf = C.expand(*full, k, k)
    Rf = R.expand(*full, k, k)
    mf = m.expand(*full, *event)
    scale = max(1.0, float(Cf.abs().max()), float(Rf.abs().max()))

    if "marginal" in ops:
        with ctx.observing("marginal"):
            d = make_dist()
            out = lik(d, **kw())
            out_mean = out.mean.detach().clone()
            out_cov = out.covariance_matrix.detach().clone()
            same_class = type(out) is type(d)
        ctx.check("marginal.class", same_class, f"output class {type(out).__name__} differs from the input class {type(d).__name__}")
        if tuple(out_mean.shape) != tuple(mf.shape):
            try:  # the mean may be left un-broadcast; the values must still be those of m
                out_mean = torch.broadcast_to(out_mean, mf.shape)
            except RuntimeError:
                pass
        ctx.close("marginal.mean", out_mean, mf, rtol=0.0, atol=0.0)
        # C cancels up to eps*|C|; closed-form tolerance of DESIGN 1.4 with scale = max(|C|, |R|)
        ok = ctx.close("marginal.cov_minus_in", out_cov - Cf if tuple(out_cov.shape) == tuple(Cf.shape) else out_cov, Rf,
                       rtol=1e-9, atol=1e-11, scale=scale)
        if not ok:
            return  # everything below would repeat the same wrong R
    if "twice" in ops:
        with ctx.observing("twice"):
            out2 = lik(lik(make_dist(), **kw()), **kw())
            out2_cov = out2.covariance_matrix.detach().clone()
        ctx.close("twice.cov_minus_in", out2_cov - Cf if tuple(out2_cov.shape) == tuple(Cf.shape) else out2_cov, 2 * Rf,
                  rtol=1e-9, atol=1e-11, scale=scale)
    if skip_closed:
        return
    rf = r_event.expand(*full, *event)
    v = torch.diagonal(C, dim1=-1, dim2=-2)
    if tasks:
        n, t = event
        v = v.reshape(*v.shape[:-1], n, t) if ops.get("interleaved", True) else v.reshape(*v.shape[:-1], t, n).transpose(-1, -2)
    vf = v.expand(*full, *event)

    def reduce(x):
        return x.sum(-1) if tasks else x

    def mask(x):
        if nanmask is None:
            return x
        return torch.where(nanmask.expand(x.shape), torch.zeros_like(x), x)

    y_ref = y if nanmask is None else torch.where(nanmask, torch.zeros_like(y), y)
    if "elp" in ops:
        with ctx.observing("expected_log_prob"):
            got = lik.expected_log_prob(y.clone(), make_dist(), **kw()).detach().clone()
        ctx.close("expected_log_prob", got, mask(reduce(ref_elp(y_ref, mf, vf, rf))), rtol=1e-9, atol=1e-11)
    if "lm" in ops:
        with ctx.observing("log_marginal"):
            got = lik.log_marginal(y.clone(), make_dist(), **kw()).detach().clone()
        ctx.close("log_marginal", got, mask(reduce(ref_lm(y_ref, mf, vf, rf))), rtol=1e-9, atol=1e-11)
    if "cond" in ops:
        # conditional p(y | f): independent normals with the variances diag(R) around f
        fb = bshape(f.shape[: f.dim() - len(event)], r_event.shape[: r_event.dim() - len(event)])
        with ctx.observing("conditional"):
            cd = lik(f.clone(), **kw())
            c_mean = cd.mean.detach().clone()
            c_var = cd.variance.detach().clone()
            c_lp = cd.log_prob(y_ref.clone()).detach().clone()
        ff = f.expand(*fb, *event)
        rr = r_event.expand(*fb, *event)
        ctx.close("conditional.mean", c_mean, ff, rtol=0.0, atol=0.0)
        ctx.close("conditional.variance", c_var, rr, rtol=1e-9, atol=1e-11)
        ctx.close("conditional.log_prob", c_lp, reduce(ref_lm(y_ref, ff, torch.zeros_like(rr), rr)), rtol=1e-9, atol=1e-11)


def pick_ops(case):
    ops = {o: True for o in case.get("ops", ["marginal", "twice", "elp", "lm", "cond"])}
    return ops


# ----------------------------------------------------------------------------------------------------
# GaussianLikelihood / GaussianLikelihoodWithMissingObs
# ----------------------------------------------------------------------------------------------------
def run_gaussian(case, ctx: Ctx):
    n = case["n"]
    Lb, Db = tuple(case["lik_batch"]), tuple(case["dist_batch"])
    call = case.get("call")
    Cb = tuple(case["call_batch"]) if call is not None else None
    sigma2 = T(case["noise"], Lb + (1,))
    m = T(case["mean"], Db + (n,))
    C = dense_cov(case["cov"], Db, n)
    y = T(case["y"], tuple(case["y_batch"]) + (n,))
    f = T(case["f"], tuple(case["f_batch"]) + (n,))
    nanmask = None
    if case.get("nan") is not None:
        nanmask = torch.tensor(case["nan"], dtype=torch.bool)
        y = torch.where(nanmask, torch.full_like(y, float("nan")), y)
    if call is None:
        r = sigma2.expand(*Lb, n)  # sigma^2 I
        full = bshape(Lb, Db)
    else:
        r = T(call, Cb + (n,))  # "If a noise kwarg (a Tensor) is provided, this noise is used directly" (noise_models.py)
        full = bshape(Cb, Db)
    R = torch.diag_embed(r)
    bc = (Lb if call is None else Cb) != Db
    ctx.cls = f"{case['cls']}|{'calltime' if call is not None else 'stored'}|cov={case['cov']['kind']}"
    ctx.label(f"cls={case['cls']}", f"gaussian.calltime={call is not None}", f"gaussian.lik_batch={sh(Lb)}", f"dist_batch={sh(Db)}",
              f"cov={case['cov']['kind']}", f"n={n}", f"gaussian.broadcast={bc}", f"nan={nanmask is not None}")
    ctx.set_nontrivial(bc or call is not None or nanmask is not None)
    with ctx.observing("construct"):
        lik = getattr(L, case["cls"])(batch_shape=torch.Size(Lb))
        lik.noise = sigma2.clone()
    kw = (lambda: {}) if call is None else (lambda: {"noise": T(call, Cb + (n,))})
    ops = pick_ops(case)
    if nanmask is not None:
        ops.pop("cond", None)  # the missing-value behaviour is documented for expected_log_prob / log_marginal only
    judge(ctx, lik, lambda: MultivariateNormal(m.clone(), library_cov(case["cov"], n)), m, C, R, r, full, kw, y, f, ops, nanmask=nanmask)


# ----------------------------------------------------------------------------------------------------
# FixedNoiseGaussianLikelihood
# ----------------------------------------------------------------------------------------------------
def run_fixed(case, ctx: Ctx):
    n, ns = case["n"], case["stored_n"]
    mode, learn = case["mode"], case["learn"]
    Nb, Sb, Db = tuple(case["noise_batch"]), tuple(case["second_batch"]), tuple(case["dist_batch"])
    Cb = tuple(case["call_batch"])
    fixed = T(case["fixed"], Nb + (ns,))
    second = T(case["second"], Sb + (1,))
    m = T(case["mean"], Db + (n,))
    C = dense_cov(case["cov"], Db, n)
    y = T(case["y"], tuple(case["y_batch"]) + (n,))
    f = T(case["f"], tuple(case["f_batch"]) + (n,))
    assert (mode in ("stored", "calltime")) == (ns == n)
    if mode == "stored":
        r, parts = fixed, [Nb]  # diag(fixed noise)
    elif mode in ("calltime", "calltime_other_n"):
        r, parts = T(case["call"], Cb + (n,)), [Cb]  # the noise passed at call time in place of the stored noise
    else:  # "mismatch": documented no-op of the fixed part (GPInputWarning text)
        r, parts = torch.zeros(n, dtype=torch.float64), []
    if learn:
        fb = bshape(r.shape[:-1], Sb)
        r = r.expand(*fb, n) + second.expand(*fb, 1)  # + sigma^2 I
        parts.append(Sb)
    R = torch.diag_embed(r)
    full = bshape(Db, *parts)
    bc = any(p != Db for p in parts)
    calltime = mode.startswith("calltime")
    ctx.cls = f"Fixed|{'calltime' if calltime else mode}|{'learn' if learn else 'nolearn'}"
    ctx.label(f"fixed.mode={mode}", f"fixed.learn={learn}", f"fixed.mode+learn={mode}+{learn}", f"fixed.noise_batch={sh(Nb)}",
              f"fixed.second_batch={sh(Sb) if learn else 'n/a'}", f"fixed.call_batch={sh(Cb) if calltime else 'n/a'}",
              f"dist_batch={sh(Db)}", f"cov={case['cov']['kind']}", f"n={n}", f"fixed.broadcast={bc}")
    ctx.set_nontrivial(bc or (calltime and learn) or mode != "stored")
    with ctx.observing("construct"):
        lik = L.FixedNoiseGaussianLikelihood(noise=fixed.clone(), learn_additional_noise=learn, batch_shape=torch.Size(Sb))
        if learn:
            lik.second_noise = second.clone()
    kw = (lambda: {"noise": T(case["call"], Cb + (n,))}) if calltime else (lambda: {})
    mk = lambda: MultivariateNormal(m.clone(), library_cov(case["cov"], n))  # noqa: E731
    ops = pick_ops(case)
    if mode == "mismatch" and not learn:
        # R = 0: only the documented no-op (with its warning) is asserted, the densities are degenerate
        with warnings.catch_warnings(record=True) as rec:
            warnings.simplefilter("always")
            judge(ctx, lik, mk, m, C, R, r, full, kw, y, f, {"marginal": True}, skip_closed=True)
        ctx.check("mismatch.warns", any(issubclass(w.category, gpytorch.utils.warnings.GPInputWarning) for w in rec),
                  "no GPInputWarning although stored noise size != n and no noise was passed")
        return
    judge(ctx, lik, mk, m, C, R, r, full, kw, y, f, ops)


# ----------------------------------------------------------------------------------------------------
# DirichletClassificationLikelihood (fixed-noise Gaussian family: sigma_i^2 = log(1/alpha_i + 1))
# ----------------------------------------------------------------------------------------------------
def dirichlet_noise(targets, ncls, alpha_eps):
    alpha = torch.full((ncls, len(targets)), float(alpha_eps), dtype=torch.float64)
    for i, c in enumerate(targets):
        alpha[c, i] += 1.0
    s2 = torch.log(1.0 / alpha + 1.0)
    return s2, alpha.log() - 0.5 * s2


def run_dirichlet(case, ctx: Ctx):
    targets, call_t, learn, aeps = case["targets"], case.get("call_targets"), case["learn"], case["alpha_epsilon"]
    ncls = max(targets) + 1
    N = len(call_t) if call_t is not None else len(targets)
    if call_t is not None:
        assert max(call_t) + 1 == ncls  # domain: the call-time labels span the same classes
    s2_stored, tt = dirichlet_noise(targets, ncls, aeps)
    second = T(case["second"], (ncls, 1))
    r = s2_stored if call_t is None else dirichlet_noise(call_t, ncls, aeps)[0]
    if learn:
        r = r + second
    R = torch.diag_embed(r)
    Db = (ncls,)
    m = T(case["mean"], Db + (N,))
    C = dense_cov(case["cov"], Db, N)
    y = T(case["y"], Db + (N,))
    f = T(case["f"], Db + (N,))
    default_alpha = abs(aeps - 0.01) < 1e-15
    ctx.cls = (f"Dirichlet|{'calltime' if call_t is not None else 'stored'}|{'learn' if learn else 'nolearn'}"
               f"|alpha={'default' if default_alpha else 'other'}")
    ctx.label(f"dirichlet.calltime={call_t is not None}", f"dirichlet.learn={learn}", f"dirichlet.classes={ncls}",
              f"dirichlet.alpha_default={default_alpha}", f"cov={case['cov']['kind']}")
    ctx.set_nontrivial(call_t is not None or learn)
    with ctx.observing("construct"):
        lik = L.DirichletClassificationLikelihood(torch.tensor(targets, dtype=torch.long), alpha_epsilon=aeps,
                                                  learn_additional_noise=learn, dtype=torch.float64)
        if learn:
            lik.second_noise = second.clone()
        got_tt = lik.transformed_targets.detach().clone()
        got_nc = lik.num_classes
    ctx.equal("num_classes", got_nc, ncls)
    ctx.close("transformed_targets", got_tt, tt, rtol=1e-9, atol=1e-11)  # y = log(alpha) - sigma^2/2
    kw = (lambda: {}) if call_t is None else (lambda: {"targets": torch.tensor(call_t, dtype=torch.long)})
    ops = pick_ops(case)
    if call_t is not None:
        # `targets=` is documented for calling the likelihood only (class docstring example); expected_log_prob / log_marginal do not take it
        ops.pop("elp", None)
        ops.pop("lm", None)
    judge(ctx, lik, lambda: MultivariateNormal(m.clone(), library_cov(case["cov"], N)), m, C, R, r, Db, kw, y, f, ops)


# ----------------------------------------------------------------------------------------------------
# MultitaskGaussianLikelihood
# ----------------------------------------------------------------------------------------------------
def run_multitask(case, ctx: Ctx):
    n, t, rank = case["n"], case["t"], case["rank"]
    glob, task, inter = case["glob"], case["task"], case["interleaved"]
    Lb, Db = tuple(case["lik_batch"]), tuple(case["dist_batch"])
    sigma2 = T(case["noise"], Lb + (1,))
    D = torch.zeros(*Lb, t, t, dtype=torch.float64)
    if task and rank == 0:
        D = D + torch.diag_embed(T(case["task_noises"], Lb + (t,)))  # D_t = diag(task noises)
    elif task:
        F = T(case["factor"], Lb + (t, rank))
        D = D + F @ F.transpose(-1, -2)  # D_t = F F^T
    if glob:
        D = D + sigma2.unsqueeze(-1) * torch.eye(t, dtype=torch.float64)  # + sigma^2 I
    eye_n = torch.eye(n, dtype=torch.float64)
    R = kron_interleaved(eye_n, D) if inter else kron_blocked(D, eye_n)  # I_n (x) D  or  D (x) I_n  by layout
    r = torch.diagonal(D, dim1=-1, dim2=-2).unsqueeze(-2).expand(*Lb, n, t)  # event layout (n, t)
    m = T(case["mean"], Db + (n, t))
    C = dense_cov(case["cov"], Db, n * t, (n, t, inter))
    y = T(case["y"], tuple(case["y_batch"]) + (n, t))
    f = T(case["f"], tuple(case["f_batch"]) + (n, t))
    full = bshape(Lb, Db)
    contained = full == Db  # the likelihood batch shape already broadcasts into the distribution's
    ctx.cls = (f"MT|{'task' if task else 'notask'}|{'glob' if glob else 'noglob'}|rank{'0' if rank == 0 else '>0'}"
               f"|{'interleaved' if inter else 'blocked'}|{'likbatch<=dist' if contained else 'likbatch>dist'}")
    ctx.label(f"mt.t={t}", f"mt.rank={rank}", f"mt.glob={glob}", f"mt.task={task}", f"mt.interleaved={inter}", f"mt.lik_batch={sh(Lb)}",
              f"dist_batch={sh(Db)}", f"cov={case['cov']['kind']}", f"n={n}", f"mt.broadcast={Lb != Db}", f"mt.likbatch_in_dist={contained}",
              f"mt.rank_vs_t={'0' if rank == 0 else ('full' if rank == t else 'low')}|{'glob' if glob else 'noglob'}|{'task' if task else 'notask'}")
    ctx.set_nontrivial((not inter) or (task and rank >= 1) or Lb != Db)
    with ctx.observing("construct"):
        lik = L.MultitaskGaussianLikelihood(num_tasks=t, rank=rank, batch_shape=torch.Size(Lb), has_global_noise=glob, has_task_noise=task)
        if glob:
            lik.noise = sigma2.clone()
        if task and rank == 0:
            lik.task_noises = T(case["task_noises"], Lb + (t,))
        elif task:
            lik.initialize(task_noise_covar_factor=T(case["factor"], Lb + (t, rank)))
    ops = pick_ops(case)
    ops["interleaved"] = inter
    mk = lambda: MultitaskMultivariateNormal(m.clone(), library_cov(case["cov"], n * t, (n, t, inter)), interleaved=inter)  # noqa: E731
    judge(ctx, lik, mk, m, C, R, r, full, lambda: {}, y, f, ops, tasks=True)


# ----------------------------------------------------------------------------------------------------
# LikelihoodList
# ----------------------------------------------------------------------------------------------------
def _member(mem):
    """-> (likelihood, dist factory, m, C, r (event layout), R, tasks, interleaved, call noise or None)"""
    kind, n = mem["kind"], mem["n"]
    call = mem.get("call")
    if kind == "multitask":
        t = mem["t"]
        lik = L.MultitaskGaussianLikelihood(num_tasks=t, rank=0)
        lik.noise = T(mem["noise"], (1,))
        lik.task_noises = T(mem["task_noises"], (t,))
        D = torch.diag_embed(T(mem["task_noises"], (t,))) + T(mem["noise"], (1,)) * torch.eye(t, dtype=torch.float64)
        inter = mem["interleaved"]
        eye_n = torch.eye(n, dtype=torch.float64)
        R = kron_interleaved(eye_n, D) if inter else kron_blocked(D, eye_n)
        r = torch.diagonal(D).unsqueeze(-2).expand(n, t)
        m = T(mem["mean"], (n, t))
        C = dense_cov(mem["cov"], (), n * t, (n, t, inter))
        mk = lambda: MultitaskMultivariateNormal(m.clone(), library_cov(mem["cov"], n * t, (n, t, inter)), interleaved=inter)  # noqa: E731
        return lik, mk, m, C, r, R, True, inter
    if kind == "gaussian":
        lik = L.GaussianLikelihood()
        lik.noise = T(mem["noise"], (1,))
        r = T(mem["noise"], (1,)).expand(n) if call is None else T(call, (n,))
    else:
        learn = kind == "fixed_learn"
        lik = L.FixedNoiseGaussianLikelihood(noise=T(mem["fixed"], (n,)), learn_additional_noise=learn)
        if learn:
            lik.second_noise = T(mem["noise"], (1,))
        r = T(mem["fixed"], (n,)) if call is None else T(call, (n,))
        if learn:
            r = r + T(mem["noise"], (1,))
    m = T(mem["mean"], (n,))
    C = dense_cov(mem["cov"], (), n)
    mk = lambda: MultivariateNormal(m.clone(), library_cov(mem["cov"], n))  # noqa: E731
    return lik, mk, m, C, r, torch.diag_embed(r), False, True


def run_list(case, ctx: Ctx):
    mems, op, with_noise = case["members"], case["op"], case["with_noise"]
    kinds = [mm["kind"] for mm in mems]
    f3cell = with_noise and "fixed_learn" in kinds
    ctx.cls = f"List|{op}|{'noise' if with_noise else 'nonoise'}|{'calltime+learn' if f3cell else 'plain'}"
    ctx.label(f"list.op={op}", f"list.with_noise={with_noise}", f"list.k={len(mems)}", *[f"list.member={k}" for k in sorted(set(kinds))])
    ctx.set_nontrivial(len(mems) >= 2 or with_noise)
    with ctx.observing("construct"):
        built = [_member(mm) for mm in mems]
        ll = L.LikelihoodList(*[b[0] for b in built])
    wrap = lambda j, x: (x,) if mems[j].get("tuple") else x  # noqa: E731   (both argument forms are accepted by _get_tuple_args_)
    kw = (lambda: {"noise": [T(mm["call"], (mm["n"],)) for mm in mems]}) if with_noise else (lambda: {})
    ys = [T(mm["y"], tuple(b[2].shape)) for mm, b in zip(mems, built)]
    fs = [T(mm["f"], tuple(b[2].shape)) for mm, b in zip(mems, built)]
    if op == "marginal":
        with ctx.observing("list.call"):
            outs = ll(*[wrap(j, b[1]()) for j, b in enumerate(built)], **kw())
            got = [(o.mean.detach().clone(), o.covariance_matrix.detach().clone()) for o in outs]
        if not ctx.equal("list.len", len(got), len(mems)):
            return
        for j, (b, (gm, gc)) in enumerate(zip(built, got)):
            _, _, m, C, r, R, tasks, inter = b
            scale = max(1.0, float(C.abs().max()), float(R.abs().max()))
            ctx.close("list.mean", gm, m, rtol=0.0, atol=0.0)
            ctx.close("list.cov_minus_in", gc - C if gc.shape == C.shape else gc, R, rtol=1e-9, atol=1e-11, scale=scale)
    elif op in ("conditional", "forward"):
        with ctx.observing("list." + op):
            outs = (ll if op == "conditional" else ll.forward)(*[wrap(j, fj.clone()) for j, fj in enumerate(fs)], **kw())
            got = [(o.mean.detach().clone(), o.variance.detach().clone(), o.log_prob(yj.clone()).detach().clone()) for o, yj in zip(outs, ys)]
        if not ctx.equal("list.len", len(got), len(mems)):
            return
        for b, fj, yj, (gm, gv, glp) in zip(built, fs, ys, got):
            _, _, m, C, r, R, tasks, inter = b
            ctx.close("list.cond_mean", gm, fj, rtol=0.0, atol=0.0)
            ctx.close("list.cond_variance", gv, r, rtol=1e-9, atol=1e-11)
            lp = ref_lm(yj, fj, torch.zeros_like(r), r)
            ctx.close("list.cond_log_prob", glp, lp.sum(-1) if tasks else lp, rtol=1e-9, atol=1e-11)
    elif op == "elp":
        with ctx.observing("list.expected_log_prob"):
            outs = ll.expected_log_prob(*[(yj.clone(), b[1]()) for yj, b in zip(ys, built)])
            got = [o.detach().clone() for o in outs]
        if not ctx.equal("list.len", len(got), len(mems)):
            return
        for b, yj, g in zip(built, ys, got):
            _, _, m, C, r, R, tasks, inter = b
            v = torch.diagonal(C)
            if tasks:
                n, t = m.shape
                v = v.reshape(n, t) if inter else v.reshape(t, n).T
            e = ref_elp(yj, m, v, r)
            ctx.close("list.expected_log_prob", g, e.sum(-1) if tasks else e, rtol=1e-9, atol=1e-11)
    else:
        raise KeyError(op)


# ----------------------------------------------------------------------------------------------------
# generators.  Everything is constructed; nothing is filtered.
# ----------------------------------------------------------------------------------------------------
Q = st.integers(-12, 12).map(lambda q: q / 4)  # coarse lattice (coincident values, shrinks to small numbers)
FL = st.floats(-3, 3, allow_nan=False, allow_infinity=False)
POSQ = st.sampled_from([0.01, 0.0625, 0.125, 0.25, 0.5, 0.75, 1.0, 1.5, 2.0])
POSF = st.floats(1e-3, 2.0, allow_nan=False)  # noise 1e-3 ... 2 (DESIGN 1.2); the library's lower bound is 1e-4 / min_fixed_noise 1e-6
DELTA = st.sampled_from([0.05, 0.25, 1.0])


class HSrc:
    """numeric payload drawn by Hypothesis"""

    def __init__(self, draw):
        self.draw = draw

    def nums(self, k):
        el = self.draw(st.sampled_from([Q, Q, st.one_of(Q, FL)]))
        return self.draw(st.lists(el, min_size=k, max_size=k))

    def pos(self, k):
        el = self.draw(st.sampled_from([POSQ, st.one_of(POSQ, POSF)]))
        return self.draw(st.lists(el, min_size=k, max_size=k))

    def delta(self):
        return self.draw(DELTA)

    def choice(self, xs):
        return self.draw(st.sampled_from(list(xs)))


class DSrc:
    """deterministic payload for the enumerated tiers (a fixed LCG, seeded by the cell index)"""

    def __init__(self, seed):
        self.s = (seed * 2654435761 + 12345) % (2 ** 32)

    def _next(self):
        self.s = (self.s * 1664525 + 1013904223) % (2 ** 32)
        return self.s >> 8

    def nums(self, k):
        return [((self._next() % 25) - 12) / 4 for _ in range(k)]

    def pos(self, k):
        tab = [0.0625, 0.125, 0.25, 0.375, 0.5, 0.75, 1.0, 1.25, 1.5, 2.0, 0.03, 0.3]
        return [tab[self._next() % len(tab)] for _ in range(k)]

    def delta(self):
        return [0.05, 0.25, 1.0][self._next() % 3]

    def choice(self, xs):
        xs = list(xs)
        return xs[self._next() % len(xs)]


def mk_cov(src, kind, Db, k, mt=None):
    Db = list(Db)
    if kind == "diag":
        return {"kind": "diag", "d": nest([x + 0.05 for x in src.pos(numel(Db) * k)], Db + [k])}
    if kind == "kron":
        n, t = mt
        return {"kind": "kron", "delta": src.delta(), "Ax": nest(src.nums(numel(Db) * n * 2), Db + [n, 2]),
                "At": nest(src.nums(numel(Db) * t * 2), Db + [t, 2])}
    return {"kind": kind, "delta": src.delta(), "A": nest(src.nums(numel(Db) * k * 2), Db + [k, 2])}


def sub_shape(src, B):
    """a shape that broadcasts into B: keep some trailing dims, replace some by 1"""
    B = list(B)
    keep = src.choice(range(len(B) + 1))
    out = B[len(B) - keep:]
    return [d if src.choice([True, True, False]) else 1 for d in out]


BATCHES = [[], [], [1], [2], [3], [2, 1], [1, 3], [3, 2], [2, 3]]
COVKINDS = ["dense", "lazy", "diag", "root"]


def payload_common(src, case, Db, event, parts=()):
    """y (batch shape = the distribution's, or none) and f (the distribution's batch shape, the full broadcast shape, or the latter with a
    leading sample dimension as in Monte-Carlo use of forward)"""
    fullb = list(bshape(Db, *parts))
    yb = src.choice([Db, Db, []])
    fb = src.choice([Db, fullb, [2] + fullb])
    case["y_batch"], case["f_batch"] = list(yb), list(fb)
    case["y"] = nest(src.nums(numel(yb) * numel(event)), list(yb) + list(event))
    case["f"] = nest(src.nums(numel(fb) * numel(event)), list(fb) + list(event))


def build_gaussian(src, cls, n, Lb, Db, Cb, covkind, nan=False):
    case = {"cls": cls, "n": n, "lik_batch": list(Lb), "dist_batch": list(Db)}
    case["noise"] = nest(src.pos(numel(Lb)), list(Lb) + [1])
    case["mean"] = nest(src.nums(numel(Db) * n), list(Db) + [n])
    case["cov"] = mk_cov(src, covkind, Db, n)
    if Cb is not None:
        case["call_batch"] = list(Cb)
        case["call"] = nest(src.pos(numel(Cb) * n), list(Cb) + [n])
    payload_common(src, case, Db, [n], [Lb] if Cb is None else [Cb])
    if nan:
        nb = case["y_batch"]
        bits = [src.choice([True, False, False]) for _ in range(numel(nb) * n)]
        bits[0] = True
        case["nan"] = nest(bits, list(nb) + [n])
    return case


@st.composite
def gaussian_cases(draw):
    src = HSrc(draw)
    B = src.choice(BATCHES)
    cls = src.choice(["GaussianLikelihood", "GaussianLikelihood", "GaussianLikelihoodWithMissingObs"])
    n = draw(st.integers(1, 4))
    Lb, Db = sub_shape(src, B), sub_shape(src, B)
    Cb = sub_shape(src, B) if src.choice([False, False, True]) else None
    nan = cls.endswith("MissingObs") and src.choice([True, True, False])
    return build_gaussian(src, cls, n, Lb, Db, Cb, src.choice(COVKINDS), nan)


def build_fixed(src, mode, learn, n, Nb, Sb, Db, Cb, covkind):
    if mode == "mismatch" and not learn and covkind == "diag":
        # steered away from a dependency defect: the library returns a shape-less ZeroLinearOperator() here and linear_operator's
        # DiagLinearOperator.__add__ turns `batched diag + ZeroLinearOperator()` into an AddedDiagLinearOperator of the wrong shape
        covkind = "lazy"
    ns = n if mode in ("stored", "calltime") else (n + 1 if n < 3 else n - 1)
    case = {"n": n, "stored_n": ns, "mode": mode, "learn": learn, "noise_batch": list(Nb), "second_batch": list(Sb if learn else []),
            "dist_batch": list(Db), "call_batch": list(Cb if mode.startswith("calltime") else [])}
    case["fixed"] = nest(src.pos(numel(Nb) * ns), list(Nb) + [ns])
    case["second"] = nest(src.pos(numel(case["second_batch"])), case["second_batch"] + [1])
    case["call"] = nest(src.pos(numel(Cb) * n), list(Cb) + [n]) if mode.startswith("calltime") else None
    case["mean"] = nest(src.nums(numel(Db) * n), list(Db) + [n])
    case["cov"] = mk_cov(src, covkind, Db, n)
    parts = ([Nb] if mode == "stored" else []) + ([Cb] if mode.startswith("calltime") else []) + ([Sb] if learn else [])
    payload_common(src, case, Db, [n], parts)
    return case


FIXED_MODES = ["stored", "stored", "calltime", "calltime", "calltime_other_n", "mismatch"]


@st.composite
def fixed_cases(draw):
    src = HSrc(draw)
    B = src.choice(BATCHES)
    mode = src.choice(FIXED_MODES)
    learn = draw(st.booleans())
    n = draw(st.integers(1, 4))
    return build_fixed(src, mode, learn, n, sub_shape(src, B), sub_shape(src, B), sub_shape(src, B), sub_shape(src, B), src.choice(COVKINDS))


@st.composite
def dirichlet_cases(draw):
    src = HSrc(draw)
    ncls = draw(st.integers(2, 4))
    N = draw(st.integers(1, 4))
    targets = draw(st.lists(st.integers(0, ncls - 1), min_size=N, max_size=N))
    targets[draw(st.integers(0, N - 1))] = ncls - 1
    ncls = max(targets) + 1
    case = {"targets": targets, "learn": draw(st.booleans()), "alpha_epsilon": src.choice([0.01, 0.01, 0.1, 0.5, 0.003])}
    M = N
    if draw(st.booleans()):
        M = draw(st.integers(1, 4))
        ct = draw(st.lists(st.integers(0, ncls - 1), min_size=M, max_size=M))
        ct[draw(st.integers(0, M - 1))] = ncls - 1
        case["call_targets"] = ct
    case["second"] = nest(src.pos(ncls), [ncls, 1])
    case["mean"] = nest(src.nums(ncls * M), [ncls, M])
    case["cov"] = mk_cov(src, src.choice(COVKINDS), [ncls], M)
    case["y"] = nest(src.nums(ncls * M), [ncls, M])
    case["f"] = nest(src.nums(ncls * M), [ncls, M])
    return case


def build_multitask(src, n, t, rank, glob, task, inter, Lb, Db, covkind):
    case = {"n": n, "t": t, "rank": rank, "glob": glob, "task": task, "interleaved": inter, "lik_batch": list(Lb), "dist_batch": list(Db)}
    case["noise"] = nest(src.pos(numel(Lb)), list(Lb) + [1])
    if task and rank == 0:
        case["task_noises"] = nest(src.pos(numel(Lb) * t), list(Lb) + [t])
    elif task:
        case["factor"] = nest(src.nums(numel(Lb) * t * rank), list(Lb) + [t, rank])
    case["mean"] = nest(src.nums(numel(Db) * n * t), list(Db) + [n, t])
    case["cov"] = mk_cov(src, covkind, Db, n * t, (n, t))
    payload_common(src, case, Db, [n, t], [Lb])
    return case


MT_SWITCHES = [(True, True), (True, True), (True, False), (False, True)]


@st.composite
def multitask_cases(draw):
    src = HSrc(draw)
    B = src.choice(BATCHES)
    t = draw(st.integers(1, 3))
    n = draw(st.integers(1, 3))
    glob, task = src.choice(MT_SWITCHES)
    rank = draw(st.integers(0, t))
    Db = sub_shape(src, B)
    Lb = sub_shape(src, B)
    case = build_multitask(src, n, t, rank, glob, task, draw(st.booleans()), Lb, Db, src.choice(COVKINDS + ["kron"]))
    _mt_ops(case)
    return case


def _mt_ops(case):
    """closed forms need r_i > 0: with a low-rank task factor and no global noise diag(F F^T) may vanish (R is still well defined)"""
    if case["task"] and case["rank"] > 0 and not case["glob"]:
        F = np.array(case["factor"], dtype=float)
        if float((F ** 2).sum(-1).min()) < 1e-3:
            case["ops"] = ["marginal", "twice"]


@st.composite
def list_cases(draw):
    src = HSrc(draw)
    with_noise = draw(st.booleans())
    op = src.choice(["marginal", "marginal", "conditional", "forward"] + ([] if with_noise else ["elp"]))
    kinds = ["gaussian", "fixed", "fixed_learn"] + ([] if with_noise else ["multitask"])
    k = draw(st.integers(1, 3))
    mems = []
    for _ in range(k):
        kind = src.choice(kinds)
        n = draw(st.integers(1, 3))
        mem = {"kind": kind, "n": n, "noise": src.pos(1), "tuple": draw(st.booleans())}
        ev = [n]
        if kind == "multitask":
            t = draw(st.integers(1, 2))
            mem.update(t=t, task_noises=src.pos(t), interleaved=draw(st.booleans()))
            ev = [n, t]
            mem["cov"] = mk_cov(src, src.choice(["dense", "lazy", "kron"]), [], n * t, (n, t))
        else:
            mem["cov"] = mk_cov(src, src.choice(COVKINDS), [], n)
            if kind != "gaussian":
                mem["fixed"] = src.pos(n)
        if with_noise:
            mem["call"] = src.pos(n)
        mem["mean"] = nest(src.nums(numel(ev)), ev)
        mem["y"] = nest(src.nums(numel(ev)), ev)
        mem["f"] = nest(src.nums(numel(ev)), ev)
        mems.append(mem)
    return {"members": mems, "op": op, "with_noise": with_noise}


# ---- enumerated tiers (deterministic payload) -----------------------------------------------------------
ENUM_SHAPES = [[], [1], [2], [3, 2], [1, 2], [3, 1]]


def enumerate_multitask(tier):
    """every (t, rank 0..t, global/task switch, layout) x (likelihood batch, distribution batch) broadcastable pair x covariance class"""
    i = 0
    for t in (1, 2, 3):
        for rank in range(0, t + 1):
            for glob, task in [(True, True), (True, False), (False, True)]:
                for inter in (True, False):
                    for Lb, Db in itertools.product(ENUM_SHAPES, ENUM_SHAPES):
                        try:
                            bshape(Lb, Db)
                        except RuntimeError:
                            continue
                        i += 1
                        src = DSrc(i)
                        n = 1 + i % 3
                        covkind = ["dense", "kron", "diag", "lazy", "root"][i % 5]
                        case = build_multitask(src, n, t, rank, glob, task, inter, Lb, Db, covkind)
                        _mt_ops(case)
                        yield case


def enumerate_fixed(tier):
    """mode x learn_additional_noise x all broadcastable batch-shape tuples (fixed noise, learned noise, distribution, call-time noise)"""
    i = 0
    for mode in ("stored", "calltime", "calltime_other_n", "mismatch"):
        for learn in (False, True):
            calltime = mode.startswith("calltime")
            for Nb, Sb, Db, Cb in itertools.product(ENUM_SHAPES, ENUM_SHAPES if learn else [[]], ENUM_SHAPES, ENUM_SHAPES if calltime else [[]]):
                if mode != "stored" and Nb not in ([], [2]):
                    continue  # the stored noise is not used in these modes; two shapes are enough
                used = [Db] + ([Sb] if learn else []) + ([Cb] if calltime else []) + ([Nb] if mode == "stored" else [])
                try:
                    bshape(*used)
                except RuntimeError:
                    continue
                i += 1
                if tier == "quick" and calltime and learn and i % 3:
                    continue  # the 4-way product is the big block; a third of it in quick
                src = DSrc(i)
                case = build_fixed(src, mode, learn, 1 + i % 3, Nb, Sb, Db, Cb, COVKINDS[i % 4])
                yield case


RULE = ("cases = (likelihood recipe, function distribution N(m, C) with dense / operator-backed covariance, call kwargs, y, f); "
        "non-trivial = call-time noise (esp. with learned noise), a stored-size mismatch, a non-interleaved multitask input, task-noise "
        "rank >= 1, a likelihood-parameter / distribution / call-noise batch shape that is broadcast, NaN observations for the "
        "missing-obs class, or a LikelihoodList with >= 2 members or a noise list; distinct = distinct canonical case")

SPEC = PropertySpec(
    pid="C12",
    rule=RULE,
    assumptions=[
        "float64; noise values 1e-3..2 set through the public setters (noise, second_noise, task_noises, initialize(task_noise_covar_factor=...))",
        "diag(C) >= 0.05 so that MultivariateNormal.variance never clamps; covariance handed over as dense tensor or Dense/Diag/Root+Diag/"
        "Kronecker operator",
        "GaussianLikelihood(dist, noise=n): R = diag(n) as documented in _HomoskedasticNoiseBase.forward ('this noise is used directly')",
        "FixedNoiseGaussianLikelihood with stored size != n and no call-time noise: fixed part is a no-op (documented by its GPInputWarning)",
        "multitask rank > 0: the conditional p(y|f) is the library's forward (independent normals with variances diag(R)); "
        "expected_log_prob / log_marginal are judged elementwise with r = diag(R) and summed over tasks; closed forms are skipped when some "
        "diag(F F^T) entry is < 1e-3 without global noise (R itself is still asserted)",
        "DirichletClassificationLikelihood: 1-D integer targets, call-time targets span the same classes (num_classes = max label + 1)",
        "LikelihoodList: noise lists contain one tensor per member and only Gaussian / FixedNoise members (the multitask likelihood documents "
        "no noise kwarg)",
        "observation_nan_policy left at its default (C16 covers it)",
    ],
    subchecks=[
        Subcheck("gaussian.noise", run_gaussian, strategy=gaussian_cases, quick=1200, thorough=25000, min_shard=60),
        Subcheck("fixed.noise", run_fixed, strategy=fixed_cases, quick=1600, thorough=30000, min_shard=60),
        Subcheck("fixed.cells_exhaustive", run_fixed, enumerate=enumerate_fixed,
                 exhaustive_note="FixedNoiseGaussianLikelihood: mode {stored, call-time, call-time with other n, size mismatch} x learn_additional_noise x "
                                 "every broadcastable tuple of batch shapes from {(),(1),(2),(3,2),(1,2),(3,1)} for fixed / learned / call-time noise and "
                                 "distribution (thorough: all; quick: a third of the call-time+learned block)"),
        Subcheck("dirichlet.noise", run_dirichlet, strategy=dirichlet_cases, quick=500, thorough=8000, min_shard=60),
        Subcheck("multitask.noise", run_multitask, strategy=multitask_cases, quick=1600, thorough=30000, min_shard=60),
        Subcheck("multitask.cells_exhaustive", run_multitask, enumerate=enumerate_multitask,
                 exhaustive_note="MultitaskGaussianLikelihood: t in 1..3 x rank 0..t x (global, task) switches x interleaved in {T,F} x every broadcastable "
                                 "(likelihood batch, distribution batch) pair from {(),(1),(2),(3,2),(1,2),(3,1)}"),
        Subcheck("list.routing", run_list, strategy=list_cases, quick=1000, thorough=15000, min_shard=60),
    ],
)

"""C06 - diag / transpose / lazy evaluation / indexing of a kernel all agree; active_dims restricts a kernel to exactly
those input columns (also for batched kernels, kernel[i] and expand_batch).

Every oracle here is metamorphic / differential: the library against itself through another route (independent
formulas are C05's job).  The reference route is always the *dense* matrix `kernel(x1, x2).to_dense()` manipulated with
plain torch (indexing, transposition, repeat, cat, kron), the judged route is the lazy / structured one.

Kernel recipes: those of pbt/kern.py (basic kernels and +, x, ScaleKernel trees, built through the public setters) plus
  {"k": "Multitask", "batch": tb, "data": R, "tasks": t, "rank": q, "p": {"covar_factor", "var"}}
  {"k": "LCM", "bases": [R..], "tasks": t, "ranks": [..], "p": [{"covar_factor", "var"}, ..]}
  {"k": "RBFGrad" | "Matern52Grad" | "RBFGradGrad", "batch", "ad", "d", "ard", "p": {"lengthscale"}}
  {"k": "PolyGrad", "power", "batch", "ad", "d", "p": {"offset"}}
  {"k": "Inducing", "base": R, "Z": [[..]]}                       (active_dims sub-check only)
and Scale / Add / Prod nodes around any of them."""
from __future__ import annotations

import itertools

import torch
from hypothesis import strategies as st

import gpytorch
from gpytorch import kernels as K
from gpytorch import settings as S
from gpytorch.lazy import LazyEvaluatedKernelTensor

from pbt import kern
from pbt.core import Ctx, Discard, PropertySpec, Subcheck
from pbt.kern import REAL, arr, pos

T = torch.tensor
GRAD = ("RBFGrad", "Matern52Grad", "PolyGrad", "RBFGradGrad")
GRAD_CLS = {"RBFGrad": "RBFKernelGrad", "Matern52Grad": "Matern52KernelGrad", "RBFGradGrad": "RBFKernelGradGrad"}


# ====================================================================================================
# recipes: build / describe / structural predicates
# ====================================================================================================
def _set_task(index_kernel, p):
    index_kernel.initialize(covar_factor=T(p["covar_factor"]))  # covar_factor is a plain parameter (no constraint)
    index_kernel.var = T(p["var"])


def build(r):
    k = r["k"]
    bs = torch.Size(r.get("batch", []))
    if k == "Scale":
        m = K.ScaleKernel(build(r["base"]), batch_shape=bs)
        m.outputscale = T(r["p"]["outputscale"])
        return m
    if k == "Add":
        return K.AdditiveKernel(*[build(p) for p in r["parts"]])
    if k == "Prod":
        return K.ProductKernel(*[build(p) for p in r["parts"]])
    if k == "Multitask":
        m = K.MultitaskKernel(build(r["data"]), num_tasks=r["tasks"], rank=r["rank"], batch_shape=bs)
        _set_task(m.task_covar_module, r["p"])
        return m
    if k == "LCM":
        m = K.LCMKernel([build(b) for b in r["bases"]], num_tasks=r["tasks"], rank=list(r["ranks"]))
        for sub, p in zip(m.covar_module_list, r["p"]):
            _set_task(sub.task_covar_module, p)
        return m
    if k in GRAD:
        kw = dict(batch_shape=bs)
        if r.get("ad") is not None:
            kw["active_dims"] = tuple(r["ad"])
        if k == "PolyGrad":
            m = K.PolynomialKernelGrad(power=r["power"], **kw)
            m.offset = T(r["p"]["offset"])
            return m
        if r.get("ard"):
            kw["ard_num_dims"] = r["d"]
        m = getattr(K, GRAD_CLS[k])(**kw)
        m.lengthscale = T(r["p"]["lengthscale"])
        return m
    if k == "Inducing":
        m = K.InducingPointKernel(build(r["base"]), inducing_points=T(r["Z"]), likelihood=gpytorch.likelihoods.GaussianLikelihood())
        m.eval()
        return m
    return kern.build_kernel(r)


def children(r):
    k = r["k"]
    if k == "Scale" or k == "Inducing":
        return [r["base"]]
    if k in ("Add", "Prod"):
        return list(r["parts"])
    if k == "Multitask":
        return [r["data"]]
    if k == "LCM":
        return list(r["bases"])
    return []


def nodes(r):
    yield r
    for c in children(r):
        yield from nodes(c)


def leaves(r):
    return [n for n in nodes(r) if not children(n)]


def leaf_name(l):
    return l["k"] + ("/ard" if l.get("ard") else "") + ("/ad" if l.get("ad") is not None else "")


def describe(r):
    cs = children(r)
    if not cs:
        return leaf_name(r)
    return f"{r['k']}({','.join(describe(c) for c in cs)})"


def sig(r):
    """coarse class of a recipe: outermost node + the set of leaf classes (with /ad marks)"""
    ls = sorted({l["k"] + ("/ad" if l.get("ad") is not None else "") for l in leaves(r)})
    return f"{r['k']}[{'+'.join(ls)}]" if children(r) else ls[0]


def has_ad(r):
    return any(l.get("ad") is not None for l in leaves(r))


def smooth(r):
    """False if a leaf has a kink at r = 0 (the library's quadratic-expansion distance loses sqrt(eps) there, and the
    rounding depends on which rows are passed together) - DESIGN 1.4"""
    return all(kern.smooth_at_zero(l) and l["k"] != "Matern52Grad" for l in leaves(r))


def outs(r):
    """outputs per input point"""
    k = r["k"]
    if k in ("Scale", "Inducing"):
        return outs(r["base"])
    if k in ("Add", "Prod"):
        return outs(r["parts"][0])
    if k in ("Multitask", "LCM"):
        return r["tasks"]
    if k in ("RBFGrad", "Matern52Grad", "PolyGrad"):
        return r["d"] + 1
    if k == "RBFGradGrad":
        return 2 * r["d"] + 1
    return 1


def batch_of(r):
    return list(torch.broadcast_shapes(*[tuple(n.get("batch", [])) for n in nodes(r)]))


def per_batch(r):
    """the kernel owns per-batch parameters"""
    return any(e > 1 for n in nodes(r) for e in n.get("batch", []))


def contains(r, name):
    return any(n["k"] == name for n in nodes(r))


def dense(o):
    return o.to_dense() if hasattr(o, "to_dense") else o


def tol(r):
    # closed-form elementwise path (DESIGN 1.4): rtol 1e-9, atol 1e-11; kernels with a kink at r=0 get atol 1e-6 because two
    # routes pass different row sets to the quadratic-expansion distance (different centring -> sqrt(eps) at coincident rows)
    return dict(rtol=1e-9, atol=1e-11 if smooth(r) else 1e-6)


# ====================================================================================================
# strategies
# ====================================================================================================
FULL_SHAPES = [[], [], [], [2], [2], [3], [1], [3, 2], [2, 1], [2, 2], [1, 2]]
KINDS = ["tree", "tree", "tree", "mixed", "Multitask", "LCM", "RBFGrad", "Matern52Grad", "PolyGrad", "RBFGradGrad"]
# LinearKernel inside a Kronecker / sum structure goes through the dependency's low-rank root algebra (SVD based, fails on
# rank-deficient data; see pbt/kern.py) - the data kernels of multitask kernels therefore use dense-valued classes
DATA_NAMES = [n for n in kern.BASIC if n != "Linear"]


@st.composite
def sub_shape(draw, F):
    """a batch shape that broadcasts into F: leading dims dropped, extents replaced by 1"""
    k = draw(st.integers(0, len(F)))
    return [1 if (e != 1 and draw(st.integers(0, 3)) == 0) else e for e in F[k:]]


def _reduce_params(p, old, new):
    """slice parameter arrays of batch shape `old` down to the sub-shape `new` (element 0 along dropped / 1-extents)"""
    out = {}
    drop = len(old) - len(new)
    for name, v in p.items():
        t = T(v)
        t = t[(0,) * drop] if drop else t
        for i, (o, n) in enumerate(zip(old[drop:], new)):
            if n != o:
                t = t.narrow(i, 0, 1)
        out[name] = t.tolist()
    return out


@st.composite
def mix_batches(draw, r, kb):
    """give some nodes of a kern.py tree (all of batch shape kb) a sub-shape of kb: Kernel.batch_shape is documented as
    the broadcast of the sub-kernels' batch shapes"""
    r = dict(r)
    if r["k"] in ("Add", "Prod"):
        r["parts"] = [draw(mix_batches(p, kb)) for p in r["parts"]]
        return r
    if r["k"] == "Scale":
        r["base"] = draw(mix_batches(r["base"], kb))
    if kb and draw(st.integers(0, 2)) == 0:
        # un-batched sub-kernels only: Kernel.__getitem__ hands the same index tuple to every node, so a sub-kernel whose batch
        # shape merely broadcasts to its parent's (1-extents, lower rank) cannot be indexed alongside it - see the assumptions
        nb = []
        r["p"] = _reduce_params(r["p"], kb, nb)
        r["batch"] = nb
    return r


@st.composite
def grad_leaf(draw, kind, D, kb, allow_ad=True, force_ad=False):
    ad, d = None, D
    if D >= 2 and (force_ad or (allow_ad and draw(st.integers(0, 2)) == 0)):
        d = draw(st.integers(1, D - 1))
        ad = draw(st.permutations(list(range(D))).map(lambda p: sorted(p[:d])))
    r = {"k": kind, "batch": list(kb), "ad": ad, "d": d, "p": {}}
    if kind == "PolyGrad":
        r["power"] = draw(st.sampled_from([1, 2, 3]))
        r["p"]["offset"] = draw(arr(list(kb) + [1], pos(0.1, 3.0)))
    else:
        r["ard"] = draw(st.booleans()) if d >= 2 else False
        r["p"]["lengthscale"] = draw(arr(list(kb) + [1, d if r["ard"] else 1], pos(0.3, 5.0)))
    return r


@st.composite
def task_params(draw, tb, t, rank):
    return {"covar_factor": draw(arr(list(tb) + [t, rank], REAL)), "var": draw(arr(list(tb) + [t], pos(0.1, 2.0)))}


def sanitize(r, state=None):
    """Construct around two dependency quirks (the classes are simply not generated):
    (a) ScaleKernel multiplies the base covariance by outputscale.view(*batch, 1, 1); when that has a single element (batch
        shape (1,), (1,1)) and the base covariance is a LinearOperator (LinearKernel, MultitaskKernel, LCMKernel),
        linear_operator's `mul` treats it as a python scalar and the leading 1-dimensions of the batch shape are lost.  Such a
        ScaleKernel is made un-batched here.
    (b) a ScaleKernel with more than one outputscale over a product of two LinearKernels evaluated at x1 == x2:
        MulLinearOperator._mul_constant does `if other > 0` on the batch of constants and raises.  Below a batched ScaleKernel
        only the first bare LinearKernel is kept, further ones become PolynomialKernel(power=1)."""
    r = dict(r)
    if r["k"] == "Scale":
        b = r.get("batch", [])
        inner = state
        if any(e > 1 for e in b) and state is None:
            inner = {"linear_seen": False}
        r["base"] = sanitize(r["base"], inner)
        if b and all(e == 1 for e in b) and any(n["k"] in ("Linear", "Multitask", "LCM") for n in nodes(r["base"])):
            r["p"] = _reduce_params(r["p"], b, [])
            r["batch"] = []
    elif r["k"] in ("Add", "Prod"):
        r["parts"] = [sanitize(p, state) for p in r["parts"]]
    elif r["k"] == "Linear" and state is not None:
        if state["linear_seen"]:
            b = r.get("batch", [])
            off = T(r["p"]["variance"])[..., 0]  # (*batch, 1): reuse the drawn positive numbers as the offset
            r = {"k": "Poly1", "batch": b, "ad": r.get("ad"), "d": r["d"], "ard": False, "p": {"offset": off.tolist()}}
        state["linear_seen"] = True
    return r


@st.composite
def kernel_of(draw, kind, D, kb, allow_ad=True, force_ad=False, depth=2):
    return sanitize(draw(_kernel_of(kind, D, kb, allow_ad, force_ad, depth)))


@st.composite
def _kernel_of(draw, kind, D, kb, allow_ad=True, force_ad=False, depth=2):
    kb = list(kb)
    if kind in ("tree", "mixed"):
        r = draw(kern.kernel_tree(D, kb, depth=depth, allow_ad=allow_ad))
        if kind == "mixed" and kb:
            r = draw(mix_batches(r, kb))
        return r
    if kind == "Multitask":
        data = draw(kern.kernel_tree(D, kb, depth=1, names=DATA_NAMES, allow_ad=allow_ad))
        t = draw(st.integers(2, 3))
        rank = draw(st.integers(1, t))
        tb = draw(st.sampled_from([[], kb]))
        r = {"k": "Multitask", "batch": tb, "data": data, "tasks": t, "rank": rank, "p": draw(task_params(tb, t, rank))}
    elif kind == "LCM":
        t = draw(st.integers(2, 3))
        nb = draw(st.integers(1, 3))
        bases = [draw(kern.base_kernel(D, kb if i == 0 else draw(st.sampled_from([kb, kb, []])), DATA_NAMES, allow_ad)) for i in range(nb)]
        ranks = [draw(st.integers(1, t)) for _ in range(nb)]
        r = {"k": "LCM", "batch": [], "bases": bases, "tasks": t, "ranks": ranks, "p": [draw(task_params([], t, q)) for q in ranks]}
    else:
        r = draw(grad_leaf(kind, D, kb, allow_ad, force_ad))
        if draw(st.integers(0, 4)) == 0:
            # a sum of two derivative kernels of the same class on the same columns
            r2 = dict(draw(grad_leaf(kind, D, kb, allow_ad=False)))
            if r["ad"] is not None:
                r2 = dict(draw(grad_leaf(kind, r["d"], kb, allow_ad=False)), ad=r["ad"])
            if kind == "PolyGrad":
                r2["power"] = r["power"]
            r = {"k": "Add", "batch": kb, "parts": [r, r2]}
    if draw(st.integers(0, 3)) == 0:
        r = {"k": "Scale", "batch": kb, "base": r, "p": {"outputscale": draw(arr(kb, pos(0.1, 5.0)))}}
    return r


@st.composite
def setup(draw, kinds=None, max_n=4, square=False, full_shapes=None, allow_ad=True, force_batch=False):
    """kernel + two input sets, every broadcast pattern between the batch shapes of x1, x2 and the kernel"""
    D = draw(st.integers(1, 3))
    F = draw(st.sampled_from(full_shapes or FULL_SHAPES))
    kind = draw(st.sampled_from(kinds or KINDS))
    kb = F if force_batch else draw(sub_shape(F))
    b1 = draw(sub_shape(F))
    b2 = b1 if draw(st.booleans()) else draw(sub_shape(F))
    r = draw(kernel_of(kind, D, kb, allow_ad=allow_ad))
    n1 = draw(st.integers(1, max_n))
    n2 = n1 if square else draw(st.integers(1, max_n))
    x1 = draw(kern.points(n1, D, b1))
    x2 = draw(kern.points(n2, D, b2))
    if draw(st.integers(0, 3)) == 0:  # a coincident row between x1 and x2
        t1, t2 = T(x1), T(x2)
        src = t1[(0,) * (t1.dim() - 2)][0]
        t2[..., 0, :] = src
        x2 = t2.tolist()
    return {"kernel": r, "D": D, "x1": x1, "x2": x2}


def prepare(case, ctx: Ctx):
    r = case["kernel"]
    x1 = T(case["x1"])
    x2 = T(case["x2"]) if case.get("x2") is not None else None
    b2 = list(x2.shape[:-2]) if x2 is not None else "-"
    ctx.cls = f"{sig(r)}|kb{batch_of(r)}|x{list(x1.shape[:-2])}x{b2}"
    with ctx.observing("build"):
        k = build(r)
    return r, k, x1, x2


def common_labels(ctx, r, x1, x2):
    ctx.label(*{f"leaf={l['k']}" for l in leaves(r)}, f"top={r['k']}", f"kb={batch_of(r)}",
              f"xb={list(x1.shape[:-2])}/{list(x2.shape[:-2]) if x2 is not None else '-'}", f"outs={min(outs(r), 4)}",
              f"ad={has_ad(r)}")


# ====================================================================================================
# (1) diag=True = diagonal of the full matrix = lazy .diagonal()
# ====================================================================================================
@st.composite
def diag_case(draw):
    c = draw(setup(square=True))
    c["cross"] = draw(st.integers(0, 2)) == 0 and not any(contains(c["kernel"], g) for g in GRAD)
    return c


def run_diag(case, ctx: Ctx):
    r, k, x1, x2 = prepare(case, ctx)
    common_labels(ctx, r, x1, x1)
    ctx.set_nontrivial(outs(r) > 1 or per_batch(r) or has_ad(r) or x1.dim() > 2 or case["cross"])
    tl = tol(r)
    with ctx.observing("full"):
        full = dense(k(x1, x1))
    want = full.diagonal(dim1=-2, dim2=-1)
    with ctx.observing("diag=True"):
        d_none = dense(k(x1, diag=True))
        d_same = dense(k(x1, x1, diag=True))
        d_copy = dense(k(x1, x1.clone(), diag=True))
    ctx.close("diag=True(x)", d_none, want, **tl)
    ctx.close("diag=True(x,x)", d_same, want, **tl)
    ctx.close("diag=True(x,copy)", d_copy, want, **tl)
    with ctx.observing("lazy.diagonal"):
        lz = k(x1)
        is_lazy = isinstance(lz, LazyEvaluatedKernelTensor)
        d_lazy = lz.diagonal(dim1=-1, dim2=-2)
        d_lazy2 = k(x1, x1.clone()).diagonal(dim1=-2, dim2=-1)
    ctx.check("lazy.type", is_lazy, "kernel(x) is not a LazyEvaluatedKernelTensor under lazily_evaluate_kernels(True)")
    ctx.close("lazy.diagonal(x)", d_lazy, want, **tl)
    ctx.close("lazy.diagonal(x,copy)", d_lazy2, want, **tl)
    with ctx.observing("eager.diagonal"):
        with S.lazily_evaluate_kernels(False):
            d_eager = dense(k(x1).diagonal(dim1=-1, dim2=-2))
    ctx.close("eager.diagonal", d_eager, want, **tl)
    if case["cross"]:
        # the diagonal of a square cross-covariance block, asked of the lazy tensor
        with ctx.observing("cross.full"):
            cfull = dense(k(x1, x2))
        with ctx.observing("cross.lazy.diagonal"):
            cd = k(x1, x2).diagonal(dim1=-1, dim2=-2)
        ctx.close("cross.lazy.diagonal", cd, cfull.diagonal(dim1=-2, dim2=-1), **tl)
        ctx.label("diag.cross")


# ====================================================================================================
# (2) K(x1,x2) = K(x2,x1)^T, lazy transpose          (3) lazy = eager
# ====================================================================================================
def run_transpose(case, ctx: Ctx):
    r, k, x1, x2 = prepare(case, ctx)
    common_labels(ctx, r, x1, x2)
    ctx.set_nontrivial(x1.shape[-2] != x2.shape[-2] or outs(r) > 1 or x1.shape[:-2] != x2.shape[:-2])
    tl = tol(r)
    with ctx.observing("evaluate"):
        A = dense(k(x1, x2))
        B = dense(k(x2, x1))
    ctx.close("K(x2,x1)=K(x1,x2)^T", B, A.transpose(-1, -2), **tl)
    with ctx.observing("lazy.transpose"):
        Lt = k(x1, x2).transpose(-1, -2)
        lt_shape = tuple(Lt.shape)
        Ltd = dense(Lt)
        Lt2 = dense(k(x1, x2).transpose(-2, -1).transpose(-1, -2))
        mT = dense(k(x1, x2).mT)
    ctx.equal("lazy.transpose.shape", lt_shape, tuple(A.transpose(-1, -2).shape))
    ctx.close("lazy.transpose", Ltd, A.transpose(-1, -2), **tl)
    ctx.close("lazy.transpose.twice", Lt2, A, **tl)
    ctx.close("lazy.mT", mT, A.transpose(-1, -2), **tl)
    with ctx.observing("eager.transpose"):
        with S.lazily_evaluate_kernels(False):
            Et = dense(k(x1, x2).transpose(-1, -2))
    ctx.close("eager.transpose", Et, A.transpose(-1, -2), **tl)


@st.composite
def lazy_case(draw):
    c = draw(setup())
    c["self"] = draw(st.integers(0, 2)) == 0
    return c


def run_lazy_eager(case, ctx: Ctx):
    r, k, x1, x2 = prepare(case, ctx)
    if case.get("self"):
        x2 = None
    common_labels(ctx, r, x1, x2)
    ctx.label(f"lazy.x2={'none' if x2 is None else 'given'}")
    ctx.set_nontrivial(True)
    tl = tol(r)
    with ctx.observing("eager"):
        with S.lazily_evaluate_kernels(False):
            e = k(x1) if x2 is None else k(x1, x2)
            e_is_lazy = isinstance(e, LazyEvaluatedKernelTensor)
            E = dense(e)
    with ctx.observing("lazy"):
        with S.lazily_evaluate_kernels(True):
            lz = k(x1) if x2 is None else k(x1, x2)
            l_is_lazy = isinstance(lz, LazyEvaluatedKernelTensor)
            shape_before = tuple(lz.shape)
            nd, nrow, ncol, bshape = lz.dim(), lz.size(-2), lz.size(-1), tuple(lz.batch_shape)
            L = lz.to_dense()
            Lk = lz.evaluate_kernel().to_dense()
            shape_after = tuple(lz.shape)
    ctx.check("eager.type", not e_is_lazy, "lazily_evaluate_kernels(False) still returned a LazyEvaluatedKernelTensor")
    ctx.check("lazy.type", l_is_lazy, "lazily_evaluate_kernels(True) did not return a LazyEvaluatedKernelTensor")
    ctx.close("lazy=eager", L, E, **tl)
    ctx.close("evaluate_kernel=eager", Lk, E, **tl)
    ctx.equal("lazy.shape", shape_before, tuple(E.shape))
    ctx.equal("lazy.shape.after", shape_after, tuple(E.shape))
    ctx.equal("lazy.dim/size", (nd, nrow, ncol, bshape), (E.dim(), E.shape[-2], E.shape[-1], tuple(E.shape[:-2])))
    if x2 is None:
        with ctx.observing("lazy.explicit"):
            L2 = dense(k(x1, x1))
            L3 = dense(k(x1, x1.clone()))
        ctx.close("k(x)=k(x,x)", L2, E, **tl)
        ctx.close("k(x)=k(x,copy)", L3, E, **tl)


# ====================================================================================================
# (4) indexing commutes with evaluation
# ====================================================================================================
def decode_idx(ix):
    out = []
    for i in ix:
        if i == "...":
            out.append(Ellipsis)
        elif "int" in i:
            out.append(int(i["int"]))
        elif "slice" in i:
            out.append(slice(*i["slice"]))
        else:
            out.append(torch.tensor(i["tensor"], dtype=torch.long))
    return tuple(out)


def expand_idx(ix, nd):
    """one entry per dimension (None where the expression does not address the dimension)"""
    if "..." in ix:
        p = ix.index("...")
        return list(ix[:p]) + [None] * (nd - (len(ix) - 1)) + list(ix[p + 1:])
    return list(ix) + [None] * (nd - len(ix))


def index_flags(r, ix, shape):
    nd = len(shape)
    full = expand_idx(ix, nd)
    batch, rows, cols = full[:-2], full[-2], full[-1]
    neg_matrix_int = any(e is not None and e != "..." and "int" in e and e["int"] < 0 for e in (rows, cols))
    touches_batch = any(e is not None and e != {"slice": [None, None, None]} for e in batch)
    t = outs(r)

    def unaligned(e, size):
        if e is None or "slice" not in e:
            return False
        s = slice(*e["slice"]).indices(size)
        return s[2] != 1 or s[0] % t != 0 or s[1] % t != 0

    is_t = lambda e: e is not None and "tensor" in e  # noqa: E731
    is_i = lambda e: e is not None and "int" in e  # noqa: E731
    bt = any(is_t(e) for e in batch)
    absorbed = (bt and (is_t(rows) or is_t(cols))) or (not bt and is_t(rows) and is_t(cols))
    return dict(
        absorbed_int=absorbed and (is_i(rows) or is_i(cols)),
        neg_matrix_int=neg_matrix_int,
        touches_batch=touches_batch,
        tensor=any(e is not None and "tensor" in e for e in full),
        batch_tensor=any(e is not None and "tensor" in e for e in batch),
        unaligned=t > 1 and (unaligned(rows, shape[-2]) or unaligned(cols, shape[-1])),
        aligned_slice=t > 1 and all(e is not None and "slice" in e for e in (rows, cols)) and not (
            unaligned(rows, shape[-2]) or unaligned(cols, shape[-1])),
        ellipsis="..." in ix,
        short=len([e for e in ix if e != "..."]) < nd,
    )


def index_core(r, k, x1, x2, ix, D, ctx: Ctx):
    """compare kernel(x1,x2)[idx] with D[idx]; D is the dense value of kernel(x1, x2); k may be a zero-argument callable
    that builds the kernel (only called when the expression is in the domain)"""
    fl = index_flags(r, ix, list(D.shape))
    if fl["neg_matrix_int"]:
        # excluded from the domain (DESIGN C06): linear_operator's LinearOperator.__getitem__ turns a negative integer on a
        # matrix dimension into slice(-1, 0) for every operator class - dependency code outside /repo
        ctx.label("idx.excluded=negative-int-on-matrix-dim(linear_operator)")
        ctx.set_nontrivial(False)
        return
    if fl["absorbed_int"]:
        # excluded from the domain: an integer on one matrix dimension together with index tensors that absorb the matrix
        # dimensions (tensor on a batch dim and on the other matrix dim).  LinearOperator.__getitem__ itself squeezes the wrong
        # dimension afterwards - DenseLinearOperator(D)[T([0]), 0, T([0, -1, 0, -1])] raises its own "this is a bug" error
        ctx.label("idx.excluded=int-on-matrix-dim-with-absorbing-index-tensors(linear_operator)")
        ctx.set_nontrivial(False)
        return
    idx = decode_idx(ix)
    try:
        want = D[idx]
    except (IndexError, RuntimeError, ValueError, TypeError):
        ctx.label("idx.skip=torch-rejects")
        ctx.set_nontrivial(False)
        return
    if want.numel() == 0:
        ctx.label("idx.skip=empty-selection")
        ctx.set_nontrivial(False)
        return
    ctx.label(f"idx.batch={fl['touches_batch']}", f"idx.tensor={fl['tensor']}", f"idx.ellipsis={fl['ellipsis']}", f"idx.short={fl['short']}")
    if outs(r) > 1:
        ctx.label("idx.multi=" + ("aligned-slices" if fl["aligned_slice"] else "unaligned-slice" if fl["unaligned"] else "other"))
    ctx.set_nontrivial((fl["touches_batch"] and (per_batch(r) or has_ad(r))) or fl["unaligned"] or fl["tensor"])
    if not isinstance(k, torch.nn.Module):
        with ctx.observing("build"):
            k = k()
    with ctx.observing("getitem"):
        lz = k(x1, x2)
        got = lz[idx[0]] if len(idx) == 1 else lz[idx]
        res_shape = tuple(got.shape)
        got = dense(got)
    ctx.equal("getitem.shape", res_shape, tuple(want.shape))
    ctx.close("getitem", got, want, **tol(r))


# ---- sampled ----------------------------------------------------------------------------------------
@st.composite
def idx_dim(draw, size, matrix):
    kind = draw(st.sampled_from(["int", "slice", "slice", "slice", "tensor", "full"]))
    if kind == "int":
        return {"int": draw(st.integers(0 if matrix else -size, size - 1))}
    if kind == "full":
        return {"slice": [None, None, None]}
    if kind == "slice":
        vals = st.sampled_from([None, 0, 1, 2, 3, -1, -2, size, size + 3, -size - 3])
        return {"slice": [draw(vals), draw(vals), draw(st.sampled_from([None, None, 1, 2, 3]))]}
    return {"tensor": draw(st.lists(st.integers(-size, size - 1), min_size=1, max_size=4))}


@st.composite
def index_case(draw):
    c = draw(setup())
    r = c["kernel"]
    t = outs(r)
    bshape = list(torch.broadcast_shapes(tuple(batch_of(r)), T(c["x1"]).shape[:-2], T(c["x2"]).shape[:-2]))
    shape = bshape + [T(c["x1"]).shape[-2] * t, T(c["x2"]).shape[-2] * t]
    nd = len(shape)
    form = draw(st.sampled_from(["full", "full", "full", "prefix", "ellipsis", "ellipsis"]))
    if form == "full":
        ix = [draw(idx_dim(shape[i], i >= nd - 2)) for i in range(nd)]
    elif form == "prefix":
        k = draw(st.integers(1, nd))
        ix = [draw(idx_dim(shape[i], i >= nd - 2)) for i in range(k)]
    else:
        p = draw(st.integers(0, nd))
        q = draw(st.integers(0, nd - p))
        ix = ([draw(idx_dim(shape[i], i >= nd - 2)) for i in range(p)] + ["..."]
              + [draw(idx_dim(shape[nd - q + j], nd - q + j >= nd - 2)) for j in range(q)])
    if t > 1 and form == "full" and draw(st.integers(0, 2)) == 0:
        # slices aligned with the outputs-per-input (the branch of _getitem that stays lazy)
        def al(size):
            n = size // t
            a = draw(st.integers(0, n - 1))
            b = draw(st.integers(a + 1, n))
            a_, b_ = a * t, b * t
            return {"slice": [draw(st.sampled_from([a_, a_ - size] if a_ else [0, None])),
                              draw(st.sampled_from([b_, b_ - size] if b_ < size else [b_, None, size + t])), None]}
        ix[-2], ix[-1] = al(shape[-2]), al(shape[-1])
    c["idx"] = ix
    return c


def run_index(case, ctx: Ctx):
    r, k, x1, x2 = prepare(case, ctx)
    common_labels(ctx, r, x1, x2)
    with ctx.observing("evaluate"):
        D = dense(k(x1, x2))
    index_core(r, k, x1, x2, case["idx"], D, ctx)


# ---- exhaustive -------------------------------------------------------------------------------------
def _seq(n, a, m, off=0.0):
    return [(((i * a + 3) % m) - m / 2) / 4.0 + off for i in range(n)]


def _pts(batch, n, d, a):
    """deterministic, pairwise distinct input rows on a quarter lattice"""
    tot = 1
    for b in batch:
        tot *= b
    vals = _seq(tot * n * d, a, 23)
    return T(vals).reshape(*batch, n, d).tolist()


def _ls(batch, ld, a):
    tot = 1
    for b in batch:
        tot *= b
    return T([0.5 + ((i * a) % 7) / 4.0 for i in range(tot * ld)]).reshape(*batch, 1, ld).tolist()


def _task(tb, t, rank, a):
    tot = 1
    for b in tb:
        tot *= b
    return {"covar_factor": T(_seq(tot * t * rank, a, 11)).reshape(*tb, t, rank).tolist(),
            "var": T([0.25 + ((i * a) % 5) / 4.0 for i in range(tot * t)]).reshape(*tb, t).tolist()}


def _rbf(batch=(), ad=None, d=1, ard=False, a=3, name="RBF"):
    batch = list(batch)
    return {"k": name, "batch": batch, "ad": ad, "d": d, "ard": ard, "p": {"lengthscale": _ls(batch, d if ard else 1, a)}}


def _os(batch, a):
    tot = 1
    for b in batch:
        tot *= b
    t = T([0.5 + ((i * a) % 5) / 2.0 for i in range(max(tot, 1))])
    return t.reshape(*batch).tolist() if batch else float(t[0])


def _lin(batch=(), ad=None, d=1):
    batch = list(batch)
    return {"k": "Linear", "batch": batch, "ad": ad, "d": d, "ard": False, "p": {"variance": _ls(batch, 1, 2)}}


def fixed_setups():
    """name -> (recipe, D, x1 batch, n1, x2 batch, n2); deterministic"""
    S_ = {}
    # --- 2-d results
    S_["RBF/ad"] = (_rbf(ad=[0, 2], d=2, ard=True), 3, [], 3, [], 4)
    S_["Scale(RBF/ad+Linear)"] = ({"k": "Scale", "batch": [], "p": {"outputscale": 1.5},
                                   "base": {"k": "Add", "batch": [], "parts": [_rbf(ad=[1], d=1), _lin(d=2)]}}, 2, [], 4, [], 3)
    S_["Prod(Matern1.5,Periodic)"] = ({"k": "Prod", "batch": [], "parts": [
        _rbf(name="Matern1.5", d=2), {"k": "Periodic", "batch": [], "ad": None, "d": 2, "ard": False,
                                      "p": {"lengthscale": _ls([], 1, 3), "period_length": _ls([], 1, 5)}}]}, 2, [], 3, [], 3)
    S_["Multitask(RBF)t2"] = ({"k": "Multitask", "batch": [], "data": _rbf(d=2), "tasks": 2, "rank": 1, "p": _task([], 2, 1, 3)}, 2, [], 3, [], 2)
    S_["Multitask(Matern/ad)t3"] = ({"k": "Multitask", "batch": [], "data": _rbf(name="Matern2.5", ad=[1], d=1), "tasks": 3, "rank": 2,
                                     "p": _task([], 3, 2, 5)}, 2, [], 2, [], 2)
    S_["LCM(RBF,Matern/ad)t2"] = ({"k": "LCM", "batch": [], "bases": [_rbf(d=2), _rbf(name="Matern1.5", ad=[0], d=1, a=5)], "tasks": 2,
                                   "ranks": [1, 2], "p": [_task([], 2, 1, 3), _task([], 2, 2, 7)]}, 2, [], 2, [], 3)
    S_["RBFGrad d1"] = (_rbf(name="RBFGrad"), 1, [], 3, [], 2)
    S_["RBFGrad d2"] = (_rbf(name="RBFGrad", d=2, ard=True), 2, [], 2, [], 2)
    S_["Matern52Grad d1"] = (_rbf(name="Matern52Grad"), 1, [], 2, [], 3)
    S_["PolyGrad d2"] = ({"k": "PolyGrad", "power": 2, "batch": [], "ad": None, "d": 2, "p": {"offset": [0.5]}}, 2, [], 2, [], 2)
    S_["RBFGradGrad d1"] = (_rbf(name="RBFGradGrad"), 1, [], 2, [], 1)
    S_["Scale(RBFGrad/ad)"] = ({"k": "Scale", "batch": [], "p": {"outputscale": 2.0}, "base": _rbf(name="RBFGrad", ad=[1], d=1)}, 2, [], 2, [], 3)
    # --- batched results
    S_["RBF[2]/ad x[2]"] = (_rbf([2], ad=[0, 2], d=2), 3, [2], 3, [2], 2)
    S_["RBF[2]/ad x[]"] = (_rbf([2], ad=[0, 2], d=2), 3, [], 3, [], 2)
    S_["RBF[2] x[2]x[]"] = (_rbf([2], d=2, ard=True), 2, [2], 2, [], 3)
    S_["RBF[] x[]x[2]"] = (_rbf([], d=1), 1, [], 3, [2], 2)
    S_["Scale[2](RBF[]+Linear[2])"] = ({"k": "Scale", "batch": [2], "p": {"outputscale": _os([2], 3)},
                                        "base": {"k": "Add", "batch": [2], "parts": [_rbf([], d=2), _lin([2], d=2)]}}, 2, [2], 2, [2], 3)
    S_["Multitask[2](RBF[2])t2 x[2]"] = ({"k": "Multitask", "batch": [2], "data": _rbf([2], d=1), "tasks": 2, "rank": 1,
                                          "p": _task([2], 2, 1, 3)}, 1, [2], 2, [2], 2)
    S_["LCM(RBF[2],Matern[])t2 x[]"] = ({"k": "LCM", "batch": [], "bases": [_rbf([2], d=1), _rbf(name="Matern0.5", d=1, a=5)], "tasks": 2,
                                         "ranks": [1, 1], "p": [_task([], 2, 1, 3), _task([], 2, 1, 7)]}, 1, [], 2, [], 2)
    S_["RBFGrad[2] x[2]"] = (_rbf([2], name="RBFGrad"), 1, [2], 2, [2], 2)
    S_["Matern52Grad[] x[2]"] = (_rbf(name="Matern52Grad"), 1, [2], 2, [2], 2)
    S_["PolyGrad[2] x[]x[2]"] = ({"k": "PolyGrad", "power": 2, "batch": [2], "ad": None, "d": 1, "p": {"offset": [[0.5], [1.25]]}}, 1, [], 2, [2], 2)
    S_["RBF[2,1] x[2,2]"] = (_rbf([2, 1], d=1), 1, [2, 2], 2, [2, 2], 2)
    # --- batch rank 2 (kernel[idx] enumeration)
    S_["RBF[3,2]/ad x[3,2]"] = (_rbf([3, 2], ad=[1], d=1), 2, [3, 2], 2, [3, 2], 2)
    rq = _rbf([3, 2], name="RQ", d=2, a=5)
    rq["p"]["alpha"] = T(_os([3, 2], 2)).unsqueeze(-1).tolist()
    S_["Scale[3,2](Matern[3,2]/ad*RQ[3,2]) x[]"] = ({"k": "Scale", "batch": [3, 2], "p": {"outputscale": _os([3, 2], 3)}, "base": {
        "k": "Prod", "batch": [3, 2], "parts": [_rbf([3, 2], name="Matern2.5", ad=[0], d=1), rq]}}, 2, [], 2, [], 2)
    return S_


FIXED = fixed_setups()
ENUM_2D = [n for n, v in FIXED.items() if not v[2] and not v[4] and not batch_of(v[0])]  # un-batched results
ENUM_RANK2 = ["RBF[2,1] x[2,2]", "RBF[3,2]/ad x[3,2]", "Scale[3,2](Matern[3,2]/ad*RQ[3,2]) x[]"]  # 4-d results
ENUM_BATCH = [n for n in FIXED if n not in ENUM_2D and n not in ENUM_RANK2]  # 3-d results


def fixed_case(name):
    r, D, b1, n1, b2, n2 = FIXED[name]
    return {"kernel": r, "D": D, "x1": _pts(b1, n1, D, 7), "x2": _pts(b2, n2, D, 5)}


def family_dim_options(size, matrix, reduced=False):
    """the stated family for one dimension: every int (negative ones on matrix dimensions only as the two excluded
    representatives -1 and -size), slices with start/stop in {None, 1, 2, -1, size+2} x step in {None, 2}, three index
    tensors.  reduced = a 10-element cross-section used for the matrix dimensions of batched results in the quick tier."""
    if reduced:
        return [{"int": 0}, {"int": size - 1}, {"slice": [None, None, None]}, {"slice": [1, None, None]}, {"slice": [None, 2, None]},
                {"slice": [None, -1, None]}, {"slice": [1, None, 2]}, {"slice": [2, size + 2, None]}, {"tensor": [size - 1, 0]},
                {"tensor": [0, 0, size - 1]}]
    out = [{"int": i} for i in range(size)]
    out += [{"int": -1}, {"int": -size}] if matrix else [{"int": i} for i in range(-size, 0)]
    vals = [None, 1, 2, -1, size + 2]
    for a, b, c in itertools.product(vals, vals, [None, 2]):
        out.append({"slice": [a, b, c]})
    out += [{"tensor": [0]}, {"tensor": [size - 1, 0]}, {"tensor": [0, 0, size - 1]}]
    return out


def family(shape, reduced_matrix=False, zero_width="all"):
    """all index tuples of the family: full-length products, prefixes, `...` in every position.  zero_width: whether
    full-length tuples additionally carry a `...` that stands for no dimension ("all" positions / "front" only / "none");
    `[..., rows, cols]` is the special-cased fast path of LazyEvaluatedKernelTensor.__getitem__"""
    nd = len(shape)
    opts = [family_dim_options(s, i >= nd - 2, reduced_matrix and i >= nd - 2) for i, s in enumerate(shape)]
    for k in range(1, nd + 1):
        for combo in itertools.product(*opts[:k]):
            yield list(combo)
    for p in range(0, nd + 1):
        for q in range(0, nd - p + 1):
            if p + q == nd and not (zero_width == "all" or (zero_width == "front" and p == 0)):
                continue
            for combo in itertools.product(*opts[:p], *(opts[nd - q:] if q else [])):
                yield list(combo[:p]) + ["..."] + list(combo[p:])


def result_shape(name):
    r, D, b1, n1, b2, n2 = FIXED[name]
    t = outs(r)
    return list(torch.broadcast_shapes(tuple(batch_of(r)), tuple(b1), tuple(b2))) + [n1 * t, n2 * t]


def enumerate_index(tier):
    quick = tier == "quick"
    for name in ENUM_2D:
        for ix in family(result_shape(name), zero_width="front" if quick else "all"):
            yield {"setup": name, "idx": ix}
    for name in ENUM_BATCH:
        for ix in family(result_shape(name), reduced_matrix=quick, zero_width="front" if quick else "all"):
            yield {"setup": name, "idx": ix}
    if not quick:
        for name in ENUM_RANK2:
            for ix in family(result_shape(name), reduced_matrix=True, zero_width="front"):
                yield {"setup": name, "idx": ix}


_DENSE = {}


def run_index_enum(case, ctx: Ctx):
    name = case["setup"]
    ctx.cls = f"enum:{name}"
    ent = _DENSE.get(name)
    if ent is None:
        c = fixed_case(name)
        r, x1, x2 = c["kernel"], T(c["x1"]), T(c["x2"])
        with ctx.observing("evaluate"):
            D = dense(build(r)(x1, x2)).detach()
        ent = _DENSE[name] = (r, x1, x2, D)  # a pure function of the setup name; the kernel is rebuilt for every judged case
    r, x1, x2, D = ent
    ctx.label(f"enum.setup={name}")
    index_core(r, lambda: build(r), x1, x2, case["idx"], D, ctx)


EXH_NOTE = ("index.exhaustive: for each of the fixed kernel set-ups of pbt/props/c06.py (single-output, composed, MultitaskKernel, "
            "LCMKernel, RBFKernelGrad, Matern52KernelGrad, PolynomialKernelGrad, RBFKernelGradGrad; un-batched and batched with "
            "every x1/x2/kernel broadcast pattern) every index tuple of the family {all non-negative ints (all ints on batch dims), "
            "slices with start/stop in {None,1,2,-1,size+2} x step in {None,2}, index tensors [0], [size-1,0], [0,0,size-1]} per "
            "dimension: full-length tuples, all prefixes, and `...` in every position (a zero-width `...` in front only in the quick tier, in "
            "every position in the thorough tier).  2-d results: the complete product; results with one batch dimension: complete on the "
            "batch dimension x a 10-element cross-section on the two matrix dimensions in the quick tier, the complete product in the thorough tier; results "
            "with two batch dimensions (thorough only): complete on the batch dimensions x the cross-section.  Negative ints on matrix "
            "dimensions are excluded (counted).")


# ====================================================================================================
# (5) repeat / unsqueeze / expand of the lazy tensor = the dense operation
# ====================================================================================================
@st.composite
def ops_case(draw):
    c = draw(setup(max_n=3))
    r = c["kernel"]
    bshape = list(torch.broadcast_shapes(tuple(batch_of(r)), T(c["x1"]).shape[:-2], T(c["x2"]).shape[:-2]))
    nb = len(bshape)
    op = draw(st.sampled_from(["repeat", "repeat", "unsqueeze", "expand"]))
    if op == "repeat":
        extra = draw(st.integers(0, 1))
        c["op"] = {"op": "repeat", "reps": [draw(st.integers(1, 2)) for _ in range(nb + extra)] + [draw(st.integers(1, 3)), draw(st.integers(1, 2))]}
    elif op == "unsqueeze":
        c["op"] = {"op": "unsqueeze", "dim": draw(st.one_of(st.integers(0, nb), st.integers(-(nb + 3), -3)))}
    else:
        lead = draw(st.lists(st.integers(1, 3), min_size=0, max_size=1 if nb else 2))
        # -1 ("keep") is used for the matrix dimensions only: the dependency's LinearOperator._expand_batch computes -1 // size
        # for a batch dimension given as -1 (every operator class)
        tgt = [draw(st.sampled_from([2, 3])) if (e == 1 and draw(st.booleans())) else e for e in bshape]
        c["op"] = {"op": "expand", "batch": lead + tgt, "minus1": draw(st.booleans())}
    return c


def run_ops(case, ctx: Ctx):
    r, k, x1, x2 = prepare(case, ctx)
    common_labels(ctx, r, x1, x2)
    op = case["op"]
    with ctx.observing("evaluate"):
        D = dense(k(x1, x2))
    nb = D.dim() - 2
    ctx.label(f"op={op['op']}")
    if op["op"] == "repeat":
        reps = op["reps"]
        want = D.repeat(*reps)
        batch_rep = any(v != 1 for v in reps[len(reps) - 2 - nb:-2]) if nb else False
        ctx.label(f"op.repeat.batch={batch_rep}", f"op.repeat.matrix={reps[-2] != 1 or reps[-1] != 1}")
        ctx.set_nontrivial(batch_rep or reps[-2] != 1 or reps[-1] != 1)
        with ctx.observing("lazy.repeat"):
            g = k(x1, x2).repeat(*reps)
            gshape = tuple(g.shape)
            g = dense(g)
        ctx.equal("lazy.repeat.shape", gshape, tuple(want.shape))
        ctx.close("lazy.repeat", g, want, **tol(r))
    elif op["op"] == "unsqueeze":
        # the generator counts batch dimensions from the recipe; a composite kernel whose parts carry no batch shape has fewer:
        # the position is brought into the range of batch positions of the actual output
        dim = min(op["dim"], nb) if op["dim"] >= 0 else max(op["dim"], -(nb + 3))
        want = D.unsqueeze(dim)
        pos_dim = dim if dim >= 0 else D.dim() + dim + 1
        ctx.label(f"op.unsqueeze.leading={pos_dim == 0}")
        ctx.set_nontrivial(pos_dim > 0)
        with ctx.observing("lazy.unsqueeze"):
            g = k(x1, x2).unsqueeze(dim)
            gshape = tuple(g.shape)
            g = dense(g)
        ctx.equal("lazy.unsqueeze.shape", gshape, tuple(want.shape))
        ctx.close("lazy.unsqueeze", g, want, **tol(r))
    else:
        tgt = list(op["batch"]) + ([-1, -1] if op["minus1"] else list(D.shape[-2:]))
        want = D.expand(*tgt)
        grows = tuple(want.shape) != tuple(D.shape)
        ctx.label(f"op.expand.grows={grows}")
        ctx.set_nontrivial(grows)
        with ctx.observing("lazy.expand"):
            g = k(x1, x2).expand(*tgt)
            gshape = tuple(g.shape)
            g = dense(g)
        ctx.equal("lazy.expand.shape", gshape, tuple(want.shape))
        ctx.close("lazy.expand", g, want, **tol(r))


# ====================================================================================================
# (6) blocks of K([a;b],[c;d]) = the four separately computed blocks
# ====================================================================================================
@st.composite
def blocks_case(draw):
    c = draw(setup(max_n=3))
    r = c["kernel"]
    x1, x2 = T(c["x1"]), T(c["x2"])
    D = c["D"]
    nb = draw(st.integers(1, 3))
    nd = draw(st.integers(1, 3))
    c["b"] = draw(kern.points(nb, D, list(x1.shape[:-2])))
    c["d"] = draw(kern.points(nd, D, list(x2.shape[:-2])))
    c["symmetric"] = draw(st.integers(0, 3)) == 0
    c["lazy"] = draw(st.booleans())
    return c


def run_blocks(case, ctx: Ctx):
    r, k, a, c_ = prepare(case, ctx)
    b, d_ = T(case["b"]), T(case["d"])
    if case["symmetric"]:
        c_, d_ = a, b
    common_labels(ctx, r, a, c_)
    ctx.label(f"blocks.symmetric={case['symmetric']}", f"blocks.lazy={case['lazy']}")
    ctx.set_nontrivial(True)
    t = outs(r)
    na, nc = a.shape[-2] * t, c_.shape[-2] * t
    with ctx.observing("evaluate"):
        with S.lazily_evaluate_kernels(case["lazy"]):
            X1, X2 = torch.cat([a, b], -2), torch.cat([c_, d_], -2)
            Kfull = dense(k(X1) if case["symmetric"] else k(X1, X2))
            blocks = {"ac": dense(k(a, c_)), "ad": dense(k(a, d_)), "bc": dense(k(b, c_)), "bd": dense(k(b, d_))}
    tl = tol(r)
    ctx.close("block[a,c]", Kfull[..., :na, :nc], blocks["ac"], **tl)
    ctx.close("block[a,d]", Kfull[..., :na, nc:], blocks["ad"], **tl)
    ctx.close("block[b,c]", Kfull[..., na:, :nc], blocks["bc"], **tl)
    ctx.close("block[b,d]", Kfull[..., na:, nc:], blocks["bd"], **tl)


# ====================================================================================================
# (7a) active_dims: Kernel(active_dims=A)(x) = the same kernel without active_dims on x[..., A]
# ====================================================================================================
def strip(l):
    return dict(l, ad=None)


def _task_matrix(p):
    cf, var = T(p["covar_factor"]), T(p["var"])
    return cf @ cf.transpose(-1, -2) + torch.diag_embed(var)


def _kron(A, B):
    """batched Kronecker product A (x) B"""
    bs = torch.broadcast_shapes(A.shape[:-2], B.shape[:-2])
    A = A.expand(*bs, *A.shape[-2:])
    B = B.expand(*bs, *B.shape[-2:])
    out = A[..., :, None, :, None] * B[..., None, :, None, :]
    return out.reshape(*bs, A.shape[-2] * B.shape[-2], A.shape[-1] * B.shape[-1])


def restricted_value(r, x1, x2, ctx: Ctx):
    """dense value of recipe r with every leaf kernel built WITHOUT active_dims and evaluated on the selected columns; the
    composition (+, x, outputscale, Kronecker with the task covariance) is done here with plain torch"""
    k = r["k"]
    if k == "Scale":
        v = restricted_value(r["base"], x1, x2, ctx)
        return v * T(r["p"]["outputscale"])[..., None, None]
    if k in ("Add", "Prod"):
        out = None
        for p in r["parts"]:
            v = restricted_value(p, x1, x2, ctx)
            out = v if out is None else (out + v if k == "Add" else out * v)
        return out
    if k == "Multitask":
        return _kron(restricted_value(r["data"], x1, x2, ctx), _task_matrix(r["p"]))
    if k == "LCM":
        out = None
        for b, p in zip(r["bases"], r["p"]):
            v = _kron(restricted_value(b, x1, x2, ctx), _task_matrix(p))
            out = v if out is None else out + v
        return out
    if k == "Inducing":
        base = r["base"]
        inner = base["base"] if base["k"] == "Scale" else base
        A = inner["ad"]
        nb = dict(base, base=strip(inner)) if base["k"] == "Scale" else strip(inner)
        with ctx.observing("reference.inducing"):
            kk = build({"k": "Inducing", "base": nb, "Z": T(r["Z"])[..., A].tolist()})
            return dense(kk(x1[..., A], x2[..., A]))
    A = r.get("ad")
    with ctx.observing("reference.leaf"):
        kk = build(strip(r))
        if A is None:
            return dense(kk(x1, x2))
        return dense(kk(x1[..., A], x2[..., A]))


@st.composite
def ad_leaf(draw, D, batch, names=None):
    """a basic leaf kernel that owns active_dims (constructed: drawn on k < D dimensions, then given k columns)"""
    k = draw(st.integers(1, D - 1))
    leaf = dict(draw(kern.base_kernel(k, batch, names, allow_ad=False)))
    leaf["ad"] = draw(st.permutations(list(range(D))).map(lambda p: sorted(p[:k])))
    return leaf


@st.composite
def force_ad(draw, r, D):
    """make sure at least one basic leaf carries active_dims: a leaf without is replaced by one of the same class with"""
    if has_ad(r):
        return r
    n = len(leaves(r))
    target = draw(st.integers(0, n - 1))
    counter = [0]

    def rec(node):
        cs = children(node)
        if not cs:
            i = counter[0]
            counter[0] += 1
            return draw(ad_leaf(D, node.get("batch", []), [node["k"]])) if i == target else node
        node = dict(node)
        if node["k"] in ("Scale", "Inducing"):
            node["base"] = rec(node["base"])
        elif node["k"] in ("Add", "Prod"):
            node["parts"] = [rec(p) for p in node["parts"]]
        elif node["k"] == "Multitask":
            node["data"] = rec(node["data"])
        else:
            node["bases"] = [rec(b) for b in node["bases"]]
        return node

    return rec(r)


@st.composite
def ad_case(draw):
    D = draw(st.integers(2, 4))
    F = draw(st.sampled_from([[], [], [], [2], [3], [2, 2]]))
    kind = draw(st.sampled_from(["leaf", "leaf", "tree", "tree", "Multitask", "LCM", "Inducing"] + list(GRAD)))
    if kind == "Inducing":
        kb, b1, b2 = [], F, F
        leaf = draw(ad_leaf(D, [], ["RBF", "Matern1.5", "Matern2.5", "RQ", "Periodic"]))
        base = leaf if draw(st.booleans()) else {"k": "Scale", "batch": [], "base": leaf, "p": {"outputscale": draw(pos(0.1, 5.0))}}
        m = draw(st.integers(1, 3))
        # inducing points on a coarse grid in the selected columns, so that K_zz is well conditioned on both routes
        cols = draw(st.permutations([-2.0, -1.0, 0.0, 1.0, 2.0]).map(lambda p: p[:m]))
        Z = [[c if j in leaf["ad"] else draw(REAL) for j in range(D)] for c in cols]
        r = {"k": "Inducing", "base": base, "Z": Z, "batch": []}
    else:
        kb = draw(sub_shape(F))
        b1 = draw(sub_shape(F))
        b2 = b1 if draw(st.booleans()) else draw(sub_shape(F))
        if kind == "leaf":
            r = draw(ad_leaf(D, kb))
        elif kind in GRAD:
            r = draw(kernel_of(kind, D, kb, force_ad=True))
        else:
            r = draw(force_ad(draw(kernel_of(kind, D, kb)), D))
    n1 = draw(st.integers(1, 4))
    same = draw(st.integers(0, 2)) == 0
    n2 = n1 if same else draw(st.integers(1, 4))
    c = {"kernel": r, "D": D, "x1": draw(kern.points(n1, D, b1)), "x2": draw(kern.points(n2, D, b2))}
    c["mode"] = draw(st.sampled_from(["two", "two", "self", "diag"])) if (same and b1 == b2) else "two"
    c["lazy"] = draw(st.booleans())
    return c


def run_active_dims(case, ctx: Ctx):
    r, k, x1, x2 = prepare(case, ctx)
    mode = case["mode"]
    if mode != "two":
        x2 = x1
    common_labels(ctx, r, x1, x2)
    ctx.label(f"ad.mode={mode}", f"ad.lazy={case['lazy']}")
    ctx.set_nontrivial(True)
    if r["k"] == "Inducing" and mode == "two":
        A = [l for l in leaves(r)][0]["ad"]
        if torch.equal(x1[..., A], x2[..., A]) != torch.equal(x1, x2):
            # InducingPointKernel adds its diagonal correction iff torch.equal(x1, x2): inputs that coincide on the active
            # columns only are "equal" for the restricted reference and "different" for the kernel under test
            raise Discard("InducingPointKernel: x1, x2 coincide on the active columns only")
    want = restricted_value(r, x1, x2, ctx)
    tl = tol(r)
    with ctx.observing("evaluate"):
        with S.lazily_evaluate_kernels(case["lazy"]):
            if mode == "two":
                got = dense(k(x1, x2))
            elif mode == "self":
                got = dense(k(x1))
            else:
                got = dense(k(x1, diag=True))
    if mode == "diag":
        want = want.diagonal(dim1=-2, dim2=-1)
    ctx.close(f"restricted({mode})", got, want, **tl)
    if mode == "two" and case["lazy"] and r["k"] != "Inducing":
        # the selection must happen exactly once on every route out of the lazy tensor (InducingPointKernel: a slice can make
        # x1 equal x2 and switch the diagonal correction on - not a function of point pairs)
        with ctx.observing("lazy.routes"):
            lz = k(x1, x2)
            g_t = dense(lz.transpose(-1, -2))
            g_s = dense(k(x1, x2)[..., :, :])
            g_r = dense(k(x1, x2)[..., 0:outs(r), :])
        ctx.close("restricted(transpose)", g_t, want.transpose(-1, -2), **tl)
        ctx.close("restricted([...,:,:])", g_s, want, **tl)
        ctx.close("restricted([...,0:t,:])", g_r, want[..., 0:outs(r), :], **tl)


# ====================================================================================================
# (7b) kernel[i](x1[i], x2[i]) = slice i of the batched output          (7c) expand_batch
# ====================================================================================================
@st.composite
def batch_idx_dim(draw, size):
    kind = draw(st.sampled_from(["int", "int", "slice", "slice", "tensor", "full"]))
    if kind == "int":
        return {"int": draw(st.integers(-size, size - 1))}
    if kind == "full":
        return {"slice": [None, None, None]}
    if kind == "slice":
        vals = st.sampled_from([None, 0, 1, 2, -1, -2, size, size + 3])
        return {"slice": [draw(vals), draw(vals), draw(st.sampled_from([None, None, 1, 2]))]}
    return {"tensor": draw(st.lists(st.integers(-size, size - 1), min_size=1, max_size=3))}


BATCH_SHAPES = [[2], [2], [3], [3, 2], [2, 2], [2, 1], [1, 3]]


@st.composite
def getitem_case(draw):
    c = draw(setup(full_shapes=BATCH_SHAPES, max_n=3, force_batch=True, kinds=[k_ for k_ in KINDS if k_ != "mixed"]))
    r = c["kernel"]
    kb = batch_of(r)
    x1, x2 = T(c["x1"]), T(c["x2"])
    # inputs either carry the kernel's batch shape (then they are indexed alongside) or none at all
    xmode = draw(st.sampled_from(["batched", "batched", "unbatched"]))
    D = c["D"]
    c["x1"] = draw(kern.points(x1.shape[-2], D, kb if xmode == "batched" else []))
    c["x2"] = draw(kern.points(x2.shape[-2], D, kb if xmode == "batched" else []))
    k = draw(st.integers(1, len(kb)))
    c["idx"] = [draw(batch_idx_dim(kb[i])) for i in range(k)]
    c["bare"] = draw(st.booleans())
    return c


def run_getitem(case, ctx: Ctx, cls=None):
    r, k, x1, x2 = prepare(case, ctx)
    if cls is not None:
        ctx.cls = cls
    common_labels(ctx, r, x1, x2)
    kb = batch_of(r)
    ix = case["idx"]
    idx = decode_idx(ix)
    with ctx.observing("evaluate"):
        D = dense(k(x1, x2))
    try:
        want = D[idx]
    except (IndexError, RuntimeError, ValueError, TypeError):
        ctx.label("getitem.skip=torch-rejects")
        return
    if want.numel() == 0:
        ctx.label("getitem.skip=empty-selection")
        return
    batched_x = x1.dim() > 2
    kinds = "+".join(sorted({("int" if "int" in e else "slice" if "slice" in e else "tensor") for e in ix}))
    ctx.label(f"getitem.idx={kinds}", f"getitem.x={'batched' if batched_x else 'unbatched'}", f"getitem.len={len(ix)}/{len(kb)}")
    ctx.set_nontrivial(True)
    key = idx[0] if (case.get("bare") and len(idx) == 1) else idx
    with ctx.observing("kernel[idx]"):
        sub = k[key]
        sub_bs = tuple(sub.batch_shape)
    ctx.equal("kernel[idx].batch_shape", sub_bs, tuple(want.shape[:-2]))
    tl = tol(r)
    for lazy in (True, False):
        with ctx.observing(f"kernel[idx](x[idx])|lazy={lazy}"):
            with S.lazily_evaluate_kernels(lazy):
                g = dense(sub(x1[idx], x2[idx])) if batched_x else dense(sub(x1, x2))
        ctx.close(f"kernel[idx](x[idx])|lazy={lazy}", g, want, **tl)
    if x1.shape[-2] == x2.shape[-2]:
        with ctx.observing("kernel[idx](diag)"):
            gd = dense(sub(x1[idx], diag=True)) if batched_x else dense(sub(x1, diag=True))
            wd = dense(k(x1))[idx].diagonal(dim1=-2, dim2=-1)
        ctx.close("kernel[idx](diag)", gd, wd, **tl)
    # the source kernel is unchanged
    with ctx.observing("source.after"):
        D2 = dense(k(x1, x2))
    ctx.close("source.unchanged", D2, D, rtol=0.0, atol=0.0)


GETITEM_FIXED = ["RBF[2]/ad x[2]", "RBF[2]/ad x[]", "Scale[2](RBF[]+Linear[2])", "Multitask[2](RBF[2])t2 x[2]", "RBFGrad[2] x[2]",
                 "RBF[3,2]/ad x[3,2]", "Scale[3,2](Matern[3,2]/ad*RQ[3,2]) x[]"]

def batch_family(kb):
    opts = [family_dim_options(s, False) for s in kb]
    for k in range(1, len(kb) + 1):
        for combo in itertools.product(*opts[:k]):
            yield list(combo)


def enumerate_getitem(tier):
    for name in GETITEM_FIXED:
        kb = batch_of(FIXED[name][0])
        for ix in batch_family(kb):
            yield {"setup": name, "idx": ix}
            if len(ix) == 1:
                yield {"setup": name, "idx": ix, "bare": True}


def run_getitem_enum(case, ctx: Ctx):
    c = dict(fixed_case(case["setup"]), idx=case["idx"], bare=case.get("bare", False))
    run_getitem(c, ctx, cls=f"enum:{case['setup']}|{'ad' if has_ad(c['kernel']) else 'noad'}")


@st.composite
def expand_case(draw):
    c = draw(setup(full_shapes=[[], [], [2], [1], [3], [2, 1], [1, 2]], max_n=3, force_batch=True, kinds=[k_ for k_ in KINDS if k_ != "mixed"]))
    r = c["kernel"]
    kb = batch_of(r)
    # target: kb with 1-extents grown and new leading dims
    tgt = [draw(st.sampled_from([2, 3])) if (e == 1 and draw(st.booleans())) else e for e in kb]
    lead = draw(st.lists(st.integers(1, 3), min_size=0 if tgt != kb else 1, max_size=1 if kb else 2))
    c["target"] = lead + tgt
    # inputs: un-batched or carrying the target shape
    xb = c["target"] if draw(st.booleans()) else []
    x1, x2 = T(c["x1"]), T(c["x2"])
    c["x1"] = draw(kern.points(x1.shape[-2], c["D"], xb))
    c["x2"] = draw(kern.points(x2.shape[-2], c["D"], xb))
    c["as_args"] = draw(st.booleans())
    return c


def run_expand(case, ctx: Ctx):
    r, k, x1, x2 = prepare(case, ctx)
    common_labels(ctx, r, x1, x2)
    tgt = list(case["target"])
    ctx.label(f"expand.from={batch_of(r)}", f"expand.rank+={len(tgt) - len(batch_of(r))}")
    ctx.set_nontrivial(True)
    with ctx.observing("expand_batch"):
        ke = k.expand_batch(*tgt) if case["as_args"] and len(tgt) > 1 else k.expand_batch(torch.Size(tgt))
        ebs = tuple(ke.batch_shape)
    ctx.equal("expand_batch.batch_shape", ebs, tuple(tgt))
    # reference: the original kernel on the same inputs, broadcast to the target shape
    with ctx.observing("evaluate.original"):
        D = dense(k(x1, x2))
    want = D.expand(*tgt, *D.shape[-2:])
    tl = tol(r)
    for lazy in (True, False):
        with ctx.observing(f"expanded(x)|lazy={lazy}"):
            with S.lazily_evaluate_kernels(lazy):
                g = dense(ke(x1, x2))
        ctx.close(f"expanded(x)|lazy={lazy}", g, want, **tl)
    with ctx.observing("source.after"):
        ctx.equal("source.batch_shape", tuple(k.batch_shape), tuple(batch_of(r)))


# ====================================================================================================
RULE = ("cases = kernel recipe (basic classes, ARD, active_dims, batch shapes incl. mixed sub-kernel batch shapes, +/x/ScaleKernel trees, "
        "MultitaskKernel, LCMKernel, RBFKernelGrad, Matern52KernelGrad, PolynomialKernelGrad, RBFKernelGradGrad, InducingPointKernel) x inputs "
        "(n <= 4, d <= 4, every broadcast pattern between the batch shapes of x1, x2 and the kernel) x route (diag / transpose / lazy vs eager / "
        "index expression / repeat, unsqueeze, expand / stacked blocks / active_dims restriction / kernel[idx] / expand_batch). Non-trivial: the "
        "index touches a batch dimension of a kernel with per-batch parameters or active_dims, or is a slice not aligned to the "
        "outputs-per-input of a multi-output kernel, or contains an index tensor; for the other routes: multi-output, batched or "
        "active_dims kernels, n1 != n2, differing x1/x2 batch shapes, an operation that changes the shape.  distinct = distinct canonical case")

SPEC = PropertySpec(
    pid="C06",
    rule=RULE,
    assumptions=[
        "float64, CPU, non-KeOps; last_dim_is_batch (deprecated) not exercised",
        "the oracle is the dense matrix kernel(x1, x2).to_dense() transformed with plain torch; kernel values themselves are C05's subject",
        "excluded, dependency (linear_operator, outside /repo), generated only in the enumeration and counted under idx.excluded=*: negative "
        "integer indices on the two matrix dimensions (LinearOperator.__getitem__ maps them to slice(-1, 0) for every operator class); an "
        "integer on one matrix dimension combined with index tensors that absorb the matrix dimensions (LinearOperator.__getitem__ squeezes "
        "the wrong dimension; DenseLinearOperator raises its own 'this is a bug' error)",
        "not generated, dependency: -1 ('keep') for a batch dimension in LinearOperator.expand (_expand_batch computes -1 // size for every "
        "operator); a ScaleKernel of batch shape (1,)/(1,1) over a LinearOperator-valued base kernel (Linear, Multitask, LCM): "
        "linear_operator's mul treats the one-element outputscale as a python scalar and drops the leading 1-dimensions; a batched ScaleKernel "
        "over a product of two LinearKernels at x1 == x2 (MulLinearOperator._mul_constant does `if other > 0` on a batch of constants)",
        "sub-kernels of a composed kernel carry the batch shape of the parent or none; a sub-kernel whose batch shape merely broadcasts to the "
        "parent's (1-extents, lower non-zero rank) cannot be indexed alongside its parent by Kernel.__getitem__ (the same index tuple is "
        "handed to every node: a slice of a 1-extent comes out empty, surplus indices reach into parameter dimensions) - not covered",
        "kernels with a kink at r = 0 are compared at atol 1e-6 (two routes centre the quadratic-expansion distance differently), others at 1e-11",
        "InducingPointKernel is not a function of point pairs (the diagonal correction depends on torch.equal(x1, x2)); it takes part in the "
        "active_dims relation only",
        "batch permutation of the lazy tensor (_permute_batch) is not part of the stated relations",
    ],
    subchecks=[
        Subcheck("route.diag", run_diag, strategy=diag_case, quick=800, thorough=30000, min_shard=40),
        Subcheck("route.transpose", run_transpose, strategy=setup, quick=800, thorough=30000, min_shard=40),
        Subcheck("route.lazy_eager", run_lazy_eager, strategy=lazy_case, quick=800, thorough=30000, min_shard=40),
        Subcheck("index.sampled", run_index, strategy=index_case, quick=10000, thorough=250000, min_shard=200),
        Subcheck("index.exhaustive", run_index_enum, enumerate=enumerate_index, exhaustive_note=EXH_NOTE),
        Subcheck("lazy.ops", run_ops, strategy=ops_case, quick=2400, thorough=60000, min_shard=100),
        Subcheck("blocks.stacked", run_blocks, strategy=blocks_case, quick=800, thorough=30000, min_shard=50),
        Subcheck("active_dims.restrict", run_active_dims, strategy=ad_case, quick=2400, thorough=60000, min_shard=100),
        Subcheck("batch.getitem", run_getitem, strategy=getitem_case, quick=2400, thorough=60000, min_shard=100),
        Subcheck("batch.getitem_exhaustive", run_getitem_enum, enumerate=enumerate_getitem,
                 exhaustive_note="batch.getitem_exhaustive: kernel[idx] for every index tuple (all ints of both signs, the slice family, three index "
                                 "tensors; all prefixes) over the batch dimensions of 7 fixed batched kernels (batch shapes (2,), (3,2); with and "
                                 "without active_dims; composed, multitask, derivative)"),
        Subcheck("batch.expand", run_expand, strategy=expand_case, quick=1200, thorough=40000, min_shard=80),
    ],
)

"""C15 - variational objectives equal their definition; the ELBO is a lower bound on the exact log marginal likelihood; its
maximum over q(u) is the collapsed (Titsias) bound, reached by one natural-gradient step of size one.

Every case generates q(u) as an explicit (mean, SPD covariance), encodes it into the chosen variational-distribution class
(pbt.var_oracle.encode), builds the model / likelihood / objective through the public constructors and compares

  elbo.definition          VariationalELBO = (1/B) sum_i E_{q(f_i)} log p(y_i|f_i) - (beta/N) KL + (1/N) sum log-priors - added
  pll.definition           PredictiveLogLikelihood: first term (1/B) sum_i log E_{q(f_i)} p(y_i|f_i)
  gamma_robust.definition  GammaRobustVariationalELBO: first term (1/B) sum_i g/(g-1) E_{q(f_i)} p(y_i|f_i)^(g-1) / I^((g-1)/g)  (GAMMA_NOTE)
  bound.lower            N ELBO(q) <= log N(y; m_X, K_XX + D)                for arbitrary generated q(u)
  bound.collapsed        N ELBO(q*) = Titsias' bound;  N ELBO(q) = Titsias - KL(q || q*) for perturbations q of q*;  Titsias <= log ML
  ngd.one_step           theta_1 = theta_0 + lr [ (N/B) theta_lik - beta (theta_0 - theta_prior) ];  lr = beta = 1: q_1 = q*

with references assembled from independent pieces: q(f) and KL from pbt.var_oracle (dense closed forms on the reference
kernels of pbt.kern), Gaussian closed forms, scipy.integrate.quad of the documented Bernoulli / Student-t densities, prior log
densities from pbt.priors_ref.  Nothing in the oracle calls gpytorch."""
from __future__ import annotations

import math

import scipy.integrate
import scipy.special
import torch
from hypothesis import strategies as st

import gpytorch
from gpytorch.mlls import AddedLossTerm

from pbt import kern
from pbt import priors_ref as PR
from pbt import var_model as VM
from pbt import var_oracle as VO
from pbt.core import Ctx, Discard, PropertySpec, Subcheck

T = torch.tensor
F64 = torch.float64
EPS = 2.2e-16
DEFAULT_JITTER = 1e-6  # documented default of settings.variational_cholesky_jitter for double
LOG2PI = math.log(2 * math.pi)
SQRT2PI = math.sqrt(2 * math.pi)
STRATS = ["Variational", "Variational", "Unwhitened"]
OBJ_CLS = {"elbo": gpytorch.mlls.VariationalELBO, "pll": gpytorch.mlls.PredictiveLogLikelihood,
           "gamma": gpytorch.mlls.GammaRobustVariationalELBO}


# ---------------------------------------------------------------------------------------------------
# model with optional added loss terms (the documented pattern: register in __init__, update in forward)
# ---------------------------------------------------------------------------------------------------
class ConstLoss(AddedLossTerm):
    def __init__(self, value):
        self.value = value

    def loss(self):
        return torch.tensor(self.value, dtype=F64)


class LossSVGP(VM.RecipeSVGP):
    def __init__(self, recipe, added=()):
        super().__init__(recipe)
        self._added_values = list(added or [])
        for i, _ in enumerate(self._added_values):
            self.register_added_loss_term(f"extra{i}")

    def forward(self, x):
        for i, v in enumerate(self._added_values):
            self.update_added_loss_term(f"extra{i}", ConstLoss(v))
        return super().forward(x)


# ---------------------------------------------------------------------------------------------------
# likelihood recipes
# ---------------------------------------------------------------------------------------------------
@st.composite
def lik_recipe(draw, kind, n, priors):
    if kind == "Gaussian":
        r = {"l": kind, "noise": draw(kern.pos(0.01, 2.0))}
        if priors and draw(st.booleans()):
            r["priors"] = {"noise": draw(PR.prior_recipe())}
    elif kind == "FixedNoise":  # per-point noise, handed to the objective as the documented `noise=` keyword
        r = {"l": kind, "noise": draw(kern.arr([n], kern.pos(0.01, 2.0)))}
    elif kind == "Bernoulli":
        r = {"l": kind}
    else:
        r = {"l": "StudentT", "noise": draw(kern.pos(0.8, 4.0)), "nu": draw(kern.pos(2.2, 30.0))}
        if priors:
            r["priors"] = {k: draw(PR.prior_recipe()) for k in ("noise", "deg_free") if draw(st.booleans())}
    return r


def build_lik(lr):
    pri = {f"{k}_prior": PR.build_prior(v) for k, v in (lr.get("priors") or {}).items()}
    if lr["l"] == "Gaussian":
        lik = gpytorch.likelihoods.GaussianLikelihood(**pri)
        lik.noise = lr["noise"]
    elif lr["l"] == "FixedNoise":
        lik = gpytorch.likelihoods.FixedNoiseGaussianLikelihood(noise=T(lr["noise"], dtype=F64))
    elif lr["l"] == "Bernoulli":
        lik = gpytorch.likelihoods.BernoulliLikelihood()
    else:
        lik = gpytorch.likelihoods.StudentTLikelihood(**pri)
        lik.noise = lr["noise"]
        lik.deg_free = lr["nu"]
    return lik


def noise_vector(lr, idx):
    """per-point noise variances of the minibatch (Gaussian family)"""
    if lr["l"] == "Gaussian":
        return torch.full((len(idx),), float(lr["noise"]), dtype=F64)
    return T(lr["noise"], dtype=F64)[idx]


# ---------------------------------------------------------------------------------------------------
# generators
# ---------------------------------------------------------------------------------------------------
KERNELS = ["RBF", "RBF", "Matern0.5", "Matern1.5", "Matern2.5", "RQ"]
NOBATCH = {"zb": [], "vb": [], "mb": [], "xb": [], "yb": []}


def _holders(krec):
    out = []

    def walk(r):
        if r["k"] == "Scale":
            out.append((r, "outputscale"))
            walk(r["base"])
        elif r["k"] == "Add":
            for p in r["parts"]:
                walk(p)
        else:
            out.append((r, "lengthscale"))

    walk(krec)
    return out


def _shrink_outputscales(krec, f):
    for h, pn in _holders(krec):
        if pn == "outputscale":
            h["p"]["outputscale"] = (T(h["p"]["outputscale"], dtype=F64) * f).tolist()


@st.composite
def small_batch(draw):
    if draw(st.integers(0, 3)) > 0:
        return dict(NOBATCH)
    b = draw(st.sampled_from([[2], [2], [3]]))
    pat = draw(st.sampled_from(["q", "all", "x", "all+x"]))
    bp = dict(NOBATCH)
    if pat == "q":
        bp["vb"] = b
    elif pat == "x":
        bp["xb"] = b
    else:
        bp["zb"], bp["vb"], bp["mb"] = b, b, b
        if pat == "all+x":
            bp["xb"] = b
    bp["yb"] = draw(st.sampled_from([[], bp["xb"] or bp["vb"]]))
    return bp


@st.composite
def model_recipe(draw, d, M, bp, strategy, dist, jitter, priors=False):
    r = {"strategy": strategy, "Z": draw(VM.inducing(M, d, bp["zb"])), "learn_z": draw(st.booleans()), "jitter": jitter,
         "dist": dist, "vb": bp["vb"], "mean": draw(kern.mean_recipe(d, bp["mb"])),
         "kernel": draw(VM.svgp_kernel(d, bp["mb"], names=KERNELS))}
    if priors:
        for h, pn in _holders(r["kernel"]):
            if draw(st.booleans()):
                h.setdefault("priors", {})[pn] = draw(PR.prior_recipe())
        if r["mean"]["m"] == "Constant" and draw(st.booleans()):
            r["mean"]["priors"] = {"constant": draw(PR.prior_recipe(positive=False))}
    return r


@st.composite
def targets(draw, lik, shape):
    elem = st.sampled_from([0.0, 1.0]) if lik == "Bernoulli" else kern.REAL
    return draw(kern.arr(shape, elem))


@st.composite
def objective_case(draw, objective):
    lik = draw(st.sampled_from({"elbo": ["Gaussian", "Gaussian", "FixedNoise", "Bernoulli", "StudentT"],
                                "pll": ["Gaussian", "Gaussian", "FixedNoise", "Bernoulli", "StudentT"],
                                "gamma": ["Gaussian", "Gaussian", "FixedNoise"]}[objective]))
    strategy = draw(st.sampled_from(STRATS))
    dist = draw(st.sampled_from(VO.GAUSSIAN_DISTS))
    d = draw(st.integers(1, 2))
    M = draw(st.sampled_from([1, 2, 2, 3, 3, 4, 5]))
    n = draw(st.integers(1, 6))
    bp = draw(small_batch())
    batched = any(bp[k] for k in ("zb", "vb", "mb", "xb"))
    priors = (not batched) and draw(st.integers(0, 2)) > 0
    model = draw(model_recipe(d, M, bp, strategy, dist, draw(st.sampled_from(VM.JITTERS + [None])), priors))
    q = draw(VM.q_params(M, bp["vb"]))
    if lik in ("Bernoulli", "StudentT"):
        # keep the variance of q(f_i) in the range where the library's 20-node rule is accurate (see quad_tier)
        _shrink_outputscales(model["kernel"], 0.25)
        q["L"] = (T(q["L"], dtype=F64) * (0.6 if lik == "Bernoulli" else 0.5)).tolist()
    idx = sorted(draw(st.lists(st.integers(0, n - 1), min_size=1, max_size=n, unique=True)))
    B = len(idx)
    N = draw(st.sampled_from([n, 7, 2 * n + 1, 50, 1000, B]))
    case = {"objective": objective, "d": d, "M": M, "n": n, "bp": bp, "model": model, "q": q,
            "X": draw(kern.points(n, d, bp["xb"])), "y": draw(targets(lik, bp["yb"] + [n])), "idx": idx, "N": N,
            "beta": draw(st.sampled_from([0.1, 0.25, 0.5, 0.75, 1.0, 1.5, 2.0])), "lik": draw(lik_recipe(lik, n, priors)),
            "added": draw(st.sampled_from([[], [], []]) | st.lists(kern.REAL, min_size=1, max_size=2)),
            "combine": draw(st.sampled_from([True, True, False])),
            "mode": draw(st.sampled_from(["train", "train", "eval"])) if strategy == "Variational" else "train"}
    if draw(st.integers(0, 3)) == 0:
        case["reassign"] = {"N0": draw(st.sampled_from([1, 3, 10, 200])), "beta0": draw(st.sampled_from([0.05, 0.3, 1.0, 4.0]))}
    if objective == "gamma":
        case["gamma"] = draw(st.sampled_from([1.03, 1.03, 1.1, 1.5, 2.0, 3.0]) | st.floats(1.01, 3.0).map(lambda v: round(v, 3)))
        case["refuse"] = draw(st.sampled_from([None] * 38 + ["gamma<=1", "non-gaussian"]))
    return case


@st.composite
def regression_case(draw, dists, jitters, perturb=False, ngd=False, lower=False):
    """full-data Gaussian regression set-ups for the bound / collapsed bound / natural-gradient checks (no batch shapes)"""
    lik = draw(st.sampled_from(["Gaussian", "Gaussian", "FixedNoise"]))
    strategy = draw(st.sampled_from(STRATS))
    dist = draw(st.sampled_from(list(dists)))
    d = draw(st.integers(1, 2))
    M = draw(st.integers(1, 5))
    n = draw(st.integers(1, 6))
    # the natural-gradient check also runs with a batch of variational distributions (independent q_0 per batch element)
    vb = draw(st.sampled_from([[], [], [2], [3]])) if ngd else []
    bp = dict(NOBATCH, vb=vb)
    model = draw(model_recipe(d, M, bp, strategy, dist, draw(st.sampled_from(list(jitters)))))
    case = {"d": d, "M": M, "n": n, "bp": bp, "model": model, "q": draw(VM.q_params(M, vb)),
            "X": draw(kern.points(n, d, [])), "y": draw(targets(lik, [n])), "lik": draw(lik_recipe(lik, n, False)),
            "mode": draw(st.sampled_from(["train", "train", "eval"])) if strategy == "Variational" else "train"}
    pert = st.fixed_dictionaries({
        "dm": kern.arr([M], kern.REAL), "dL": kern.arr([M, M], st.sampled_from([0.0, 0.0, 0.25, -0.25, 0.5, -0.5, 0.75, -0.75])),
        "eps": st.sampled_from([1e-3, 1e-2, 0.1, 0.1, 1.0] + ([0.0] if lower else []))})
    if perturb:
        case["perturbations"] = draw(st.lists(pert, min_size=1, max_size=3))
    if lower:
        # where the bound is (nearly) tight: q(u) at / near the analytic optimum, inducing points = inputs
        if strategy == "Variational" and draw(st.integers(0, 3)) == 0:
            case["n"], case["X"] = M, [list(z) for z in model["Z"]]
            case["y"] = case["y"][:M] if M <= n else case["y"] + draw(targets(lik, [M - n]))
            if lik == "FixedNoise":
                case["lik"] = draw(lik_recipe(lik, M, False))
        if draw(st.integers(0, 2)) == 0:
            case["perturbations"] = [draw(pert)]
    if ngd:
        idx = sorted(draw(st.lists(st.integers(0, n - 1), min_size=1, max_size=n, unique=True)))
        exact = draw(st.integers(0, 2)) > 0  # the cell the property names: lr = 1, beta = 1
        case.update(idx=idx, N=draw(st.sampled_from([n, n, len(idx), 2 * n + 1, 50])),
                    lr=1.0 if exact else draw(st.sampled_from([0.1, 0.5, 1.0])),
                    beta=1.0 if exact else draw(st.sampled_from([0.5, 1.0, 2.0])), mode="train")
    else:
        case["beta"] = draw(st.sampled_from([1.0, 1.0, 1.0, 2.0])) if not perturb else 1.0
    return case


# ---------------------------------------------------------------------------------------------------
# oracle pieces
# ---------------------------------------------------------------------------------------------------
def jit_of(v):
    return DEFAULT_JITTER if v is None else float(v)


def scale_of(*ts):
    return max([1.0] + [float(t.abs().max()) for t in ts if t is not None and t.numel()])


def min_gap(X, Z):
    """smallest non-zero distance between rows of [X; Z] (over all batch elements)"""
    bs = torch.broadcast_shapes(X.shape[:-2], Z.shape[:-2])
    P = torch.cat([X.expand(*bs, *X.shape[-2:]), Z.expand(*bs, *Z.shape[-2:])], -2)
    D = torch.cdist(P, P)
    D = torch.where(D > 0, D, torch.full_like(D, float("inf")))
    return float(D.min())


def kernel_floor(krec, gap):
    """Accuracy floor of the library's kernel matrices relative to their scale.  Kernels with a kink at r = 0 lose accuracy where
    the quadratic-expansion distance is (nearly) zero: d^2 carries rounding noise ~ eps |x / l|^2, so r = sqrt(d^2) is off by up
    to ~1e-7 - also on the *diagonal* of K(Z, Z) / K(X, X) whenever a hyper-parameter requires grad (the exact zeroing of the
    diagonal is skipped then), i.e. always in an objective.  Matern-1/2 is linear in r there: 1e-5 (the floor C14 uses);
    Matern-3/2, -5/2 are quadratic in r: 1e-8 when all distinct rows are >= 1e-4 apart (rows are lattice points or
    4-significant-digit floats), 1e-5 otherwise.  Smooth kernels: no floor."""
    if kern.smooth_at_zero(krec):
        return 0.0
    if any(l["k"] == "Matern0.5" for l in kern.leaves(krec)) or gap < 1e-4:
        return 1e-5
    return 1e-8


def qf_tol(kappa, krec, gap):
    """accuracy of q(f) relative to its scale - one dense solve (DESIGN 1.4): 1e3 eps kappa clipped to [1e-10, 1e-6], at least
    the accuracy of the kernel matrices"""
    return max(min(max(1e3 * EPS * kappa, 1e-10), 1e-6), kernel_floor(krec, gap))


def log_prior_sum(case):
    """sum of the reference log densities of every registered prior at the value of its parameter"""
    tot = torch.zeros((), dtype=F64)
    npri = 0
    for h, pn in _holders(case["model"]["kernel"]):
        pr = (h.get("priors") or {}).get(pn)
        if pr is not None:
            tot = tot + PR.ref_logpdf(pr, T(h["p"][pn], dtype=F64)).sum()
            npri += 1
    mean = case["model"]["mean"]
    if mean.get("priors"):
        tot = tot + PR.ref_logpdf(mean["priors"]["constant"], T(mean["p"]["constant"], dtype=F64)).sum()
        npri += 1
    for k, pr in (case["lik"].get("priors") or {}).items():
        tot = tot + PR.ref_logpdf(pr, T(case["lik"]["noise" if k == "noise" else "nu"], dtype=F64)).sum()
        npri += 1
    return tot, npri


def _gauss_expect(g, m, v, pts=()):
    """E_{N(m, v)} g(f) by adaptive quadrature"""
    s = math.sqrt(v)
    if s < 1e-9:
        return g(m)
    lo, hi = m - 12.0 * s, m + 12.0 * s
    brk = sorted({x for x in list(pts) + [m] if lo < x < hi})
    val, _ = scipy.integrate.quad(lambda f: g(f) * math.exp(-0.5 * ((f - m) / s) ** 2) / (s * SQRT2PI), lo, hi,
                                  epsabs=1e-13, epsrel=1e-12, limit=300, points=brk)
    return val


def _student_logpdf(y, f, noise, nu):
    """documented Student-t observation model: nu degrees of freedom, location f, scale sqrt(noise)"""
    z2 = (y - f) ** 2 / (nu * noise)
    return math.lgamma(0.5 * (nu + 1)) - math.lgamma(0.5 * nu) - 0.5 * math.log(nu * math.pi * noise) - 0.5 * (nu + 1) * math.log1p(z2)


def quad_tier(lik, rho):
    """Accuracy of the library's documented default 20-node Gauss-Hermite rule as a function of rho = sd(q(f_i)) / width of the
    density (Bernoulli: 1, Student-t: sqrt(noise)) - the calibration of C13 (5 x the largest error measured on the unchanged
    tree: Bernoulli 1.2e-9 / 2.4e-5 / 9.1e-4 at rho <= 1 / 2 / 3; Student-t elp 6.8e-10 / 2.2e-5, lm 2.1e-8 / 3.8e-4 at
    rho <= 0.5 / 1).  Returns the tolerance of the tier, None outside the domain where the rule reaches 1e-3."""
    if lik == "Bernoulli":
        return 1e-7 if rho <= 1.0 else (1e-4 if rho <= 2.0 else (1e-3 if rho <= 3.0 else None))
    return 1e-7 if rho <= 0.5 else (1e-3 if rho <= 1.0 else None)


def first_term(case, objective, mean, var, y, sdiag, gamma_norm="cited"):
    """(sum_i t_i, absolute tolerance of the sum contributed by quadrature, largest |dt_i / d(mean, var)| amplification)
    for q(f_i) = N(mean_i, var_i); all tensors carry the full batch shape (*bs, B)"""
    lr = case["lik"]
    l = lr["l"]
    if l in ("Gaussian", "FixedNoise"):
        r2 = (y - mean) ** 2
        if objective == "elbo":
            t = -0.5 * (LOG2PI + sdiag.log() + (r2 + var) / sdiag)
            amp = float(((y - mean).abs().max() + 1.0) / sdiag.min())
            return t.sum(-1), 0.0, amp
        if objective == "pll":
            tot = var + sdiag
            t = -0.5 * (LOG2PI + tot.log() + r2 / tot)
            amp = float(((y - mean).abs().max() + 1.0) / sdiag.min())
            return t.sum(-1), 0.0, amp
        # gamma-robust: t_i = g/(g-1) E_q[p(y_i|f_i)^(g-1)] / I^((g-1)/g),  I = int p(y|f)^g dy = (2 pi s)^(-(g-1)/2) g^(-1/2)
        # (the gamma-loss of the cited papers, sign flipped because the objective is maximised; `gamma_norm="inverse"` is the
        # same with the normaliser multiplied instead of divided - see GAMMA_NOTE);
        # p(y|f)^(g-1) = (2 pi s)^(-(g-1)/2) sqrt(2 pi s / (g-1)) N(y; f, s/(g-1)), and E_q N(y; f, a) = N(y; mean, var + a)
        g = case["gamma"]
        a = sdiag / (g - 1.0)
        E = (2 * math.pi * sdiag) ** (-(g - 1.0) / 2) * (2 * math.pi * a).sqrt() * torch.exp(-0.5 * r2 / (var + a)) / (2 * math.pi * (var + a)).sqrt()
        I = (2 * math.pi * sdiag) ** (-(g - 1.0) / 2) / math.sqrt(g)
        t = g / (g - 1.0) * E * I ** ((1.0 - g) / g if gamma_norm == "cited" else (g - 1.0) / g)
        amp = float(((y - mean).abs().max() + 1.0) / min(float(a.min()), float(sdiag.min()))) * float(t.abs().max())
        return t.sum(-1), 0.0, amp
    # one-dimensional likelihoods: scipy quadrature of the documented density
    shp = mean.shape
    mf, vf, yf = mean.reshape(-1).tolist(), var.reshape(-1).tolist(), y.expand(shp).reshape(-1).tolist()
    out, tol = [], 0.0
    for m_i, v_i, y_i in zip(mf, vf, yf):
        v_i = max(v_i, 0.0)
        if l == "Bernoulli":
            s = 2.0 * y_i - 1.0
            tier = quad_tier(l, math.sqrt(v_i))
            if objective == "elbo":
                t_i = _gauss_expect(lambda f: float(scipy.special.log_ndtr(s * f)), m_i, v_i, [0.0])
            else:
                t_i = math.log(_gauss_expect(lambda f: float(scipy.special.ndtr(s * f)), m_i, v_i, [0.0]))
                # documented as analytic, Phi(s m / sqrt(1 + v)): 1e-9 plus the rounding of a probability p computed from a cdf (eps / p)
                tier = 1e-9 + 8 * EPS / math.exp(t_i) if tier is not None else None
        else:
            tier = quad_tier(l, math.sqrt(v_i / lr["noise"]))
            if objective == "elbo":
                t_i = _gauss_expect(lambda f: _student_logpdf(y_i, f, lr["noise"], lr["nu"]), m_i, v_i, [y_i])
            else:
                t_i = math.log(_gauss_expect(lambda f: math.exp(_student_logpdf(y_i, f, lr["noise"], lr["nu"])), m_i, v_i, [y_i]))
        if tier is None:
            raise Discard(f"{l}: q(f_i) wider than the range where the default 20-node rule reaches 1e-3")
        tol = max(tol, tier)
        out.append(t_i)
    t = T(out, dtype=F64).reshape(shp)
    return t.sum(-1), tol * shp[-1], 2.0  # (log-densities with O(1) derivatives in mean and variance on this domain)


def is_shortcut(X, Z):
    """UnwhitenedVariationalStrategy returns q(u) itself when the inputs equal the inducing points (after broadcasting) and
    then evaluates the KL against its fixed-jitter (1e-3) prior: the DESIGN section 4 note, asserted nowhere (see C14)"""
    Z = T(Z, dtype=F64)
    if tuple(X.shape[-2:]) != tuple(Z.shape[-2:]):
        return False
    bs = torch.broadcast_shapes(X.shape[:-2], Z.shape[:-2])
    return torch.equal(X.expand(*bs, *X.shape[-2:]), Z.expand(*bs, *Z.shape[-2:]))


def qf_oracle(case, Xb, jit):
    """q(f) on the minibatch and KL(q(u) || p(u)) from the closed forms of pbt.var_oracle"""
    r, bp = case["model"], case["bp"]
    m, Sq = VM.q_tensors(case["q"])
    blk = VO.prior_blocks(r["kernel"], r["mean"], r["Z"], Xb, jit, bp["vb"])
    if blk.kappa > 1e8:
        raise Discard("ill-conditioned Kzz (kappa > 1e8)")
    if r["strategy"] == "Unwhitened":
        if is_shortcut(Xb, r["Z"]):
            raise Discard("x == Z takes the unwhitened strategy's shortcut (covered in C14)")
        mean, cov, kl = VO.qf_unwhitened(blk, r["dist"], m, Sq)
        ks = (0,)
        kkl = blk.kappa
    else:
        mean, cov, _ = VO.qf_whitened(blk, r["dist"], m, Sq)
        kl = VO.kl_std(*VO.representable(r["dist"], m, Sq))
        ks = (0, 1)  # the whitened strategy adds jitter I to K_xx: accepted either way (C14)
        kkl = 1.0
    return blk, m, Sq, mean, cov.diagonal(dim1=-1, dim2=-2), kl, ks, kkl


def build_objective(ctx, case, r, params, objective, N, beta, combine=True, gamma=None):
    with ctx.observing("build"):
        model = LossSVGP(r, case.get("added"))
        VM.set_q(VM.base_strategy(model), params, mark=True)
        lik = build_lik(case["lik"])
        train = case.get("mode", "train") == "train"
        model.train(train)
        lik.train(train)
        kw = {"gamma": gamma} if objective == "gamma" else {}
        if case.get("reassign"):
            # beta and num_data are plain public attributes of the objective (KL warm-up / a growing data set assign them between
            # calls): the value is defined by what they hold at call time, not at construction
            mll = OBJ_CLS[objective](lik, model, num_data=case["reassign"]["N0"], beta=case["reassign"]["beta0"], combine_terms=combine, **kw)
            mll.beta = beta
            mll.num_data = N
        else:
            mll = OBJ_CLS[objective](lik, model, num_data=N, beta=beta, combine_terms=combine, **kw)
    return model, lik, mll


def call_kwargs(case, idx):
    return {"noise": T(case["lik"]["noise"], dtype=F64)[idx]} if case["lik"]["l"] == "FixedNoise" else {}


# ---------------------------------------------------------------------------------------------------
# (a), (b): the objectives equal their definitions
# ---------------------------------------------------------------------------------------------------
def run_objective(case, ctx: Ctx):
    objective, r, bp, lr = case["objective"], case["model"], case["bp"], case["lik"]
    strat, dist, l = r["strategy"], r["dist"], lr["l"]
    batched = any(bp[k] for k in ("zb", "vb", "mb", "xb"))
    ctx.cls = f"{objective}|{l}|{strat}|{dist}|{case['mode']}|{'batch' if batched else 'plain'}"
    idx, N, beta = case["idx"], case["N"], case["beta"]
    B, n = len(idx), case["n"]
    X = T(case["X"], dtype=F64)
    Xb = X[..., idx, :]
    y = T(case["y"], dtype=F64)[..., idx]
    jit = jit_of(r["jitter"])

    if objective == "gamma" and case.get("refuse"):
        # documented refusals of GammaRobustVariationalELBO
        if case["refuse"] == "gamma<=1":
            build_objective_rejecting(ctx, case, r, gamma=1.0, lik_override=None, exc=ValueError, match="gamma should be > 1.0")
        else:
            build_objective_rejecting(ctx, case, r, gamma=case["gamma"], lik_override={"l": "Bernoulli"}, exc=RuntimeError, match="Likelihood must be Gaussian")
        ctx.check("refused", False, f"GammaRobustVariationalELBO accepted {case['refuse']}")
        return

    blk, m, Sq, mean, var, kl, ks, kkl = qf_oracle(case, Xb, jit)
    sdiag = noise_vector(lr, idx) if l in ("Gaussian", "FixedNoise") else None
    bs = torch.broadcast_shapes(mean.shape[:-1], y.shape[:-1], kl.shape)
    mean, yb = mean.expand(*bs, B), y.expand(*bs, B)
    log_prior, npri = log_prior_sum(case)
    added = sum(case["added"]) if case["added"] else 0.0

    cands, alt, qtol, amp = [], [], 0.0, 1.0
    for k in ks:
        s, qtol, amp = first_term(case, objective, mean, (var + k * jit).expand(*bs, B), yb, sdiag)
        cands.append(s / B)
        if objective == "gamma":
            alt.append(first_term(case, objective, mean, (var + k * jit).expand(*bs, B), yb, sdiag, "inverse")[0] / B)
    w_kl = (beta / N) * kl.expand(bs)
    w_prior = (log_prior / N).expand(bs)
    w_added = torch.full(bs, float(added), dtype=F64)

    # tolerance: q(f) is accurate to tq x its scale; the first term amplifies that by `amp` (e.g. |y - mean| / noise);
    # quadrature likelihoods add the tier of the 20-node rule; KL to the one-solve tolerance of its own conditioning
    tq = qf_tol(max(blk.kappa, VO.cond(Sq)), r["kernel"], min_gap(Xb, T(r["Z"], dtype=F64)))
    tol_ll = tq * scale_of(mean, var) * amp + qtol / B + 1e-12
    tol_kl = qf_tol(max(kkl, VO.cond(Sq)), r["kernel"], 1.0) * scale_of(kl) * beta / N
    # priors: the parameter itself is only known to the setter round trip (torch's softplus is the identity above 20 although
    # softplus(x) - x is still 2e-9 there), and a narrow prior far from the value amplifies that: 3e-9 relative on the prior term
    tol_rest = 1e-12 * (1.0 + abs(added)) + 3e-9 * abs(float(log_prior)) / N

    model, lik, mll = build_objective(ctx, case, r, VO.encode(dist, m, Sq), objective, N, beta, case["combine"], case.get("gamma"))
    with ctx.observing("objective"):
        out = model(Xb)
        got = mll(out, y, **call_kwargs(case, idx))
        if not case["combine"]:
            got = tuple(g.detach().clone() for g in got)
        else:
            got = got.detach().clone()
    if case["combine"]:
        wants = [c - w_kl + w_prior - w_added for c in cands]
        walt = [c - w_kl + w_prior - w_added for c in alt]
        tol = tol_ll + tol_kl + tol_rest
        # (gamma-robust: first everything but the direction of the normaliser, then the normaliser - GAMMA_NOTE)
        if ctx.close("value", got, VO.best_of(got, wants + walt), rtol=1e-10, atol=tol, scale=1.0) and alt:
            ctx.close("normaliser", got, VO.best_of(got, wants), rtol=1e-10, atol=tol, scale=1.0, cls=f"gamma|{l}")
    else:
        # documented: the same pieces, uncombined; the added-loss piece only when the model has added loss terms
        ctx.equal("n_pieces", len(got), 4 if case["added"] else 3)
        if len(got) >= 3:
            if ctx.close("piece.log_likelihood", got[0], VO.best_of(got[0], cands + alt), rtol=1e-10, atol=tol_ll, scale=1.0) and alt:
                ctx.close("normaliser", got[0], VO.best_of(got[0], cands), rtol=1e-10, atol=tol_ll, scale=1.0, cls=f"gamma|{l}")
            _close_b(ctx, "piece.kl", got[1], w_kl, tol_kl + 1e-13)
            _close_b(ctx, "piece.log_prior", got[2], w_prior, tol_rest)
        if len(got) == 4:
            _close_b(ctx, "piece.added_loss", got[3], w_added, tol_rest)
    ctx.set_nontrivial(B < N and beta != 1.0 and VM.q_is_nontrivial(m, Sq))
    ctx.label(f"obj={objective}", f"lik={l}", f"strategy={strat}", f"dist={dist}", f"mode={case['mode']}",
              f"B{'<' if B < N else ('=' if B == N else '>')}N", f"B{'<' if B < n else '='}n", f"beta{'=' if beta == 1.0 else '!='}1",
              f"S0{'!=' if VM.q_is_nontrivial(m, Sq) else '='}I", f"priors={min(npri, 3)}", f"added={len(case['added'])}",
              f"combine={case['combine']}", f"reassigned_beta_N={bool(case.get('reassign'))}", f"batch={'+'.join(k for k in ('zb', 'vb', 'mb', 'xb', 'yb') if bp[k]) or 'none'}",
              *([f"gamma={'1.03' if case['gamma'] == 1.03 else 'other'}"] if objective == "gamma" else []))


def _close_b(ctx, name, got, want, atol):
    """pieces that do not depend on a batch dimension may come back without it: compare after broadcasting"""
    try:
        bs = torch.broadcast_shapes(got.shape, want.shape)
    except RuntimeError:
        return ctx.close(name, got, want, rtol=1e-10, atol=atol, scale=1.0)
    return ctx.close(name, got.expand(bs), want.expand(bs), rtol=1e-10, atol=atol, scale=1.0)


def build_objective_rejecting(ctx, case, r, gamma, lik_override, exc, match):
    with ctx.observing("build", reject=(exc,), reject_match=match):
        model = LossSVGP(r, ())
        lik = build_lik(lik_override or case["lik"])
        gpytorch.mlls.GammaRobustVariationalELBO(lik, model, num_data=case["N"], beta=case["beta"], gamma=gamma)


# ---------------------------------------------------------------------------------------------------
# (a'): multi-output q(f) (LMC / independent multitask strategies, MultitaskGaussianLikelihood with diagonal task noise): the first term
# is (1/B) sum over the B points of sum over the tasks - B is the number of POINTS.  q(f) and KL are the library's own (their
# correctness is C14's subject); asserted here is how the objective is put together from them.
# ---------------------------------------------------------------------------------------------------
@st.composite
def multitask_objective_case(draw):
    from pbt.props import c14

    case = draw(c14.multitask_case(draw(st.sampled_from(["lmc", "indep"]))))
    case["ti"] = None
    if case["bp"]["xb"]:
        case["bp"]["xb"] = []
        case["X"] = T(case["X"], dtype=F64).reshape(-1, case["n"], case["d"])[0].tolist()
    case["model"]["strategy"] = "Variational"
    case["mode"] = draw(st.sampled_from(["train", "train", "eval"]))
    case["init"] = "flag"
    Tn, n = case["T"], case["n"]
    g = draw(st.booleans())
    case["mt_lik"] = {"global": g or draw(st.booleans()), "task": (not g) or draw(st.booleans())}
    case["mt_lik"]["noise"] = draw(kern.pos(0.05, 2.0))
    case["mt_lik"]["task_noises"] = draw(kern.arr([Tn], kern.pos(0.05, 2.0)))
    case["y"] = draw(kern.arr([n, Tn], kern.REAL))
    case["objective"] = draw(st.sampled_from(["elbo", "elbo", "pll"]))
    case["N"] = draw(st.sampled_from([n, 7, 2 * n + 1, 50, 1000]))
    case["beta"] = draw(st.sampled_from([0.1, 0.5, 1.0, 2.0]))
    case["combine"] = draw(st.sampled_from([True, True, False]))
    if draw(st.integers(0, 3)) == 0:
        case["reassign"] = {"N0": draw(st.sampled_from([1, 3, 10, 200])), "beta0": draw(st.sampled_from([0.05, 0.3, 1.0, 4.0]))}
    return case


def run_multitask_objective(case, ctx: Ctx):
    r = case["model"]
    kind = "LMC" if "lmc" in r else "Independent"
    objective, Tn, n, N, beta = case["objective"], case["T"], case["n"], case["N"], case["beta"]
    ctx.cls = f"multitask|{objective}|{kind}|T{Tn}|{case['layout']}|{case['mode']}"
    X, y = T(case["X"], dtype=F64), T(case["y"], dtype=F64)
    m, Sq = VM.q_tensors(case["q"])
    blk = VO.prior_blocks(r["kernel"], r["mean"], r["Z"], X, jit_of(r["jitter"]), case["bp"]["vb"])
    if blk.kappa > 1e8:
        raise Discard("ill-conditioned Kzz (kappa > 1e8)")
    ml = case["mt_lik"]
    with ctx.observing("build"):
        model = VM.RecipeSVGP(r)
        VM.set_q(VM.base_strategy(model), VO.encode(r["dist"], m, Sq), mark=True)
        lik = gpytorch.likelihoods.MultitaskGaussianLikelihood(num_tasks=Tn, rank=0, has_global_noise=ml["global"], has_task_noise=ml["task"])
        if ml["global"]:
            lik.noise = T([ml["noise"]], dtype=F64)
        if ml["task"]:
            lik.task_noises = T(ml["task_noises"], dtype=F64)
        train = case["mode"] == "train"
        model.train(train)
        lik.train(train)
        if case.get("reassign"):
            mll = OBJ_CLS[objective](lik, model, num_data=case["reassign"]["N0"], beta=case["reassign"]["beta0"], combine_terms=case["combine"])
            mll.beta, mll.num_data = beta, N
        else:
            mll = OBJ_CLS[objective](lik, model, num_data=N, beta=beta, combine_terms=case["combine"])
    with ctx.observing("objective"):
        out = model(X)
        got = mll(out, y)
        got = got.detach().clone() if case["combine"] else tuple(g.detach().clone() for g in got)
        qm, qv = out.mean.detach(), out.variance.detach()
        kl = model.variational_strategy.kl_divergence().detach()
    if not ctx.check("q(f).event_shape", tuple(qm.shape[-2:]) == (n, Tn), f"q(f) mean has shape {tuple(qm.shape)}, expected (..., {n}, {Tn})", kind="shape"):
        return
    s_t = (T(ml["task_noises"], dtype=F64) if ml["task"] else torch.zeros(Tn, dtype=F64)) + (ml["noise"] if ml["global"] else 0.0)
    if objective == "elbo":
        terms = -0.5 * (((y - qm) ** 2 + qv) / s_t + torch.log(s_t) + LOG2PI)
    else:
        terms = -0.5 * ((y - qm) ** 2 / (qv + s_t) + torch.log(qv + s_t) + LOG2PI)
    first = terms.sum((-1, -2)) / n
    w_kl = kl * (beta / N)
    tol = 1e-10 * (1.0 + float(first.abs().max()) + float(w_kl.abs().max()))
    if case["combine"]:
        _close_b(ctx, "value", got, first - w_kl, tol)
    else:
        ctx.equal("n_pieces", len(got), 3)
        if len(got) >= 3:
            _close_b(ctx, "piece.log_likelihood", got[0], first, tol)
            _close_b(ctx, "piece.kl", got[1], w_kl, tol)
            _close_b(ctx, "piece.log_prior", got[2], torch.zeros(()), 1e-12)
    ctx.set_nontrivial(Tn >= 2 and n >= 2 and n != N and VM.q_is_nontrivial(m, Sq))
    ctx.label(f"obj={objective}", f"multitask={kind}", f"tasks={Tn}", f"layout={case['layout']}", f"mode={case['mode']}",
              f"reassigned_beta_N={bool(case.get('reassign'))}", f"combine={case['combine']}", f"noise={'global+task' if ml['global'] and ml['task'] else ('global' if ml['global'] else 'task')}")


# ---------------------------------------------------------------------------------------------------
# regression oracles: exact log marginal, analytic optimum q*, Titsias' bound
# ---------------------------------------------------------------------------------------------------
def log_mvn(y, mean, cov):
    n = y.shape[-1]
    r = y - mean
    return -0.5 * ((r * torch.linalg.solve(cov, r.unsqueeze(-1)).squeeze(-1)).sum(-1) + torch.linalg.slogdet(cov)[1] + n * LOG2PI)


def optimum(blk, y, sdiag, whitened):
    """argmax_q of sum_i E_q log N(y_i; f_i, s_i) - KL(q(u) || p(u)),  p(u) = N(mz, Kzz~):
    Sigma = (Kzz~ + Kzx D^-1 Kxz)^-1,  m* = mz + Kzz~ Sigma Kzx D^-1 (y - mx),  S* = Kzz~ Sigma Kzz~;
    in whitened coordinates (u = mz + L e, A = L^-1 Kzx):  S*_w = (I + A D^-1 A^T)^-1,  m*_w = S*_w A D^-1 (y - mx)"""
    lam = 1.0 / sdiag
    r = y - blk.mx
    if whitened:
        L = torch.linalg.cholesky(blk.Kzz)
        A = torch.linalg.solve_triangular(L, VO.mT(blk.Kxz), upper=False)
        P = torch.eye(A.shape[-2], dtype=F64) + (A * lam) @ VO.mT(A)
        S = torch.linalg.inv(P)
        S = 0.5 * (S + VO.mT(S))
        return VO.mv(S, VO.mv(A, lam * r)), S, P
    Kzx = VO.mT(blk.Kxz)
    Sig = torch.linalg.inv(blk.Kzz + (Kzx * lam) @ blk.Kxz)
    S = blk.Kzz @ Sig @ blk.Kzz
    S = 0.5 * (S + VO.mT(S))
    return blk.mz + VO.mv(blk.Kzz @ Sig @ Kzx, lam * r), S, None


def titsias(blk, y, sdiag, extra_diag=0.0):
    """log N(y; mx, Q + D) - 1/2 tr(D^-1 (Kxx + extra_diag I - Q)),  Q = Kxz Kzz~^-1 Kzx"""
    Q = blk.Kxz @ torch.linalg.solve(blk.Kzz, VO.mT(blk.Kxz))
    Q = 0.5 * (Q + VO.mT(Q))
    tr = ((blk.Kxx.diagonal(dim1=-1, dim2=-2) + extra_diag - Q.diagonal(dim1=-1, dim2=-2)) / sdiag).sum(-1)
    return log_mvn(y, blk.mx, Q + torch.diag_embed(sdiag)) - 0.5 * tr


def perturbed(opt, p):
    """q* moved by eps: mean + eps dm x scale, Cholesky factor L* (I + eps tril(dL))"""
    ms, Ss = opt[0], opt[1]
    Ls = torch.linalg.cholesky(Ss)
    mp = ms + p["eps"] * T(p["dm"], dtype=F64) * scale_of(ms)
    Lp = Ls @ (torch.eye(Ls.shape[-1], dtype=F64) + p["eps"] * T(p["dL"], dtype=F64).tril())
    return mp, Lp @ VO.mT(Lp)


def regression_setup(case):
    r = case["model"]
    X = T(case["X"], dtype=F64)
    y = T(case["y"], dtype=F64)
    jit = jit_of(r["jitter"])
    blk = VO.prior_blocks(r["kernel"], r["mean"], r["Z"], X, jit, [])
    if blk.kappa > 1e8:
        raise Discard("ill-conditioned Kzz (kappa > 1e8)")
    if r["strategy"] == "Unwhitened" and is_shortcut(X, r["Z"]):
        raise Discard("x == Z takes the unwhitened strategy's shortcut (covered in C14)")
    sdiag = noise_vector(case["lik"], list(range(case["n"])))
    return r, X, y, jit, blk, sdiag


def n_elbo(ctx, case, r, dist, m, S, X, y, N, beta, name):
    """N x VariationalELBO of the model with q(u) = N(m, S) (the strategy's own coordinates) on the full data"""
    model, lik, mll = build_objective(ctx, case, dict(r, dist=dist), VO.encode(dist, m, S), "elbo", N, beta)
    with ctx.observing(name):
        return float(N * mll(model(X), y, **call_kwargs(case, list(range(case["n"])))))


def numeric_slack(blk, r, y, sdiag, m, S, X):
    """absolute accuracy of N x ELBO: the q(f) tolerance amplified by |y - mean| / noise, summed over the data (as in
    objective.definition), plus 1e-10 relative"""
    tq = qf_tol(max(blk.kappa, VO.cond(S)), r["kernel"], min_gap(X, T(r["Z"], dtype=F64)))
    sc = scale_of(blk.Kxx, blk.mx, y, m, S)
    return tq * sc * float((y - blk.mx).abs().max() + sc + 1.0) / float(sdiag.min()) * y.shape[-1] + tq * sc * sc


# ---------------------------------------------------------------------------------------------------
# (c) N ELBO(q) <= exact log marginal likelihood
# ---------------------------------------------------------------------------------------------------
def run_lower(case, ctx: Ctx):
    r, X, y, jit, blk, sdiag = regression_setup(case)
    strat, dist, n = r["strategy"], r["dist"], case["n"]
    ctx.cls = f"{case['lik']['l']}|{strat}|{dist}|{case['mode']}"
    if case.get("perturbations"):
        m, Sq = perturbed(optimum(blk, y, sdiag, strat != "Unwhitened"), case["perturbations"][0])
        if VO.cond(Sq) > 1e8:
            raise Discard("ill-conditioned optimal covariance (cond > 1e8)")
    else:
        m, Sq = VM.q_tensors(case["q"])
    m, Sq = VO.representable(dist, m, Sq)
    logml = float(log_mvn(y, blk.mx, blk.Kxx + torch.diag_embed(sdiag)))
    got = n_elbo(ctx, case, r, dist, m, Sq, X, y, n, case["beta"], "elbo")
    # slack (DESIGN): 1e-8 (1 + |log ML|) + n jitter / noise (the jitter in Kzz~ / K_xx perturbs the model by that much) + numerics
    slack = 1e-8 * (1.0 + abs(logml)) + n * jit / float(sdiag.min()) + numeric_slack(blk, r, y, sdiag, m, Sq, X)
    ctx.check("elbo<=logml", got <= logml + slack, f"N*ELBO = {got:.12g} > log N(y; m, K + D) = {logml:.12g} (slack {slack:.3g})", kind="value")
    gap = logml - got
    ctx.set_nontrivial(VM.q_is_nontrivial(m, Sq) and n >= 2)
    ctx.label(f"lik={case['lik']['l']}", f"strategy={strat}", f"dist={dist}", f"mode={case['mode']}", f"beta={case['beta']:g}",
              f"gap={'<1e-3' if gap < 1e-3 else ('<1' if gap < 1 else ('<10' if gap < 10 else '>=10'))}",
              f"q={'near-optimal' if case.get('perturbations') else 'free'}", f"Z{'=' if case['X'] == r['Z'] else '!='}X", f"S0{'!=' if VM.q_is_nontrivial(m, Sq) else '='}I")


# ---------------------------------------------------------------------------------------------------
# (d) collapsed bound
# ---------------------------------------------------------------------------------------------------
def run_collapsed(case, ctx: Ctx):
    r, X, y, jit, blk, sdiag = regression_setup(case)
    strat, dist, n, M = r["strategy"], r["dist"], case["n"], case["M"]
    whitened = strat != "Unwhitened"
    ctx.cls = f"{case['lik']['l']}|{strat}|{dist}|{case['mode']}"
    ms, Ss, _ = optimum(blk, y, sdiag, whitened)
    if VO.cond(Ss) > 1e8:
        raise Discard("ill-conditioned optimal covariance (cond > 1e8)")
    # the strategy adds jitter I to K_xx (whitened) or not: both accepted (C14) - Titsias' bound with either trace term
    ks = (0, 1) if whitened else (0,)
    tits = [float(titsias(blk, y, sdiag, k * jit)) for k in ks]
    logml = float(log_mvn(y, blk.mx, blk.Kxx + torch.diag_embed(sdiag)))
    slack = numeric_slack(blk, r, y, sdiag, ms, Ss, X)
    tol = 1e-9 * (1.0 + abs(tits[0])) + slack

    def nearest(v, cs):
        return min(cs, key=lambda c: abs(c - v))

    e_star = n_elbo(ctx, case, r, dist, ms, Ss, X, y, n, 1.0, "elbo(q*)")
    ctx.check("elbo(q*)=titsias", abs(e_star - nearest(e_star, tits)) <= tol,
              f"N*ELBO(q*) = {e_star:.12g}, Titsias' bound = {nearest(e_star, tits):.12g} (tol {tol:.3g})", kind="value")
    ctx.check("titsias<=logml", tits[0] <= logml + 1e-8 * (1.0 + abs(logml)) + n * jit / float(sdiag.min()),
              f"Titsias {tits[0]:.12g} > log ML {logml:.12g}", kind="value")
    for j, p in enumerate(case["perturbations"]):
        eps = p["eps"]
        mp, Sp = perturbed((ms, Ss), p)
        if VO.cond(Sp) > 1e8:
            continue
        mp_r, Sp_r = VO.representable(dist, mp, Sp)
        e_p = n_elbo(ctx, case, r, dist, mp, Sp, X, y, n, 1.0, f"elbo(q*+d{j})")
        tol_p = 1e-9 * (1.0 + abs(e_p)) + numeric_slack(blk, r, y, sdiag, mp_r, Sp_r, X)
        ctx.check("perturbed<=optimum", e_p <= e_star + tol_p + tol,
                  f"eps={eps:g}: N*ELBO(q* + d) = {e_p:.12g} > N*ELBO(q*) = {e_star:.12g}", kind="value")
        # conjugacy: N ELBO(q) = Titsias - KL(q || q*) exactly, for every q
        want = [t - float(VO.kl_mvn(mp_r, Sp_r, ms, Ss)) for t in tits]
        tol_g = (tol_p + tol) * max(1.0, VO.cond(Ss) ** 0.5)
        ctx.check("gap=KL(q||q*)", abs(e_p - nearest(e_p, want)) <= tol_g,
                  f"eps={eps:g}: N*ELBO(q) = {e_p:.12g}, Titsias - KL(q||q*) = {nearest(e_p, want):.12g}", kind="value")
        ctx.check("perturbed<=logml", e_p <= logml + tol_p + 1e-8 * (1.0 + abs(logml)) + n * jit / float(sdiag.min()),
                  f"N*ELBO(q) = {e_p:.12g} > log ML = {logml:.12g}", kind="value")
    ctx.set_nontrivial(n >= 2 and M >= 2)
    ctx.label(f"lik={case['lik']['l']}", f"strategy={strat}", f"dist={dist}", f"mode={case['mode']}", f"jitter={r['jitter']:g}",
              f"n{'>' if n > M else ('=' if n == M else '<')}M", *{f"eps={p['eps']:g}" for p in case["perturbations"]})


# ---------------------------------------------------------------------------------------------------
# (e) one natural-gradient step
# ---------------------------------------------------------------------------------------------------
def run_ngd(case, ctx: Ctx):
    r, X, y, jit, blk_full, sdiag_full = regression_setup(case)
    strat, M = r["strategy"], case["M"]
    whitened = strat != "Unwhitened"
    idx, N, beta, lr = case["idx"], case["N"], case["beta"], case["lr"]
    B = len(idx)
    exact = lr == 1.0 and beta == 1.0
    ctx.cls = f"{case['lik']['l']}|{strat}|{'lr=beta=1' if exact else 'general'}"
    Xb, yb = X[idx], y[idx]
    if not whitened and is_shortcut(Xb, r["Z"]):
        raise Discard("x == Z takes the unwhitened strategy's shortcut (covered in C14)")
    blk = VO.prior_blocks(r["kernel"], r["mean"], r["Z"], Xb, jit, [])
    sdiag = sdiag_full[idx]
    m0, S0 = VM.q_tensors(case["q"])
    kS = VO.cond(S0)
    # natural parameters theta = (S^-1 m, -1/2 S^-1); expectation parameters (m, S + m m^T).  The objective is
    # (1/B) sum_i E log N(y_i; f_i, s_i) - (beta/N) KL; with f_i = c_i + a_i^T u its data term is linear in the expectation
    # parameters with coefficients theta_lik = (sum_i a_i r_i / s_i, -1/2 sum_i a_i a_i^T / s_i), and grad KL = theta - theta_prior.
    P0 = torch.linalg.inv(S0)
    th0 = (VO.mv(P0, m0), -0.5 * P0)
    lam = 1.0 / sdiag
    if whitened:
        L = torch.linalg.cholesky(blk.Kzz)
        A = torch.linalg.solve_triangular(L, VO.mT(blk.Kxz), upper=False)  # (M, B): f_i = mx_i + a_i^T e
        res = yb - blk.mx
        thp = (torch.zeros(M, dtype=F64), -0.5 * torch.eye(M, dtype=F64))
    else:
        A = torch.linalg.solve(blk.Kzz, VO.mT(blk.Kxz))  # f_i = mx_i + a_i^T (u - mz)
        res = yb - blk.mx + VO.mv(VO.mT(A), blk.mz)
        Pp = torch.linalg.inv(blk.Kzz)
        Pp = 0.5 * (Pp + VO.mT(Pp))
        thp = (VO.mv(Pp, blk.mz), -0.5 * Pp)
    thl = (VO.mv(A, lam * res), -0.5 * (A * lam) @ VO.mT(A))
    want = tuple(t0 + lr * ((N / B) * tl - beta * (t0 - tp)) for t0, tl, tp in zip(th0, thl, thp))

    case_ngd = dict(case, added=None)
    model, lik, mll = build_objective(ctx, case_ngd, dict(r, dist="Natural"), VO.encode("Natural", m0, S0), "elbo", N, beta)
    with ctx.observing("ngd_step"):
        opt = gpytorch.optim.NGD(model.variational_parameters(), num_data=N, lr=lr)
        opt.zero_grad()
        loss = -mll(model(Xb), yb, **call_kwargs(case, idx))
        (loss.sum() if loss.dim() else loss).backward()
        opt.step()
        vd = VM.base_strategy(model)._variational_distribution
        g1, g2 = vd.natural_vec.detach().clone(), vd.natural_mat.detach().clone()
    # tolerance: 1e-8 (DESIGN; the probe sits at 5e-16) scaled by the conditioning of the quantities inverted on the way
    kap = max(kS, blk.kappa if not whitened else 1.0) * max(1.0, blk.kappa ** 0.5)
    tol = min(max(1e3 * EPS * kap, 1e-10), 1e-5)
    floor = kernel_floor(r["kernel"], min_gap(Xb, T(r["Z"], dtype=F64)))
    tol = max(tol, floor * max(1.0, blk.kappa ** 0.5))
    sc = scale_of(want[0], want[1], th0[0], th0[1], (N / B) * thl[0], (N / B) * thl[1])
    ctx.close("natural_vec", g1, want[0], rtol=tol, atol=tol, scale=sc)
    ctx.close("natural_mat", g2, want[1], rtol=tol, atol=tol, scale=sc)
    if exact:
        # lr = beta = 1: the step lands on the optimum for the (N/B)-times replicated minibatch, i.e. noise s_i B / N; for
        # B = N = n this is q*, the maximiser of the ELBO (collapsed bound).  Decode (m, S) from the library's parameters.
        ms, Ss, _ = optimum(blk, yb, sdiag * B / N, whitened)
        P1 = -2.0 * g2
        S1 = torch.linalg.inv(0.5 * (P1 + VO.mT(P1)))
        m1 = VO.mv(S1, g1)
        # (theta_0 cancels in the step: the decoded result carries the rounding of theta_0 relative to theta_1)
        kk = max(VO.cond(Ss), kap) * max(1.0, sc / scale_of(want[0], want[1]))
        t2 = max(min(max(1e3 * EPS * kk, 1e-8), 1e-5), floor * max(1.0, blk.kappa ** 0.5))
        sc2 = scale_of(ms, Ss)
        ctx.close("decoded_mean=m*", m1, ms.expand(m1.shape), rtol=t2, atol=t2, scale=sc2)
        ctx.close("decoded_cov=S*", S1, Ss.expand(S1.shape), rtol=t2, atol=t2, scale=sc2)
    ctx.set_nontrivial(VM.q_is_nontrivial(m0, S0) and M >= 2)
    ctx.label(f"lik={case['lik']['l']}", f"strategy={strat}", f"cell={'lr=beta=1' if exact else 'general'}", f"lr={lr:g}", f"beta={beta:g}",
              f"B{'<' if B < N else ('=' if B == N else '>')}N", f"S0{'!=' if VM.q_is_nontrivial(m0, S0) else '='}I", f"ngd.vb={case['bp']['vb']}")


# ---------------------------------------------------------------------------------------------------
RULE = ("q(u) generated as (mean, SPD covariance) and encoded into {Cholesky, MeanField, Natural, TrilNatural}; strategies "
        "{Variational (whitened), Unwhitened}; inducing sets M <= 5, data pools n <= 6 in d <= 2, minibatch index sets B <= n, "
        "declared num_data N in {n, B, 2n+1, 50, 1000}, beta in {0.1 ... 2}, priors on lengthscale / outputscale / mean constant / "
        "noise / deg_free through the constructors' *_prior arguments, 0-2 added loss terms, combine_terms True / False, "
        "likelihoods {Gaussian, FixedNoise (noise= keyword), Bernoulli, Student-t}, objectives {VariationalELBO, "
        "PredictiveLogLikelihood, GammaRobustVariationalELBO}; small batch shapes on q / inducing points / hyper-parameters / data. "
        "Non-trivial: B < N, beta != 1 and S0 not a multiple of I with m0 != 0 (definition); q non-trivial and n >= 2 (bound); "
        "n, M >= 2 (collapsed); S0 non-trivial and M >= 2 (natural gradient); distinct = distinct canonical case.")

GAMMA_NOTE = (
    "GammaRobustVariationalELBO: the docstring's formula cannot be taken literally (it carries the minus sign of the *loss* although the "
    "objective is maximised, conditions on u where the implementation and the cited papers use f_i, and divides by int p^gamma dy to the "
    "power 1).  The check uses the gamma-divergence loss of the cited papers (Knoblauch 2019; Knoblauch, Jewson, Damoulas 2019), sign "
    "flipped: first term (1/B) sum_i gamma/(gamma-1) E_{q(f_i)}[p(y_i|f_i)^(gamma-1)] / (int p(y|f_i)^gamma dy)^((gamma-1)/gamma) - the only "
    "normalisation under which the loss is invariant to rescaling p, which defines the gamma-divergence.  Assertion `value` / "
    "`piece.log_likelihood` accepts the normaliser divided (cited) or multiplied and judges everything else (B, N, beta, priors, added "
    "losses, the Gaussian integral); assertion `normaliser` then demands the cited direction."
)

ASSUMPTIONS = [
    "float64, CPU; prior means / covariances from the reference formulas of pbt.kern; cases with cond(Kzz + jitter I) > 1e8 are discarded and counted",
    "the strategy's jitter_val is part of the model (Kzz~ = Kzz + jitter I, None = 1e-6); the whitened strategy's K_xx may or may not carry +jitter: "
    "the closer of the two resulting objective values is asserted (as in C14)",
    "Delta variational distributions are excluded (no KL(q(u) || p(u)) exists for a point mass); unwhitened strategy in training mode (how objectives use it)",
    "Bernoulli / Student-t first terms against scipy.integrate.quad of the documented densities at the accuracy of the documented default "
    "20-node Gauss-Hermite rule (tiers 1e-7 / 1e-4 / 1e-3 by sd(q(f_i)) / width, from C13's calibration); wider q(f_i) are discarded and counted",
    "with registered priors the model has no batch shape (the objective adds the sum over all prior entries to every batch element)",
    GAMMA_NOTE,
    "lower bound slack: 1e-8 (1 + |log ML|) + n jitter / min noise + the numerical accuracy of N ELBO (q(f) tolerance amplified by |y - mean| / noise)",
    "natural-gradient step asserted in natural parameters for general (lr, beta) from the definition theta - lr grad_eta(loss) N; the cell lr = beta = 1 "
    "additionally decodes (m, S) and compares with the analytic optimum (for B = N = n the collapsed-bound maximiser)",
]

SPEC = PropertySpec(
    pid="C15",
    rule=RULE,
    assumptions=ASSUMPTIONS,
    subchecks=[
        Subcheck("elbo.definition", run_objective, strategy=lambda: objective_case("elbo"), quick=2400, thorough=60000, min_shard=50, max_shards=8),
        Subcheck("pll.definition", run_objective, strategy=lambda: objective_case("pll"), quick=1600, thorough=40000, min_shard=50, max_shards=8),
        Subcheck("elbo.multitask", run_multitask_objective, strategy=multitask_objective_case, quick=800, thorough=20000, min_shard=40, max_shards=8),
        Subcheck("gamma_robust.definition", run_objective, strategy=lambda: objective_case("gamma"), quick=800, thorough=20000, min_shard=40, max_shards=8),
        Subcheck("bound.lower", run_lower, strategy=lambda: regression_case(VO.GAUSSIAN_DISTS, [1e-10], lower=True), quick=1200, thorough=30000, min_shard=40, max_shards=8),
        Subcheck("bound.collapsed", run_collapsed,
                 strategy=lambda: regression_case(["Cholesky", "Cholesky", "Natural", "TrilNatural"], [1e-10, 1e-8, 1e-6], perturb=True),
                 quick=800, thorough=20000, min_shard=40, max_shards=8),
        Subcheck("ngd.one_step", run_ngd, strategy=lambda: regression_case(["Natural"], [1e-10, 1e-8, 1e-6, None], ngd=True),
                 quick=1200, thorough=30000, min_shard=40, max_shards=8),
    ],
)

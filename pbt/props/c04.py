"""C04 - fantasy models equal conditioning from scratch, leave the source untouched, and carry correct solves."""
from __future__ import annotations

import torch
from hypothesis import strategies as st

import gpytorch
from gpytorch import settings as S

from pbt import gpmodel as G
from pbt import kern
from pbt import mtmodel as MT
from pbt.core import Ctx, Discard, PropertySpec, Reject, Subcheck

T = torch.tensor


@st.composite
def fantasy_case(draw):
    case = draw(G.exact_case(depth=1, nmax=5, nsmax=3, test_batches=False))
    mb = case["mb"]
    # train inputs carry the model batch (the documented shapes b1 x ... x bk x n x d), or none at all for unbatched models
    if mb and not case["xb"]:
        case["xb"] = list(mb)
        case["X"] = draw(kern.points(case["n"], case["d"], mb))
        if case["lik"]["l"] == "FixedNoise":
            case["lik"]["noise"] = draw(kern.arr(list(mb) + [case["n"]], kern.pos(0.02, 2.0)))
    elif case["lik"]["l"] == "FixedNoise" and mb:
        case["lik"]["noise"] = draw(kern.arr(list(mb) + [case["n"]], kern.pos(0.02, 2.0)))
    fshape = draw(st.sampled_from([[], [], [3], [2]]))
    steps = []
    for _ in range(draw(st.integers(1, 3))):
        m = draw(st.integers(1, 2))
        shared = draw(st.booleans()) if fshape else True
        ib = (list(mb) if shared else fshape + list(mb))
        step = {"m": m, "shared": shared, "Xf": draw(kern.points(m, case["d"], ib)), "yf": draw(kern.arr(fshape + list(mb) + [m], kern.REAL))}
        if case["lik"]["l"] == "FixedNoise":
            step["noise"] = draw(kern.arr(ib + [m], kern.pos(0.02, 2.0)))
        steps.append(step)
    case["fshape"] = fshape
    case["steps"] = steps
    # missing observations in the SOURCE model, handled by observation_nan_policy while fantasising and predicting
    case["nan_policy"] = None
    if not mb and case["n"] >= 2 and draw(st.integers(0, 2)) == 0:
        miss = draw(st.lists(st.booleans(), min_size=case["n"], max_size=case["n"]))
        if all(miss):
            miss[0] = False
        if any(miss):
            case["missing"] = miss
            case["nan_policy"] = draw(st.sampled_from(["mask", "fill"]))
    case["fpv"] = draw(st.booleans())
    case["detach"] = draw(st.booleans())
    case["Xs"] = draw(kern.points(case["ns"], case["d"], mb))
    if case["lik"]["l"] == "FixedNoise":
        case["test_noise"] = None
    return case


def _b(got, want):
    """(got, want) with the lower-rank one expanded: carried caches may rely on broadcasting over fantasy batches"""
    try:
        if got.dim() < want.dim():
            got = got.expand(want.shape)
        elif want.dim() < got.dim():
            want = want.expand(got.shape)
    except RuntimeError:
        pass
    return got, want


def _state(model):
    return {k: v.clone() for k, v in model.state_dict().items()}


def _cache_snapshot(strat):
    out = {}
    for k, v in getattr(strat, "_memoize_cache", {}).items():
        if isinstance(v, torch.Tensor):
            out[k] = v.clone()
        else:
            out[k] = None
    return out


def run_fantasy(case, ctx: Ctx):
    lk = case["lik"]["l"] + ("+" if case["lik"].get("learn") else "")
    ctx.cls = f"{lk}|mb{case['mb']}|f{case['fshape']}|steps{len(case['steps'])}|fpv{int(case['fpv'])}|det{int(case['detach'])}"
    X, y, Xs = T(case["X"]), T(case["y"]), T(case["Xs"])
    n, d = case["n"], case["d"]
    mb = torch.Size(case["mb"])
    policy = case.get("nan_policy")
    miss0 = torch.tensor(case["missing"], dtype=torch.bool) if policy else None
    with ctx.observing("build"):
        model, lik = G.build_exact(case)
        if policy:
            model.set_train_data(targets=torch.where(miss0, torch.full_like(y, float("nan")), y), strict=False)
        model.eval()
        lik.eval()
    if policy:
        ctx.cls += f"|nan:{policy}"
    # oracle bookkeeping: current data and noise diagonal
    cur_X, cur_y = X, y
    cur_noise = G.ref_noise_diag(case["lik"], n, mb)
    second = T(case["lik"]["second_noise"]) if case["lik"].get("learn") else None
    moved = False
    with S.fast_pred_var(case["fpv"]), S.detach_test_caches(case["detach"]), S.observation_nan_policy(policy or "ignore"), torch.no_grad():
        with ctx.observing("source.predict"):
            before = model(Xs)
            bm, bc = before.mean.clone(), before.covariance_matrix.clone()
            sd_before = _state(model)
            cache_before = _cache_snapshot(model.prediction_strategy)
            strat_before = model.prediction_strategy
        fm = model
        prev_mean = bm
        for si, step in enumerate(case["steps"]):
            Xf, yf = T(step["Xf"]), T(step["yf"])
            kw = {}
            if "noise" in step:
                kw["noise"] = T(step["noise"])
            with ctx.observing("get_fantasy_model"):
                fm = fm.get_fantasy_model(Xf, yf, **kw)
            m = step["m"]
            bs = torch.broadcast_shapes(cur_X.shape[:-2], Xf.shape[:-2], yf.shape[:-1])
            cur_X = torch.cat([cur_X.expand(*bs, *cur_X.shape[-2:]), Xf.expand(*bs, m, d)], -2)
            cur_y = torch.cat([cur_y.expand(*bs, cur_y.shape[-1]), yf.expand(*bs, m)], -1)
            if "noise" in step:
                new_noise = T(step["noise"]) + (second if second is not None else 0.0)
            else:
                new_noise = T(case["lik"]["noise"]).expand(*mb, 1).expand(*mb, m)
            cur_noise = torch.cat([cur_noise.expand(*bs, cur_noise.shape[-1]), new_noise.expand(*bs, m)], -1)
            # dense conditional on the concatenated data with the same hyper-parameters (the model's own kernel, eager)
            with ctx.observing("own_prior"):
                Kxx, Kxs, Kss, mx, ms = G.own_prior_blocks(model, cur_X, Xs)
            if policy:
                # delete the missing source observations (fantasy observations are complete)
                keep = torch.cat([~miss0, torch.ones(cur_y.shape[-1] - n, dtype=torch.bool)])
                idx = torch.nonzero(keep).reshape(-1)
                mean_w, cov_w, kappa, A = G.dense_conditional(Kxx[..., idx, :][..., :, idx], Kxs[..., idx, :], Kss, mx[..., idx], ms,
                                                              cur_noise[..., idx], cur_y[..., idx])
            else:
                mean_w, cov_w, kappa, A = G.dense_conditional(Kxx, Kxs, Kss, mx, ms, cur_noise, cur_y)
            tol = max(G.chol_tol(kappa, kern.smooth_at_zero(case["kernel"])), 1e-9)
            scale = max(1.0, float(cov_w.abs().max()), float(mean_w.abs().max()))
            with ctx.observing("fantasy.predict"):
                out = fm(Xs)
                gm, gc = out.mean, out.covariance_matrix
            ns = case["ns"]
            ctx.close(f"fantasy.mean", gm, mean_w.expand(*bs, ns), rtol=tol, atol=tol, scale=scale)
            ctx.close(f"fantasy.cov", gc, cov_w.expand(*bs, ns, ns), rtol=tol, atol=tol, scale=scale)
            if float((gm - prev_mean).abs().max()) > 1e-4:
                moved = True
            prev_mean = gm
            # data the fantasy model holds
            with ctx.observing("fantasy.data"):
                fx, fy = fm.train_inputs[0], fm.train_targets
            ctx.close("fantasy.train_inputs", *_b(fx, cur_X), rtol=0, atol=0)
            if policy:
                continue  # targets contain NaN and the carried solves live on the observed subset: judged through the predictions only
            ctx.close("fantasy.train_targets", fy, cur_y, rtol=0, atol=0)
            # carried solves
            with ctx.observing("fantasy.caches"):
                strat = fm.prediction_strategy
                caches = dict(strat._memoize_cache)
                r = (cur_y - mx).expand(*bs, cur_y.shape[-1])
                alpha = torch.linalg.solve(A, r.unsqueeze(-1)).squeeze(-1)
                Ainv = torch.linalg.inv(A)
                for key, val in caches.items():
                    name = key[0] if isinstance(key, tuple) else key
                    if name == "mean_cache" and isinstance(val, torch.Tensor) and val.shape[-1] == alpha.shape[-1]:
                        ctx.close("carried.mean_cache", *_b(val, alpha), rtol=tol * 10, atol=tol * 10,
                                  scale=max(1.0, float(alpha.abs().max())))
                    if name == "covar_cache" and isinstance(val, torch.Tensor) and val.shape[-2] == A.shape[-1]:
                        got = val @ val.transpose(-1, -2)
                        ctx.close("carried.covar_cache", *_b(got, Ainv), rtol=tol * 10, atol=tol * 10,
                                  scale=max(1.0, float(Ainv.abs().max())))
                ltt = strat.lik_train_train_covar
                root = ltt.root_decomposition().root.to_dense()
                got = root @ root.transpose(-1, -2)
                ctx.close("carried.root", *_b(got, A), rtol=tol * 10, atol=tol * 10, scale=max(1.0, float(A.abs().max())))
                iroot = ltt.root_inv_decomposition().root.to_dense()
                got = iroot @ iroot.transpose(-1, -2)
                ctx.close("carried.inv_root", *_b(got, Ainv), rtol=tol * 10, atol=tol * 10,
                          scale=max(1.0, float(Ainv.abs().max())))
        # the source is untouched
        with ctx.observing("source.after"):
            # caches and state first (a further prediction would silently rebuild dropped entries)
            sd_after = _state(model)
            cache_after = _cache_snapshot(model.prediction_strategy) if model.prediction_strategy is not None else {}
            after = model(Xs)
            am, ac = after.mean, after.covariance_matrix
        ctx.check("source.same_strategy_object", model.prediction_strategy is strat_before, "the source's prediction strategy was replaced")
        ctx.check("source.prediction_bitwise", torch.equal(am, bm) and torch.equal(ac, bc), "source prediction changed after get_fantasy_model")
        ctx.check("source.state_dict", sd_after.keys() == sd_before.keys() and all(torch.equal(sd_after[k], sd_before[k]) for k in sd_before),
                  "source state_dict changed")
        src_y = torch.where(miss0, torch.full_like(y, float("nan")), y) if policy else y
        ctx.check("source.train_data", torch.equal(model.train_inputs[0], X) and torch.equal(torch.nan_to_num(model.train_targets, nan=-77.0), torch.nan_to_num(src_y, nan=-77.0)),
                  "source training data changed")
        if lk.startswith("FixedNoise"):
            ctx.check("source.fixed_noise", torch.equal(lik.noise_covar.noise, T(case["lik"]["noise"])), "source fixed noise vector changed")
        same_cache = all(k in cache_after and (cache_before[k] is None or (cache_after[k] is not None and cache_before[k].shape == cache_after[k].shape
                                                                           and torch.equal(torch.nan_to_num(cache_before[k], nan=-77.0), torch.nan_to_num(cache_after[k], nan=-77.0)))) for k in cache_before)
        ctx.check("source.caches", same_cache, "entries of the source's prediction-strategy cache changed")
    nondefault = bool(case["fshape"]) or bool(case["mb"]) or len(case["steps"]) >= 2 or lk != "Gaussian"
    ctx.set_nontrivial(moved and nondefault)
    ctx.label(f"nan_policy={policy}", f"lik={lk}", f"mb={case['mb']}", f"f={case['fshape']}", f"steps={len(case['steps'])}", f"fpv={int(case['fpv'])}", f"det={int(case['detach'])}",
              f"shared={[s['shared'] for s in case['steps']]}", *{f"leaf={l['k']}" for l in kern.leaves(case["kernel"])})


# ---------------------------------------------------------------------------------------------------
# Kronecker multitask models
# ---------------------------------------------------------------------------------------------------
@st.composite
def multitask_fantasy_case(draw):
    case = draw(MT.multitask_case(nmax=4, nsmax=2, test_batches=False))
    steps = []
    for _ in range(draw(st.integers(1, 2))):
        m = draw(st.integers(1, 3))
        steps.append({"m": m, "Xf": draw(kern.points(m, case["d"])), "yf": draw(kern.arr([m, case["t"]], kern.REAL))})
    case["steps"] = steps
    case["fpv"] = draw(st.booleans())
    case["detach"] = draw(st.booleans())
    return case


def run_multitask_fantasy(case, ctx: Ctx):
    t, n, ns, d = case["t"], case["n"], case["ns"], case["d"]
    ctx.cls = f"multitask|{MT.cell(case)}|steps{len(case['steps'])}|m{max(s['m'] for s in case['steps'])}|fpv{int(case['fpv'])}"
    X, y, Xs = T(case["X"]), T(case["y"]), T(case["Xs"])
    with ctx.observing("build"):
        model, lik = MT.build_multitask(case)
        model.eval()
        lik.eval()
    cur_X, cur_y = X, y
    with S.fast_pred_var(case["fpv"]), S.detach_test_caches(case["detach"]), torch.no_grad():
        with ctx.observing("source.predict"):
            before = model(Xs)
            bm, bc = before.mean.clone(), before.covariance_matrix.clone()
            sd_before = _state(model)
        fm = model
        for step in case["steps"]:
            Xf, yf = T(step["Xf"]), T(step["yf"])
            with ctx.observing("get_fantasy_model"):
                fm = fm.get_fantasy_model(Xf, yf)
            cur_X = torch.cat([cur_X, Xf], -2)
            cur_y = torch.cat([cur_y, yf], -2)
            with ctx.observing("own_prior"):
                Kxx, Kxs, Kss, mx, ms = G.own_prior_blocks(model, cur_X, Xs)
                mx, ms = mx.reshape(-1), ms.reshape(-1)
            mean_w, cov_w, kappa, A = G.dense_conditional(Kxx, Kxs, Kss, mx, ms, None, cur_y.reshape(-1), smat=MT.ref_noise(case, cur_X.shape[-2]))
            tol = max(G.chol_tol(kappa, kern.smooth_at_zero(case["kernel"])), 1e-9)
            scale = max(1.0, float(cov_w.abs().max()), float(mean_w.abs().max()))
            with ctx.observing("fantasy.predict"):
                out = fm(Xs)
                gm, gc = out.mean, out.covariance_matrix
            ctx.close("fantasy.mean", gm, mean_w.reshape(ns, t), rtol=tol, atol=tol, scale=scale)
            ctx.close("fantasy.cov", gc, cov_w, rtol=tol, atol=tol, scale=scale)
        with ctx.observing("source.after"):
            sd_after = _state(model)
            after = model(Xs)
        ctx.check("source.prediction_bitwise", torch.equal(after.mean, bm) and torch.equal(after.covariance_matrix, bc), "source prediction changed")
        ctx.check("source.state_dict", all(torch.equal(sd_after[k], sd_before[k]) for k in sd_before), "source state_dict changed")
        ctx.check("source.train_data", torch.equal(model.train_inputs[0], X) and torch.equal(model.train_targets, y), "source training data changed")
    ctx.set_nontrivial(True)
    ctx.label("multitask", f"mt.steps={len(case['steps'])}", f"mt.m={max(s['m'] for s in case['steps'])}", f"mt.fpv={int(case['fpv'])}", MT.cell(case))


RULE = ("exact-GP recipe (kernel trees of depth <= 1; Gaussian / fixed-noise / fixed + learned noise; model batch (), (2,), (3,)) x 1-3 successive "
        "get_fantasy_model calls (fantasy batch (), (2,), (3,); shared or per-fantasy inputs; 1-2 points each; call-time noise for fixed-noise "
        "likelihoods) x fast_pred_var x detach_test_caches. Oracle: dense conditional on the concatenated, batch-expanded data; bitwise comparison "
        "of the source before/after; dense recomputation of the carried solves. Non-trivial: a fantasy step moved the posterior mean at the probe "
        "by > 1e-4 and (fantasy batch or model batch or >= 2 steps or non-homoskedastic likelihood); distinct = distinct canonical case.")

SUBCHECKS = [
    Subcheck("fantasy.default", run_fantasy, strategy=fantasy_case, quick=700, thorough=20000, min_shard=30),
    Subcheck("fantasy.multitask", run_multitask_fantasy, strategy=multitask_fantasy_case, quick=300, thorough=8000, min_shard=30),
]

SPEC = PropertySpec(
    pid="C04",
    rule=RULE,
    assumptions=[
        "float64, CPU, Cholesky-backed (max_cholesky_size default) paths",
        "K and m are the source model's own kernel/mean (hyper-parameters are shared by the fantasy model)",
        "per-fantasy call-time noise is generated with the batch shape of the fantasy inputs (the documented form)",
        "the carried solves are read from prediction_strategy._memoize_cache and the cached root decompositions (named by the property)",
    ],
    subchecks=SUBCHECKS,
)

"""C19 - hand-written derivatives are the true derivatives.

Sub-checks (one per hand-written backward named by the property):

* ``kernel.fastpath``   RBFCovariance / MaternCovariance (nu in .5, 1.5, 2.5).  The kernel's ``forward`` selects the
  hand-written autograd.Function iff  not x1.requires_grad and not x2.requires_grad and (ard_num_dims is None or == 1)
  and not diag and not last_dim_is_batch and trace_mode.off()  (gpytorch/kernels/rbf_kernel.py, matern_kernel.py); otherwise
  plain autograd.  Per case: the default call (fast unless ARD with d > 1), the same call under ``trace_mode(True)``
  (generic), the call with inputs that require grad (generic, chosen by the library itself; also delivers d/dx1, d/dx2 -
  the fast Functions refuse input gradients, so these exist only on the generic path) and, when shapes allow,
  ``diag=True`` (generic).  Values and d<G,K>/d raw_lengthscale of every path are compared with autograd of the
  independent reference formula (pbt/kern.py, own softplus) and with each other.
* ``lncdf.generated`` / ``lncdf.grid``   LogNormalCDF.backward: branch points read from the source: z < -1 (rational
  tail), z^2 < 0.04 (series), else log(Normal.cdf).  Delivered gradient vs (i) phi/Phi from scipy, (ii) the identity
  delivered = phi(z)/exp(forward(z)) that both backward branches implement, (iii) central differences of the forward
  that never straddle a branch point.
* ``natural.grad`` / ``trilnatural.grad``   _NaturalToMuVarSqrt / _TrilNaturalToMuVarSqrt through the public
  ``variational_distribution()`` call: gradients delivered on the natural parameters equal the gradient of the same
  generated loss w.r.t. the expectation parameters (autograd of the loss re-expressed in (e1, e2), torch's own Cholesky).
* ``ciq.ngd_terms`` / ``ciq.model``   _NgdInterpTerms called directly (broadcasting batch shapes both ways) and through
  a CIQ-SVGP model with NaturalVariationalDistribution (q(f) mean / variance / KL).
* ``pred.xgrad``   d mean / d x*, d variance / d x* of exact-GP posteriors at default settings (detach_test_caches on)
  vs autograd of the dense reference conditional (elementwise) and vs a central difference of the library's own
  forward along a generated direction.
"""
from __future__ import annotations

import copy
import math

import numpy as np
import torch
from hypothesis import strategies as st

import gpytorch
from gpytorch import settings as S

from pbt import gpmodel as G
from pbt import kern
from pbt.core import Ctx, Discard, PropertySpec, Subcheck

T = torch.tensor
LATTICE = kern.LATTICE
REAL = kern.REAL
arr = kern.arr
NONZERO = st.sampled_from([-2.0, -1.5, -1.0, -0.5, 0.5, 1.0, 1.5, 2.0])


def softplus(x):
    return torch.where(x > 30, x, torch.log1p(torch.exp(torch.clamp(x, max=30))))


def inv_softplus(y):
    return y + torch.log(-torch.expm1(-y))


def sym(a):
    return (a + a.transpose(-1, -2)) / 2


def graph_has(t, needle):
    """does the autograd graph behind tensor t contain a node whose class name contains `needle`?  (observation of
    which code path produced t: torch names the node of an autograd.Function '<ClassName>Backward')"""
    seen, stack = set(), [t.grad_fn]
    while stack:
        f = stack.pop()
        if f is None or f in seen:
            continue
        seen.add(f)
        if needle in type(f).__name__:
            return True
        stack.extend(nf for nf, _ in f.next_functions)
    return False


# ===================================================================================================
# (a) RBF / Matern fast paths
# ===================================================================================================
FAST_NAMES = ["RBF", "Matern0.5", "Matern1.5", "Matern2.5"]
# (kernel batch, x1 batch, x2 batch)
BATCH_PATTERNS = [
    ([], [], []), ([], [], []), ([], [], []), ([], [2], [2]), ([], [2], []), ([], [], [2]), ([], [3, 2], [2]),
    ([2], [], []), ([2], [2], [2]), ([2], [2], []), ([2], [3, 2], [3, 2]), ([2], [3, 2], [2]),
    ([3], [3], [3]), ([2, 1], [3], [3]), ([2, 1], [2, 3], [3]),
]


@st.composite
def fastpath_case(draw):
    name = draw(st.sampled_from(FAST_NAMES))
    d = draw(st.integers(1, 3))
    kb, x1b, x2b = draw(st.sampled_from(BATCH_PATTERNS))
    ard = draw(st.booleans()) if d >= 2 else draw(st.integers(0, 2)) == 0  # ard_num_dims = 1 stays on the fast path
    D = d
    ad = None
    if draw(st.integers(0, 3)) == 0:
        D = d + draw(st.integers(1, 2))
        ad = draw(st.permutations(list(range(D))).map(lambda p: sorted(p[:d])))
    ld = d if ard else 1
    r = {"k": name, "batch": kb, "ad": ad, "d": d, "ard": ard, "p": {"lengthscale": draw(arr(kb + [1, ld], kern.pos(0.1, 5.0)))}}
    same = draw(st.integers(0, 2)) == 0
    n1 = draw(st.integers(1, 4))
    n2 = n1 if same else draw(st.integers(1, 4))
    if same:
        x2b = x1b
    X1 = T(draw(kern.points(n1, D, x1b)))
    X2 = X1 if same else T(draw(kern.points(n2, D, x2b)))
    ncoin = draw(st.sampled_from([0, 0, 1, 1, 2]))
    for _ in range(ncoin):
        i = draw(st.integers(0, n1 - 1))
        j = draw(st.integers(0, n2 - 1))
        if same:
            X1[..., j, :] = X1[..., i, :].clone()
        else:
            src = X1[..., i, :]
            if len(x1b) > len(x2b):  # take the row from the first leading batch element(s)
                src = src.reshape(-1, *src.shape[len(x1b) - len(x2b):])[0]
            X2[..., j, :] = src
    resb = list(torch.broadcast_shapes(torch.Size(kb), torch.Size(x1b), torch.Size(x2b)))
    which = "both" if same else draw(st.sampled_from(["x1", "x2", "both"]))
    return {
        "kernel": r, "same": same, "x1b": x1b, "x2b": x2b, "n1": n1, "n2": n2, "x1": X1.tolist(), "x2": None if same else X2.tolist(),
        "G": draw(arr(resb + [n1, n2], REAL)), "which": which,
    }


def run_fastpath(case, ctx: Ctx):
    r = case["kernel"]
    name, kb, ard, d = r["k"], r["batch"], r["ard"], r["d"]
    same = case["same"]
    ctx.cls = f"{name}|{'ard' if ard else 'iso'}{d}|kb{kb}|x1b{case['x1b']}|x2b{case['x2b']}|{'same' if same else 'x1x2'}"
    X1 = T(case["x1"])
    X2 = X1 if same else T(case["x2"])
    Gm = T(case["G"])
    n1, n2 = case["n1"], case["n2"]
    ls = T(r["p"]["lengthscale"])
    fn_node = "RBFCovariance" if name == "RBF" else "MaternCovariance"

    # ---- coincident rows (in the dimensions the kernel sees)
    a1 = X1[..., r["ad"]] if r["ad"] is not None else X1
    a2 = X2[..., r["ad"]] if r["ad"] is not None else X2
    sq = (a1.unsqueeze(-2) - a2.unsqueeze(-3)).pow(2).sum(-1)
    zero = sq == 0
    if same:
        offdiag = ~torch.eye(n1, dtype=torch.bool)
        ncoin = int((zero & offdiag).sum())
    else:
        ncoin = int(zero.sum())
    pos_sq = sq[sq > 0]
    near = bool((pos_sq < 1e-4).any()) if pos_sq.numel() else False

    # ---- oracle: reference formula from a raw leaf through an own softplus; autograd
    raw = inv_softplus(ls).requires_grad_(True)
    r2 = copy.deepcopy(r)
    r2["p"] = {"lengthscale": softplus(raw)}
    x1r = X1.clone().requires_grad_(True)
    x2r = x1r if same else X2.clone().requires_grad_(True)
    Kref = kern.ref_kernel(r2, x1r, x2r)
    if tuple(Kref.shape) != tuple(Gm.shape):
        Kref = Kref.expand(Gm.shape)
    # Input gradients, exclusions (pairs get upstream weight 0 in the input-gradient comparison only):
    # * Matern-1/2 is not differentiable in x where two rows coincide (|x - x'| has a kink; both sides would only agree on
    #   a convention there); pairs closer than 1e-6 are treated alike: the library clamps distances at 1e-15 and nothing
    #   in binary64 resolves the kink there;
    # * every kernel: pairs whose scaled squared distance is below 1e-10 but not 0.  The library's quadratic expansion
    #   resolves r^2 only to eps*|x/l|^2 ~ 1e-12 and clamps negative results to 0 (gradient 0), so the contribution
    #   K'(r) (x - x')/(l^2 r) <= 1e-5/l of such a pair is below its resolution (DESIGN 1.4, near-coincident rows).
    sqs = kern._sqd(a1, a2, ls).expand(Gm.shape)
    drop = (sqs > 0) & (sqs < 1e-10)
    if name == "Matern0.5":
        drop = drop | (sq < 1e-12).expand(Gm.shape)
    Gx = Gm * (~drop)
    leaves = [raw, x1r] + ([] if same else [x2r])
    want = torch.autograd.grad((Kref * Gm).sum(), leaves, retain_graph=True, allow_unused=True)
    wantx = torch.autograd.grad((Kref * Gx).sum(), leaves, allow_unused=True)
    want_raw, wantx_raw = want[0], wantx[0]
    wantx_x1 = wantx[1]
    wantx_x2 = None if same else wantx[2]
    Kref = Kref.detach()

    # tolerances (DESIGN 1.4, closed-form elementwise: rtol 1e-9, atol 1e-11*scale).  The library forms squared
    # distances by quadratic expansion of x/lengthscale, which carries eps*|x/l|^2 absolute error in r^2 (|x/l| <= 30*sqrt(3)
    # here): atol 1e-11 -> 1e-9.  Matern (kink in r at 0) on *near*-coincident, not identical, rows: atol 1e-6 (1.4).
    smooth = name == "RBF"
    rt = 1e-9
    # The same holds for zero distances that the library does not get exactly: with x1 equal to x2 the fast Function zeroes
    # the diagonal of the squared distances, the generic path (lengthscale requires grad) does not, and off-diagonal
    # duplicates are never zeroed: r = sqrt(rounding noise) ~ 1e-8 there, i.e. 1 - 1e-8 on the diagonal of Matern-1/2.
    rough = (not smooth) and (near or same or ncoin > 0)
    # the size of that rounding noise: r ~ sqrt(8 eps) |x / l| in scaled units, i.e. up to 1.5e-6 for |x / l| = 35 (lengthscale 0.1),
    # and d k / d lengthscale = (r / l) k'(r) carries another 1 / l
    lmin_ = float(ls.min())
    noise_ = math.sqrt(8 * 2.2e-16) * float(max(a1.abs().max(), a2.abs().max())) / lmin_ * math.sqrt(max(1, a1.shape[-1]))
    at = max(1e-6, 4 * noise_ * (1 + 1 / lmin_)) if rough else 1e-9
    gscale_raw = max(1.0, float(want_raw.abs().max()))

    with ctx.observing("build"):
        k = kern.build_kernel(r)

    def lib(x1, x2, Gmat, wrt, trace=False, diag=False):
        with S.trace_mode(trace):
            out = k(x1, x2, diag=diag)
            dense = out if torch.is_tensor(out) else out.to_dense()
            fast = graph_has(dense, fn_node)
            if tuple(dense.shape) != tuple(Gmat.shape):
                return dense.detach(), None, fast
            if not dense.requires_grad:  # e.g. diag=True on identical inputs: the constant 1, no dependence on anything
                return dense.detach(), [None] * (1 + len(wrt)), fast
            grads = torch.autograd.grad((dense * Gmat).sum(), [k.raw_lengthscale] + wrt, allow_unused=True)
        return dense.detach(), grads, fast

    def cmp(tag, dense, grads, Kw, graw_w, extra=()):
        ok = ctx.close(f"{tag}.value", dense, Kw, rtol=rt, atol=at)
        if grads is None or not ok:
            return
        g = grads[0] if grads[0] is not None else torch.zeros_like(k.raw_lengthscale)
        ctx.close(f"{tag}.grad_raw_lengthscale", g.reshape(-1), graw_w.reshape(-1), rtol=max(rt, 1e-8), atol=at, scale=gscale_raw)
        for (nm, got, wnt) in extra:
            got = torch.zeros_like(wnt) if got is None else got
            ctx.close(f"{tag}.{nm}", got, wnt, rtol=max(rt, 1e-8), atol=at, scale=max(1.0, float(wnt.abs().max())))

    # ---- 1. default call
    with ctx.observing("default_call"):
        Kd, gd, fast_d = lib(X1, X2, Gm, [])
    tag_d = "fast" if fast_d else "generic_ard"
    cmp(tag_d, Kd, gd, Kref, want_raw)
    # ---- 1b. a backward pass computes gradients and nothing else: the upstream gradient it is handed (shared by autograd with every
    # other consumer of the kernel matrix, here the sibling `p`, and possibly the caller's own tensor) is left untouched
    with ctx.observing("shared_upstream"):
        out_s = k(X1, X2)
        dense_s = out_s if torch.is_tensor(out_s) else out_s.to_dense()
        if dense_s.requires_grad and tuple(dense_s.shape) == tuple(Gm.shape):
            Gc = Gm.clone().contiguous()
            p_s = torch.zeros((), dtype=Gm.dtype, requires_grad=True)
            (dense_s + p_s).backward(gradient=Gc)
            k.zero_grad()
            ctx.close("backward.upstream_gradient_unchanged", Gc, Gm, rtol=0, atol=0)
            ctx.close("backward.sibling_gradient", p_s.grad, Gm.sum(), rtol=1e-12, atol=1e-12, scale=max(1.0, float(Gm.abs().sum())))
    # ---- 2. trace_mode(True): the library's generic path
    with ctx.observing("trace_call"):
        Kt, gt, fast_t = lib(X1, X2, Gm, [], trace=True)
    cmp("trace", Kt, gt, Kref, want_raw)
    if gd is not None and gt is not None and fast_d and not fast_t:
        ctx.close("fast_vs_trace.value", Kd, Kt, rtol=rt, atol=at)
        ctx.close("fast_vs_trace.grad_raw_lengthscale", gd[0], gt[0], rtol=1e-8, atol=at, scale=gscale_raw)
    # ---- 3. inputs that require grad: the library itself must choose the generic path
    which = case["which"]
    x1l = X1.clone().requires_grad_(which in ("x1", "both"))
    x2l = x1l if same else X2.clone().requires_grad_(which in ("x2", "both"))
    wrt, extra_names = [], []
    if x1l.requires_grad:
        wrt.append(x1l)
        extra_names.append(("grad_x1", wantx_x1))
    if (not same) and x2l.requires_grad:
        wrt.append(x2l)
        extra_names.append(("grad_x2", wantx_x2))
    with ctx.observing("xgrad_call"):
        Kx, gx, fast_x = lib(x1l, x2l, Gx, wrt)
    if gx is not None:
        cmp("xgrad", Kx, gx, Kref, wantx_raw, [(nm, g, w) for (nm, w), g in zip(extra_names, gx[1:])])
    else:
        ctx.close("xgrad.value", Kx, Kref, rtol=rt, atol=at)
    # ---- 4. diag=True (generic path), only where x1 and x2 pair up row by row
    did_diag = False
    if n1 == n2 and case["x1b"] == case["x2b"]:
        did_diag = True
        Gdiag = Gm.diagonal(dim1=-1, dim2=-2)
        Kref_diag = Kref.diagonal(dim1=-1, dim2=-2)
        r3 = copy.deepcopy(r)
        raw3 = inv_softplus(ls).requires_grad_(True)
        r3["p"] = {"lengthscale": softplus(raw3)}
        Kr3 = kern.ref_kernel(r3, X1, X2)
        if tuple(Kr3.shape) != tuple(Gm.shape):
            Kr3 = Kr3.expand(Gm.shape)
        (want_raw_diag,) = torch.autograd.grad((Kr3.diagonal(dim1=-1, dim2=-2) * Gdiag).sum(), [raw3])
        with ctx.observing("diag_call"):
            Kg, gg, fast_g = lib(X1, X2, Gdiag, [], diag=True)
        ok = ctx.close("diag.value", Kg, Kref_diag, rtol=rt, atol=at)
        if ok and gg is not None:
            g = gg[0] if gg[0] is not None else torch.zeros_like(k.raw_lengthscale)
            ctx.close("diag.grad_raw_lengthscale", g.reshape(-1), want_raw_diag.reshape(-1), rtol=1e-8, atol=at,
                      scale=max(1.0, float(want_raw_diag.abs().max())))
        ctx.label(f"kfast:diag_path={'fast' if fast_g else 'generic'}")
    ctx.set_nontrivial(ncoin > 0 or bool(kb) or bool(case["x1b"]) or bool(case["x2b"]))
    # (the evidence keeps the 120 most frequent labels: keep the alphabet small)
    ctx.label(f"kfast:{name}:default_path={tag_d}:coincident={ncoin > 0}", f"kfast:trace_path={'fast' if fast_t else 'generic'}",
              f"kfast:xgrad_path={'fast' if fast_x else 'generic'}", f"kfast:near_coincident={near}", f"kfast:kb={kb}",
              f"kfast:same_tensor={same}", f"kfast:active_dims={r['ad'] is not None}", f"kfast:xgrad_wrt={which}",
              f"kfast:ard_num_dims={'none' if not ard else ('1' if d == 1 else '>1')}")


# ===================================================================================================
# (b) log_normal_cdf
# ===================================================================================================
# Branch points of gpytorch/functions/_log_normal_cdf.py (forward and backward): z < -1 -> rational tail approximation
# (backward: |den/num|*sqrt(2/pi)); z^2 < 0.04 -> series around 0; otherwise log(Normal.cdf(z)); the backward of the last
# two is exp(-z^2/2 - forward + log .5)*sqrt(2/pi).  -1 itself and +-0.2 (0.2**2 > 0.04 in binary64) are 'ordinary'.
# (since fix F46 the rational tail is used for z < -11.3137 only and erfc in between; -1 stays the property's tolerance switch)
LN_BP = (-1.0, -0.2, 0.2, -11.3137)
TAIL_RTOL = 2e-3  # property text (C13/C19): 2e-3 in the z < -1 tail
REST_RTOL = 1e-10  # ... to rounding elsewhere
TAIL_ZONE = -1.3
LN_SHAPES = [[], [1], [3], [5], [8], [2, 3], [3, 2], [2, 2, 2], [1, 4]]


def _z_elem():
    f = lambda lo, hi: st.floats(lo, hi, allow_nan=False, allow_subnormal=False, exclude_min=True, exclude_max=True)  # noqa: E731
    deltas = [0.0, 2.220446049250313e-16, 1e-12, 1e-9, 1e-6, 1e-3]
    near = st.tuples(st.sampled_from(LN_BP), st.sampled_from(deltas), st.sampled_from([-1.0, 1.0])).map(lambda t: t[0] + t[1] * t[2])
    return st.one_of(
        f(-1e6, -12.0), f(-12.0, -11.0), f(-12.0, -1.3), f(-12.0, -1.3), f(-1.3, -1.0), f(-1.3, -1.0), near, near,
        f(-1.0, -0.2), f(-0.2, 0.2), f(-0.2, 0.2), st.just(0.0), f(0.2, 8.0), f(0.2, 8.0), f(8.0, 40.0), LATTICE,
    )


@st.composite
def lncdf_case(draw):
    shape = draw(st.sampled_from(LN_SHAPES))
    layout = draw(st.sampled_from(["contig", "contig", "t", "expand"]))
    if layout == "t" and len(shape) < 2:
        layout = "contig"
    gshape = ([draw(st.integers(2, 3))] + shape) if layout == "expand" else shape
    return {"shape": shape, "layout": layout, "z": draw(arr(shape, _z_elem())), "g": draw(arr(gshape, REAL))}


def lncdf_grid(tier):
    """deterministic sweep: [-12, 9] in steps of 0.01 (chunks of 60, mixed with far-tail points), all upstream weights 1"""
    pts = [round(-12 + 0.01 * i, 10) for i in range(2101)]
    far = [-(10.0 ** e) for e in (1.5, 2, 3, 4, 5, 6)] + [12.0, 20.0, 38.0, 40.0]
    pts += far
    for i in range(0, len(pts), 60):
        chunk = pts[i:i + 60]
        yield {"shape": [len(chunk)], "layout": "contig", "z": chunk, "g": [1.0] * len(chunk)}


def run_lncdf(case, ctx: Ctx):
    from scipy.special import log_ndtr
    from scipy.stats import norm

    from gpytorch.functions import log_normal_cdf

    shape, layout = case["shape"], case["layout"]
    ctx.cls = f"lncdf|{layout}|rank{len(shape)}"
    leaf = T(case["z"]).reshape(shape).clone().requires_grad_(True)
    g = T(case["g"])

    def arrange(t):
        if layout == "t":
            return t.transpose(-1, -2)
        if layout == "expand":
            return t.unsqueeze(0).expand(g.shape[0], *t.shape)
        return t

    if layout == "t":
        g = g.reshape(shape).transpose(-1, -2)
    z_in = arrange(leaf)
    zd = z_in.detach()
    with ctx.observing("log_normal_cdf"):
        val = log_normal_cdf(z_in)
        g_before = g.clone()
        (got_leaf,) = torch.autograd.grad(val, leaf, grad_outputs=g)
        val = val.detach()
    ctx.close("backward.upstream_gradient_unchanged", g, g_before, rtol=0, atol=0)
    with ctx.observing("log_normal_cdf.post"):
        pass
    if not ctx.check("value.shape", tuple(val.shape) == tuple(zd.shape), f"{tuple(val.shape)} vs {tuple(zd.shape)}", kind="shape"):
        return
    z = zd.numpy()
    tail = zd < -1
    # FINDING C19-lncdf-tail: for -1.286 < z < -1 the delivered gradient phi/exp(forward) differs from the derivative of
    # the rational tail approximation by 0.2% .. 0.68% (> the property's 2e-3); the zone gets its own assertion name and
    # class so that the known-findings entry is as narrow as the defect
    zone_a = tail & (zd > TAIL_ZONE)
    nearzero = zd.pow(2) < 0.04

    def to_leaf(per_elem):  # what autograd must deliver on the leaf given the elementwise derivative
        w = per_elem * g
        if layout == "t":
            return w.transpose(-1, -2)
        if layout == "expand":
            return w.sum(0)
        return w

    # ---- (i) phi/Phi from scipy
    ref = torch.as_tensor(np.exp(norm.logpdf(z) - log_ndtr(z))).reshape(zd.shape)
    # ---- per-element delivered derivative, to judge branches separately: upstream weights are non-zero almost always;
    # recover it by a second call with unit upstream (same public call, same backward)
    with ctx.observing("log_normal_cdf.unit"):
        z2 = zd.clone().requires_grad_(True)
        (d_el,) = torch.autograd.grad(log_normal_cdf(z2).sum(), z2)
    ctx.close("grad.upstream_weighting", got_leaf, to_leaf(d_el), rtol=1e-12, atol=1e-13)
    if bool(tail.any()):
        ctx.close("grad.vs_phi_over_Phi.tail", d_el[tail], ref[tail], rtol=TAIL_RTOL, atol=0.0, scale=1.0)
    if bool((~tail).any()):
        # phi/Phi underflows towards 0 for large z: atol 1e-300 absolute
        ctx.close("grad.vs_phi_over_Phi.rest", d_el[~tail], ref[~tail], rtol=REST_RTOL, atol=1e-300, scale=1.0)
    # ---- (ii) both backward branches implement  delivered = phi(z) / exp(forward(z)).  exponent = -z^2/2 - forward suffers
    # cancellation of two numbers of size z^2/2: rtol 1e-12 + 4 eps z^2
    ident = torch.exp(-zd.pow(2) / 2 - 0.5 * math.log(2 * math.pi) - val)
    rel = (d_el - ident).abs() / ident.abs().clamp_min(1e-300)
    bound = 1e-12 + 8 * 2.2e-16 * zd.pow(2)
    bad = ~(rel <= bound) & (ident > 1e-290)
    ctx.check("grad.identity_phi_over_exp_forward", not bool(bad.any()),
              f"max rel {float(torch.where(bad, rel, torch.zeros_like(rel)).max()):.3e} at z={[float(v) for v in zd[bad].reshape(-1)[:4]]}", kind="value")
    # ---- (iii) central differences of the forward, inside one branch
    az = zd.abs()
    dist = torch.stack([(zd - b).abs() for b in LN_BP]).min(0).values
    h = torch.minimum(1e-6 * az.clamp_min(1.0), 0.4 * dist)
    # elements closer than 1e-7 to a branch point are not differenced (rounding noise eps*|f|/h would dominate); the
    # branch-point neighbourhoods are judged by (i) and (ii)
    fd_ok = h >= 4e-8
    hh = torch.where(fd_ok, h, torch.ones_like(h) * 1e-8)
    with ctx.observing("log_normal_cdf.fd"), torch.no_grad():
        fp = log_normal_cdf(zd + hh)
        fm = log_normal_cdf(zd - hh)
    # the representable step: (z+h) - (z-h)
    fd = (fp - fm) / ((zd + hh) - (zd - hh))
    # truncation h^2 f'''/6 <= 1e-12; rounding eps*max(1,|f|)/h: <= 3e-9 (|f| <= 2 for z >= -1, h >= 4e-8) and relative
    # eps*|f|/(h |f'|) ~ 1e-10 in the tail where |f| ~ z^2/2, |f'| ~ |z|, h = 1e-6 |z|
    m_rest = fd_ok & ~tail
    if bool(m_rest.any()):
        ctx.close("grad.fd.rest", d_el[m_rest], fd[m_rest], rtol=1e-6, atol=1e-8, scale=1.0)
    m_far = fd_ok & tail & ~zone_a
    if bool(m_far.any()):
        ctx.close("grad.fd.tail", d_el[m_far], fd[m_far], rtol=TAIL_RTOL, atol=1e-8, scale=1.0)
    m_a = fd_ok & zone_a
    if bool(m_a.any()):
        ctx.close("grad.fd.tail_near_minus1", d_el[m_a], fd[m_a], rtol=TAIL_RTOL, atol=1e-8, scale=1.0,
                  cls="lncdf|tail(-1.3,-1)")
    present = []
    if bool(tail.any()):
        present.append("tail")
    if bool((nearzero).any()):
        present.append("series")
    if bool((~tail & ~nearzero).any()):
        present.append("ordinary")
    nd = float(dist.min()) if dist.numel() else 1.0
    ctx.set_nontrivial(bool(tail.any()) or len(present) >= 2)
    ctx.label(*[f"lncdf:branch={p}" for p in present], f"lncdf:branches_in_tensor={len(present)}", f"lncdf:layout={layout}",
              f"lncdf:nearest_branch_point={'<=1e-9' if nd <= 1e-9 else '<=1e-3' if nd <= 1e-3 else 'far'}",
              f"lncdf:tail_zone_(-1.3,-1)={bool(zone_a.any())}", f"lncdf:far_tail_z<-12={bool((zd < -12).any())}")


# ===================================================================================================
# (c) natural / tril-natural variational distributions
# ===================================================================================================
NAT_BATCH = [[], [], [], [2], [3], [2, 2]]


@st.composite
def natural_case(draw):
    M = draw(st.integers(1, 4))
    b = draw(st.sampled_from(NAT_BATCH))
    return {
        "M": M, "b": b,
        "A": draw(arr(b + [M, M], LATTICE)), "c": draw(st.sampled_from([0.25, 0.5, 1.0, 2.0])),  # S = A A^T + c I
        "m": draw(arr(b + [M], REAL)),
        "via": draw(st.sampled_from(["chol", "chol", "cov"])),
        "loss": {
            "a": draw(arr([M], REAL)), "B": draw(arr([M, M], REAL)), "C": draw(arr([M, M], REAL)), "D": draw(arr([M, M], REAL)),
            "alpha": draw(REAL), "w": draw(arr([M], REAL)), "gamma": draw(arr(b, NONZERO)),
        },
    }


def _loss(lc, mu, L, Sigma, via):
    """generated smooth loss l(mu, L): linear + quadratic in mu, <C, L L^T>, log-det, weighted log-diagonal, <D, L>;
    the 'cov' variant reads only mu and Sigma (no explicit Cholesky factor), weighted per batch element by gamma"""
    a, B, C, D, w = T(lc["a"]), T(lc["B"]), T(lc["C"]), T(lc["D"]), T(lc["w"])
    val = (a * mu).sum(-1) + ((mu.unsqueeze(-2) @ B).squeeze(-2) * mu).sum(-1) + (C * Sigma).sum((-1, -2))
    if via == "chol":
        dg = L.diagonal(dim1=-1, dim2=-2)
        val = val + lc["alpha"] * 2 * dg.log().sum(-1) + (w * dg.log()).sum(-1) + (D * L).sum((-1, -2))
    else:
        val = val + lc["alpha"] * torch.logdet(Sigma)
    return (val * T(lc["gamma"])).sum()


def _moments(case):
    A = T(case["A"])
    M = case["M"]
    Sg = A @ A.transpose(-1, -2) + case["c"] * torch.eye(M)
    return T(case["m"]), Sg


def _expectation_oracle(case):
    """gradient of the loss w.r.t. the expectation parameters e1 = E[u], e2 = E[u u^T] (symmetrised)"""
    m, Sg = _moments(case)
    e1 = m.clone().requires_grad_(True)
    e2 = (Sg + m.unsqueeze(-1) * m.unsqueeze(-2)).clone().requires_grad_(True)
    Sig = sym(e2 - e1.unsqueeze(-1) * e1.unsqueeze(-2))
    L = torch.linalg.cholesky(Sig)
    g1, g2 = torch.autograd.grad(_loss(case["loss"], e1, L, Sig, case["via"]), [e1, e2])
    return g1, sym(g2)


def _lib_loss(case, q):
    mu = q.mean
    if case["via"] == "chol":
        L = q.lazy_covariance_matrix.cholesky().to_dense()
        Sigma = L @ L.transpose(-1, -2)
    else:
        L = None
        Sigma = q.covariance_matrix
    return _loss(case["loss"], mu, L, Sigma, case["via"]), mu, Sigma


def _nat_common(case, ctx, kind):
    m, Sg = _moments(case)
    M, b = case["M"], case["b"]
    ctx.cls = f"{kind}|M{M}|b{b}|{case['via']}"
    isI = bool((Sg - torch.eye(M)).abs().max() == 0)
    ctx.set_nontrivial(not isI or bool(b))
    ctx.label(f"{kind}:batch={b}", f"{kind}:via={case['via']}", f"{kind}:S_is_identity={isI}")
    kappa = float(torch.linalg.cond(Sg).max())
    # one dense factorisation + triangular inverses of S, kappa <= ~300 here: rtol 1e-9 -> 1e-8, atol 1e-9*scale
    return m, Sg, kappa


def run_natural(case, ctx: Ctx):
    from gpytorch.variational import NaturalVariationalDistribution

    m, Sg, kappa = _nat_common(case, ctx, "natural")
    M, b = case["M"], case["b"]
    g1, g2 = _expectation_oracle(case)
    with ctx.observing("natural.call"):
        vd = NaturalVariationalDistribution(M, batch_shape=torch.Size(b))
        vd.initialize(natural_vec=torch.linalg.solve(Sg, m.unsqueeze(-1)).squeeze(-1), natural_mat=-0.5 * torch.linalg.inv(Sg))
        q = vd()
        loss, mu, Sigma = _lib_loss(case, q)
        gv, gm = torch.autograd.grad(loss, [vd.natural_vec, vd.natural_mat])
    ctx.close("forward.mean", mu, m, rtol=1e-8, atol=1e-9)
    ctx.close("forward.covariance", Sigma, Sg, rtol=1e-8, atol=1e-9)
    ctx.close("grad.natural_vec", gv, g1, rtol=1e-8, atol=1e-9)
    ctx.close("grad.natural_mat", gm, g2, rtol=1e-8, atol=1e-9)


def run_trilnatural(case, ctx: Ctx):
    from gpytorch.variational import TrilNaturalVariationalDistribution

    m, Sg, kappa = _nat_common(case, ctx, "trilnatural")
    M, b = case["M"], case["b"]
    g1, g2 = _expectation_oracle(case)
    # natural_tril_mat = C lower triangular with S^-1 = C^T C, i.e. C = chol(S)^-1
    C = torch.linalg.inv(torch.linalg.cholesky(Sg)).tril()
    with ctx.observing("trilnatural.call"):
        vd = TrilNaturalVariationalDistribution(M, batch_shape=torch.Size(b))
        vd.initialize(natural_vec=torch.linalg.solve(Sg, m.unsqueeze(-1)).squeeze(-1), natural_tril_mat=C)
        q = vd()
        loss, mu, Sigma = _lib_loss(case, q)
        gv, D = torch.autograd.grad(loss, [vd.natural_vec, vd.natural_tril_mat])
    ctx.close("forward.mean", mu, m, rtol=1e-8, atol=1e-9)
    ctx.close("forward.covariance", Sigma, Sg, rtol=1e-8, atol=1e-9)
    ctx.close("grad.natural_vec", gv, g1, rtol=1e-8, atol=1e-9)
    # D must be a tangent of the lower-triangular parameter, and its image under eta2 = -1/2 C^T C must be the natural
    # gradient: -1/2 (D^T C + C^T D) = dl/de2
    sc = max(1.0, float(D.abs().max()))
    ctx.close("grad.natural_tril_mat.lower_triangular", D.triu(1), torch.zeros_like(D), rtol=0.0, atol=1e-12, scale=sc)
    image = -0.5 * (D.transpose(-1, -2) @ C + C.transpose(-1, -2) @ D)
    ctx.close("grad.natural_tril_mat.image_is_natural_gradient", image, g2, rtol=1e-8, atol=1e-9)


# ===================================================================================================
# (d) CIQ natural-gradient terms
# ===================================================================================================
CIQ_BATCH = [([], []), ([], []), ([2], []), ([], [2]), ([2], [2]), ([3, 2], [2]), ([2], [3, 2]), ([3], [3])]


@st.composite
def ciq_terms_case(draw):
    M = draw(st.integers(1, 4))
    N = draw(st.integers(1, 3))
    bk, bv = draw(st.sampled_from(CIQ_BATCH))
    bs = list(torch.broadcast_shapes(torch.Size(bk), torch.Size(bv)))
    return {
        "M": M, "N": N, "bk": bk, "bv": bv,
        "k": draw(arr(bk + [M, N], REAL)),
        "A": draw(arr(bv + [M, M], LATTICE)), "c": draw(st.sampled_from([0.25, 0.5, 1.0, 2.0])), "m": draw(arr(bv + [M], REAL)),
        "g_mean": draw(arr(bs + [N], REAL)), "g_var": draw(arr(bs + [N], REAL)), "g_kl": draw(arr(bs, REAL)),
    }


def _ciq_oracle(case, kmat, extra_leaves=(), const_var=None, const_mean=None):
    """interp_mean = k^T e1, interp_var = k^T (e2 - e1 e1^T) k, KL = 1/2 (-log|e2 - e1 e1^T| + tr e2 - M), all as functions
    of the expectation parameters; returns values and the gradient of the weighted sum w.r.t. (e1, e2 [symmetrised]) + extras"""
    m, Sg = _moments(case)
    M, N = case["M"], kmat.shape[-1]
    bs = torch.broadcast_shapes(kmat.shape[:-2], m.shape[:-1])
    e1 = m.clone().requires_grad_(True)
    e2 = (Sg + m.unsqueeze(-1) * m.unsqueeze(-2)).clone().requires_grad_(True)
    Sig = e2 - e1.unsqueeze(-1) * e1.unsqueeze(-2)
    a = (kmat.transpose(-1, -2) @ e1.unsqueeze(-1)).squeeze(-1).expand(*bs, N)
    v = (kmat * (Sig @ kmat)).sum(-2).expand(*bs, N)
    KL = (0.5 * (-torch.logdet(Sig) + e2.diagonal(dim1=-1, dim2=-2).sum(-1) - M)).expand(bs)
    if const_mean is not None:
        a = a + const_mean
    if const_var is not None:
        v = v + const_var
    loss = (a * T(case["g_mean"])).sum() + (v * T(case["g_var"])).sum() + (KL * T(case["g_kl"])).sum()
    grads = torch.autograd.grad(loss, [e1, e2] + list(extra_leaves), allow_unused=True)
    return a.detach(), v.detach(), KL.detach(), grads[0], sym(grads[1]), grads[2:]


def _cg_calibration(Sg, rhs, limit=1e-7):
    """_NgdInterpTerms solves  S^-1 x = rhs  with the dependency's linear_cg (diagonal preconditioner).  That solver is not
    exact on every small well-conditioned system even at tolerance 1e-12 (it treats p^T A p < 1e-10 as zero and stops
    updating the column: observed 3e-4 on a 4x4 system with kappa = 47).  As in pbt/gpmodel.cg_calibration the *solver*
    (code outside /repo) is run on the dense system with the arguments the library uses; cases on which it misses the dense
    solution are outside the domain of the CG path (discarded, counted).  This calibrates the domain; it is not the oracle."""
    from linear_operator.utils import linear_cg

    prec = sym(torch.linalg.inv(Sg))
    bs = torch.broadcast_shapes(prec.shape[:-2], rhs.shape[:-2])
    rhs = rhs.expand(*bs, *rhs.shape[-2:])
    diag = prec.diagonal(dim1=-1, dim2=-2).unsqueeze(-1)
    with torch.no_grad():
        sol = linear_cg(prec.matmul, rhs, n_tridiag=0, max_iter=500, tolerance=1e-12, max_tridiag_iter=20,
                        preconditioner=lambda x: x / diag)
    ref = Sg @ rhs
    err = float((sol - ref).abs().max() / ref.abs().max().clamp_min(1.0))
    if not err <= limit:
        raise Discard("cg path: the dependency's linear_cg misses the dense solution of this system by > 1e-7*scale")


def run_ciq_terms(case, ctx: Ctx):
    from gpytorch.variational.ciq_variational_strategy import _NgdInterpTerms

    M, N, bk, bv = case["M"], case["N"], case["bk"], case["bv"]
    ctx.cls = f"ciq_terms|M{M}|bk{bk}|bv{bv}"
    m, Sg = _moments(case)
    kref = T(case["k"]).requires_grad_(True)
    a, v, KL, g1, g2, (gk,) = _ciq_oracle(case, kref, [kref])
    kl = T(case["k"]).requires_grad_(True)
    nv = torch.linalg.solve(Sg, m.unsqueeze(-1)).squeeze(-1).requires_grad_(True)
    nm = (-0.5 * torch.linalg.inv(Sg)).requires_grad_(True)
    bs = torch.broadcast_shapes(torch.Size(bk), torch.Size(bv))
    _cg_calibration(Sg, torch.cat([nv.detach().expand(*bs, M).unsqueeze(-1), kl.detach().expand(*bs, M, N)], -1))
    with ctx.observing("ngd_interp_terms"):
        with S.cg_tolerance(1e-12), S.eval_cg_tolerance(1e-12), S.max_cg_iterations(500):
            im, iv, klv = _NgdInterpTerms.apply(kl, nv, nm)
            loss = (im * T(case["g_mean"])).sum() + (iv * T(case["g_var"])).sum() + (klv * T(case["g_kl"])).sum()
            dk, dv, dm = torch.autograd.grad(loss, [kl, nv, nm])
    # the solves inside _NgdInterpTerms go through the dependency's linear_cg, which is not exact even at tolerance 1e-12
    # (it regularises its step lengths; observed 4e-8*scale here): DESIGN 1.4 CG row, rtol 1e-4, atol 1e-5*scale
    tol = dict(rtol=1e-4, atol=1e-5)
    ctx.close("forward.interp_mean", im, a, **tol)
    ctx.close("forward.interp_var", iv, v, **tol)
    # the forward deliberately returns KL = 0 ("Let's not bother actually computing the KL-div in the forward pass"): only
    # its gradient is judged
    ctx.close("grad.natural_vec", dv, g1, **tol)
    ctx.close("grad.natural_mat", dm, g2, **tol)
    ctx.close("grad.interp_term", dk, torch.zeros_like(kref) if gk is None else gk, **tol)
    isI = bool((Sg - torch.eye(M)).abs().max() == 0)
    ctx.set_nontrivial(not isI or bool(bk) or bool(bv))
    ctx.label(f"ciq_terms:bk={bk},bv={bv}", f"ciq_terms:S_is_identity={isI}")


class CiqGP(gpytorch.models.ApproximateGP):
    def __init__(self, Z, vbatch, mean_module, covar_module, jitter):
        from gpytorch.variational import CiqVariationalStrategy, NaturalVariationalDistribution

        vd = NaturalVariationalDistribution(Z.size(-2), batch_shape=torch.Size(vbatch))
        vs = CiqVariationalStrategy(self, Z, vd, learn_inducing_locations=True, jitter_val=jitter)
        super().__init__(vs)
        self.mean_module = mean_module
        self.covar_module = covar_module

    def forward(self, x):
        return gpytorch.distributions.MultivariateNormal(self.mean_module(x), self.covar_module(x))


CIQ_KERNELS = ["RBF", "Matern1.5", "Matern2.5", "RQ"]
SPACED = [-2.0, -1.0, 0.0, 1.0, 2.0, -1.5, -0.5, 0.5, 1.5]


@st.composite
def ciq_model_case(draw):
    d = draw(st.integers(1, 2))
    M = draw(st.integers(1, 4))
    N = draw(st.integers(1, 3))
    bv = draw(st.sampled_from([[], [], [2]]))
    base = draw(kern.base_kernel(d, [], names=CIQ_KERNELS, allow_ad=False))
    # K_ZZ must stay well conditioned (its inverse square root is differentiated): lengthscales <= 1.5, inducing points
    # on distinct lattice sites at least 0.5 apart in the first coordinate
    base["p"]["lengthscale"] = draw(arr([1, d if base["ard"] else 1], kern.pos(0.3, 1.5)))
    kr = base if draw(st.booleans()) else {"k": "Scale", "batch": [], "base": base, "p": {"outputscale": draw(kern.pos(0.2, 4.0))}}
    z0 = draw(st.lists(st.sampled_from(SPACED), min_size=M, max_size=M, unique=True))
    Z = [[z0[i]] + [draw(LATTICE) for _ in range(d - 1)] for i in range(M)]
    case = {
        "d": d, "M": M, "N": N, "bv": bv, "kernel": kr, "mean_const": draw(REAL), "jitter": draw(st.sampled_from([1e-6, 1e-4, 1e-3])),
        "Z": Z, "X": draw(kern.points(N, d)),
        "A": draw(arr(bv + [M, M], LATTICE)), "c": draw(st.sampled_from([0.25, 0.5, 1.0, 2.0])), "m": draw(arr(bv + [M], REAL)),
        "g_mean": draw(arr(bv + [N], REAL)), "g_var": draw(arr(bv + [N], REAL)), "g_kl": draw(arr(bv, REAL)),
    }
    return case


def _inv_sqrt(Kmat):
    ev, U = torch.linalg.eigh(Kmat)
    return (U * ev.pow(-0.5).unsqueeze(-2)) @ U.transpose(-1, -2)


def run_ciq_model(case, ctx: Ctx):
    M, N, bv, kr = case["M"], case["N"], case["bv"], case["kernel"]
    ctx.cls = f"ciq_model|{kern.describe(kr)}|M{M}|bv{bv}"
    m, Sg = _moments(case)
    Z, X = T(case["Z"]), T(case["X"])
    jit = case["jitter"]
    # ---- oracle
    Zr = Z.clone().requires_grad_(True)
    Kzz = kern.ref_kernel(kr, Zr, Zr) + jit * torch.eye(M)
    kappa = float(torch.linalg.cond(Kzz.detach()))
    if not math.isfinite(kappa) or kappa > 1e4:
        raise Discard("ill-conditioned K_ZZ (kappa > 1e4)")
    ev = torch.linalg.eigvalsh(Kzz.detach())
    gap = float((ev[1:] - ev[:-1]).min() / ev[-1]) if M > 1 else 1.0
    kmat = _inv_sqrt(Kzz) @ kern.ref_kernel(kr, Zr, X)
    kxx = kern.ref_kernel(kr, X, X).diagonal(dim1=-1, dim2=-2)
    const_var = kxx + jit - kmat.pow(2).sum(-2)
    a, v, KL, g1, g2, (gZ,) = _ciq_oracle(case, kmat, [Zr], const_var=const_var, const_mean=case["mean_const"])
    if bool((v < 1e-6).any()):
        raise Discard("predictive variance at the min_variance clamp")
    nv0 = torch.linalg.solve(Sg, m.unsqueeze(-1))
    _cg_calibration(Sg, torch.cat([nv0, kmat.detach().expand(*nv0.shape[:-2], M, N)], -1))
    # ---- library
    with ctx.observing("build"):
        mean = gpytorch.means.ConstantMean()
        mean.constant = T(case["mean_const"])
        model = CiqGP(Z.clone(), bv, mean, kern.build_kernel(kr), jit)
        model.train()
        vs = model.variational_strategy
        vs.variational_params_initialized.fill_(1)
        vd = vs._variational_distribution
        vd.initialize(natural_vec=torch.linalg.solve(Sg, m.unsqueeze(-1)).squeeze(-1), natural_mat=-0.5 * torch.linalg.inv(Sg))
    # K_ZZ^{-1/2} k_ZX is computed by contour integral quadrature (dependency): a truncated quadrature whose error grows with
    # kappa(K_ZZ) (default 15 nodes: 7e-4 at kappa = 750; 150 nodes: <= 1e-13 up to kappa = 1e4, measured) - tight settings
    with ctx.observing("ciq.forward_backward"):
        with S.cg_tolerance(1e-12), S.eval_cg_tolerance(1e-12), S.max_cg_iterations(500), S.num_contour_quadrature(150), \
                S.minres_tolerance(1e-12):
            out = model(X)
            klv = vs.kl_divergence()
            mu, var = out.mean, out.variance
            loss = (mu * T(case["g_mean"])).sum() + (var * T(case["g_var"])).sum() + (klv * T(case["g_kl"])).sum()
            dv, dm, dZ = torch.autograd.grad(loss, [vd.natural_vec, vd.natural_mat, vs.inducing_points], allow_unused=True)
    # the natural-parameter solves go through linear_cg, K_ZZ^{-1/2} through CIQ + minres (DESIGN 1.4 CG row: rtol 1e-4,
    # atol 1e-5*scale)
    t = 1e-5
    ctx.close("forward.mean", mu, a, rtol=1e-4, atol=t)
    ctx.close("forward.variance", var, v, rtol=1e-4, atol=t)
    ctx.close("grad.natural_vec", dv, g1, rtol=1e-4, atol=t)
    ctx.close("grad.natural_mat", dm, g2, rtol=1e-4, atol=t)
    # ordinary derivative w.r.t. the inducing locations (flows through interp_term_grad); the oracle differentiates an
    # eigendecomposition, which loses accuracy when eigenvalues of K_ZZ nearly coincide: judged only for relative gaps >= 1e-4
    if gap >= 1e-4 and gZ is not None:
        ctx.close("grad.inducing_points", torch.zeros_like(Z) if dZ is None else dZ, gZ, rtol=1e-4, atol=t / min(1.0, gap * 1e2))
    isI = bool((Sg - torch.eye(M)).abs().max() == 0)
    ctx.set_nontrivial(not isI or bool(bv))
    ctx.label(f"ciq_model:leaf={kern.leaves(kr)[0]['k']}", f"ciq_model:scale_kernel={kr['k'] == 'Scale'}", f"ciq_model:bv={bv}", f"ciq_model:jitter={jit:g}",
              f"ciq_model:Zgrad_checked={gap >= 1e-4}")


# ===================================================================================================
# (e) predictions w.r.t. test inputs
# ===================================================================================================
PRED_NAMES = ["RBF", "Matern0.5", "Matern1.5", "Matern2.5", "RQ", "Periodic"]
OFF = 0.125  # test inputs of Matern-1/2 cases live on lattice + 1/8 (train inputs on the lattice)


@st.composite
def pred_case(draw):
    d = draw(st.integers(1, 2))
    mb = draw(st.sampled_from([[], [], [], [2]]))
    xb = draw(st.sampled_from([[], mb])) if mb else []
    tb = draw(st.sampled_from([mb, mb, [3] + mb] if mb else [[], [], [2]]))
    n = draw(st.integers(1, 5))
    ns = draw(st.integers(1, 3))
    kernel = draw(kern.kernel_tree(d, mb, depth=1, names=PRED_NAMES, psd_only=True))
    # DESIGN range for lengthscales here: >= 0.3 (kern.base_kernel) - third derivatives stay <= ~40 for the differences
    kinky = any(l["k"] == "Matern0.5" for l in kern.leaves(kernel))
    yb = mb if mb else xb
    resb = list(torch.broadcast_shapes(torch.Size(mb), torch.Size(xb), torch.Size(tb)))
    if kinky:
        # Matern-1/2 has a kink at x* = x: keep every test row >= 1/8 away (in every coordinate) from every train row and
        # from every other test row, by construction
        X = draw(arr(xb + [n, d], LATTICE))
        nbt = int(np.prod(tb)) if tb else 1
        cols = [[draw(st.lists(LATTICE, min_size=ns, max_size=ns, unique=True)) for _ in range(d)] for _ in range(nbt)]
        Xs = T([[[cols[bi][j][i] + OFF for j in range(d)] for i in range(ns)] for bi in range(nbt)]).reshape(*tb, ns, d).tolist()
    else:
        X = draw(kern.points(n, d, xb))
        Xs_t = T(draw(kern.points(ns, d, tb)))
        if draw(st.integers(0, 2)) == 0:  # a test row coinciding with a train row
            Xt = T(X)
            Xs_t[..., 0, :] = Xt[..., 0, :] if Xt.dim() <= Xs_t.dim() else Xt.reshape(-1, n, d)[0, 0, :]
        Xs = Xs_t.tolist()
    return {
        "d": d, "mb": mb, "xb": xb, "tb": tb, "n": n, "ns": ns, "kinky": kinky,
        "mean": draw(kern.mean_recipe(d, mb)), "kernel": kernel,
        "lik": draw(G.likelihood_recipe(mb, xb, n, kinds=("Gaussian", "Gaussian", "FixedNoise"))),
        "X": X, "y": draw(arr(yb + [n], REAL)), "Xs": Xs,
        "g_mean": draw(arr(resb + [ns], REAL)), "g_var": draw(arr(resb + [ns], REAL)), "V": draw(arr(tb + [ns, d], NONZERO)),
    }


def run_pred(case, ctx: Ctx):
    kdesc = kern.describe(case["kernel"])
    ctx.cls = f"pred|{kdesc}|mb{case['mb']}|xb{case['xb']}|tb{case['tb']}|{case['lik']['l']}"
    X, y, Xs = T(case["X"]), T(case["y"]), T(case["Xs"])
    n, ns = case["n"], case["ns"]
    gm, gv, V = T(case["g_mean"]), T(case["g_var"]), T(case["V"])
    res_batch = torch.broadcast_shapes(torch.Size(case["mb"]), torch.Size(case["xb"]), torch.Size(case["tb"]))
    # ---- oracle: dense conditional from the reference kernels, autograd w.r.t. the test inputs
    Xr = Xs.clone().requires_grad_(True)
    Kxx, Kxs, Kss, mx, ms = G.ref_prior_blocks(case, X, Xr)
    sd = G.ref_noise_diag(case["lik"], n, torch.broadcast_shapes(torch.Size(case["mb"]), torch.Size(case["xb"])))
    mean_w, cov_w, kappa, _ = G.dense_conditional(Kxx, Kxs, Kss, mx, ms, sd, y, kappa_max=1e6)
    var_w = cov_w.diagonal(dim1=-1, dim2=-2)
    mean_w = mean_w.expand(*res_batch, ns)
    var_w = var_w.expand(*res_batch, ns)
    if bool((var_w < 1e-6).any()):
        raise Discard("posterior variance near the min_variance clamp")
    (grad_w,) = torch.autograd.grad((mean_w * gm).sum() + (var_w * gv).sum(), [Xr])
    # ---- library
    with ctx.observing("build"):
        model, lik = G.build_exact(case)
        model.eval()
        lik.eval()

    def f(xin):
        out = model(xin)
        return (out.mean * gm).sum() + (out.variance * gv).sum(), out

    with ctx.observing("predict_and_backward"):
        Xl = Xs.clone().requires_grad_(True)
        val, out = f(Xl)
        mean_g, var_g = out.mean.detach(), out.variance.detach()
        (grad_g,) = torch.autograd.grad(val, [Xl])
    smooth0 = kern.smooth_at_zero(case["kernel"])
    tol = max(G.chol_tol(kappa, smooth0), 1e-9)
    okm = ctx.close("forward.mean", mean_g, mean_w.detach(), rtol=tol, atol=tol)
    okv = ctx.close("forward.variance", var_g, var_w.detach(), rtol=tol, atol=tol)
    gscale = max(1.0, float(grad_w.abs().max()))
    # gradient of a dense solve: amplified once more by sqrt(kappa) (as in C02)
    gtol = max(tol, 1e-8) * max(1.0, kappa ** 0.5)
    # near-coincident but not identical rows (train/train or train/test): the library's quadratic-expansion r^2 is resolved only to
    # eps |x / l|^2 ~ 1e-12 and clamped at 0, where its gradient vanishes; the contribution K'(r) (x - x') / (l^2 r) <= 1e-5 / l of such a
    # pair is below that resolution (DESIGN 1.4, the same exclusion as in kernel.fastpath)
    rows_ = torch.cat([X.reshape(-1, X.shape[-1]), Xs.reshape(-1, Xs.shape[-1])], 0)
    dd_ = (rows_.unsqueeze(0) - rows_.unsqueeze(1)).abs().amax(-1)
    if bool(((dd_ > 0) & (dd_ < 1e-4)).any()):
        gtol = max(gtol, 1e-5)
        ctx.label("pred.near_coincident_rows")
    if okm and okv:
        ctx.close("grad_xstar.vs_reference_autograd", grad_g, grad_w, rtol=max(tol, 1e-7), atol=gtol, scale=gscale)
    # ---- central difference of the library's own forward along V (inputs keep requires_grad so that the same, generic,
    # kernel path is differenced).  h = 1e-5 (DESIGN): truncation h^2 |f'''|/6 <= 1e-8 for lengthscales >= 0.3, rounding
    # eps*kappa*|y|/h <= 1e-11*kappa.  rtol 1e-5 (DESIGN) on the directional derivative, atol 1e-6*max(1, kappa*1e-4).
    h = 1e-5
    with ctx.observing("finite_difference_calls"):
        fp, _ = f((Xs + h * V).requires_grad_(True))
        fm, _ = f((Xs - h * V).requires_grad_(True))
    fd = (fp.detach() - fm.detach()) / (2 * h)
    dd = (grad_g * V).sum()
    ctx.close("grad_xstar.vs_central_difference", dd, fd, rtol=1e-5, atol=1e-6 * max(1.0, kappa * 1e-4), scale=max(1.0, float((grad_g.abs() * V.abs()).sum())))
    # non-trivial: batch, or a test row equal to a train row
    Xb = X.expand(*torch.broadcast_shapes(X.shape[:-2], Xs.shape[:-2]), n, case["d"])
    Sb = Xs.expand(*torch.broadcast_shapes(X.shape[:-2], Xs.shape[:-2]), ns, case["d"])
    coincide = bool(((Sb.unsqueeze(-2) - Xb.unsqueeze(-3)).abs().sum(-1) == 0).any())
    ctx.set_nontrivial(coincide or bool(res_batch))
    ctx.label(*{f"pred:leaf={l['k']}" for l in kern.leaves(case["kernel"])}, f"pred:mb={case['mb']},tb={case['tb']}",
              f"pred:test_row_equals_train_row={coincide}", f"pred:lik={case['lik']['l']}", f"pred:mean={case['mean']['m']}",
              f"pred:matern0.5_offlattice={case['kinky']}")


# ===================================================================================================
RULE = ("kernel.fastpath: kernel in {RBF, Matern nu=.5/1.5/2.5} x (ARD | ard_num_dims=1 | isotropic) x active_dims x 15 "
        "(kernel, x1, x2) batch-shape patterns x (x1 is x2 | separate) x generated coincident rows x generated upstream G; "
        "non-trivial iff a coincident pair of rows or any batch shape.  lncdf: tensors of rank 0..3 mixing the three branches, "
        "neighbours of the branch points at distance 0, 1ulp, 1e-12..1e-3, |z| <= 1e6, three memory layouts; non-trivial iff a "
        "tail element or >= 2 branches in one tensor.  natural / trilnatural / ciq: M <= 4, batch shapes, S = A A^T + c I; "
        "non-trivial iff S != I or a batch shape.  pred.xgrad: exact GP with a depth<=1 kernel tree over RBF/Matern/RQ/Periodic; "
        "non-trivial iff a batch shape or a test row equal to a train row.  distinct = distinct canonical case.")

SUBCHECKS = [
    Subcheck("kernel.fastpath", run_fastpath, strategy=fastpath_case, quick=4000, thorough=60000, min_shard=60, max_shards=8),
    Subcheck("lncdf.generated", run_lncdf, strategy=lncdf_case, quick=4000, thorough=80000, min_shard=100, max_shards=4),
    Subcheck("lncdf.grid", run_lncdf, enumerate=lncdf_grid,
             exhaustive_note="log_normal_cdf gradient on the grid [-12, 9] step 0.01 plus 10 far points (a sweep, not a finite space)", max_shards=1),
    Subcheck("natural.grad", run_natural, strategy=natural_case, quick=2000, thorough=30000, min_shard=60, max_shards=3),
    Subcheck("trilnatural.grad", run_trilnatural, strategy=natural_case, quick=2000, thorough=30000, min_shard=60, max_shards=3),
    Subcheck("ciq.ngd_terms", run_ciq_terms, strategy=ciq_terms_case, quick=1500, thorough=30000, min_shard=60, max_shards=3),
    Subcheck("ciq.model", run_ciq_model, strategy=ciq_model_case, quick=1000, thorough=15000, min_shard=40, max_shards=4),
    Subcheck("pred.xgrad", run_pred, strategy=pred_case, quick=1200, thorough=15000, min_shard=40, max_shards=4),
]

SPEC = PropertySpec(
    pid="C19",
    rule=RULE,
    assumptions=[
        "float64, CPU; default settings except where a sub-check says otherwise (CG tolerances 1e-12 for the CIQ terms)",
        "reference kernels are those of pbt/kern.py (validated against the library in C05), differentiated by torch autograd "
        "from a raw leaf through an own softplus; sqrt has derivative 0 at coincident rows",
        "Matern-1/2 is not differentiable in the inputs at coincident rows: such pairs get upstream weight 0 in the input-gradient "
        "comparison of kernel.fastpath, and pred.xgrad keeps test rows >= 1/8 away from train rows when a Matern-1/2 leaf is present; "
        "lengthscale gradients are compared at coincident rows for every nu",
        "log_normal_cdf: finite differences never straddle z = -1 or |z| = 0.2 and skip elements closer than 1e-7 to a branch point; "
        "|z| <= 1e6",
        "_NgdInterpTerms returns KL = 0 in the forward pass by documented design; only the KL gradient is judged",
        "pred.xgrad discards cond(K + noise) > 1e6, ciq.model cond(K_ZZ) > 1e4 (counted); ciq.model runs contour integral quadrature "
        "with 150 nodes and minres tolerance 1e-12 (the default 15 nodes are a 1e-3-level approximation at kappa ~ 1e3)",
        "ciq.*: cases on which the dependency's linear_cg (called as the library calls it) misses the dense solution of S^-1 x = b by "
        "more than 1e-7*max(1,|x|) are discarded and counted (the solver is linear_operator code, outside /repo)",
        "last_dim_is_batch=True (deprecated) is the one generic-path trigger not exercised",
    ],
    subchecks=SUBCHECKS,
)

"""C16 - missing observations (observation_nan_policy mask / fill) behave as if those observations were deleted."""
from __future__ import annotations

import math

import torch
from hypothesis import strategies as st

import gpytorch
from gpytorch import settings as S

from pbt import gpmodel as G
from pbt import kern
from pbt import mtmodel as MT
from pbt.core import Ctx, Discard, PropertySpec, Subcheck

T = torch.tensor
NAN = float("nan")


def _mask_strategy(shape):
    """boolean 'missing' pattern of the given shape with at least one observed entry per leading element"""
    n = shape[-1]
    lead = shape[:-1]

    @st.composite
    def one(draw):
        kind = draw(st.sampled_from(["none", "one", "subset", "subset", "all_but_one"]))
        if kind == "none" or n == 1:
            return [False] * n
        if kind == "one":
            i = draw(st.integers(0, n - 1))
            return [j == i for j in range(n)]
        if kind == "all_but_one":
            i = draw(st.integers(0, n - 1))
            return [j != i for j in range(n)]
        m = draw(st.lists(st.booleans(), min_size=n, max_size=n))
        if all(m):
            m[draw(st.integers(0, n - 1))] = False
        return m

    s = one()
    for k in reversed(lead):
        s = st.lists(s, min_size=k, max_size=k)
    return s


def _apply_nan(y, miss):
    y = y.clone()
    y[miss] = NAN
    return y


# ---------------------------------------------------------------------------------------------------
# posterior (single output, batch)
# ---------------------------------------------------------------------------------------------------
@st.composite
def posterior_case(draw):
    case = draw(G.exact_case(depth=1, nmax=6, nsmax=3, lik_kinds=("Gaussian", "Gaussian", "FixedNoise"), test_batches=False))
    yb = case["mb"] if case["mb"] else case["xb"]
    case["missing"] = draw(_mask_strategy(list(yb) + [case["n"]]))
    case["policies"] = draw(st.lists(st.sampled_from(["mask", "fill"]), min_size=1, max_size=3))
    case["fpv"] = draw(st.integers(0, 3)) == 0
    case["detach"] = draw(st.booleans())
    case["lazy"] = draw(st.booleans())
    return case


def run_posterior(case, ctx: Ctx):
    lk = case["lik"]["l"]
    ctx.cls = f"{lk}|mb{case['mb']}|xb{case['xb']}|{'-'.join(case['policies'])}|fpv{int(case['fpv'])}"
    X, y, Xs = T(case["X"]), T(case["y"]), T(case["Xs"])
    miss = torch.tensor(case["missing"], dtype=torch.bool)
    n, ns = case["n"], case["ns"]
    ynan = _apply_nan(y, miss)
    case_nan = dict(case, y=ynan.tolist())
    with ctx.observing("build"):
        model, lik = G.build_exact(dict(case, y=[[0.0] * n] * 1 if False else case["y"]))
        model.set_train_data(targets=ynan, strict=False)
        model.eval()
        lik.eval()
    bshape = torch.broadcast_shapes(torch.Size(case["mb"]), torch.Size(case["xb"]))
    with ctx.observing("own_prior"):
        Kxx, Kxs, Kss, mx, ms = G.own_prior_blocks(model, X, Xs)
    sd = G.ref_noise_diag(case["lik"], n, bshape)
    test_noise = case.get("test_noise")

    def oracle(policy):
        """delete the missing observations: union over the batch for 'mask' (documented), per element for 'fill'"""
        if policy == "mask" or miss.dim() == 1:
            obs = ~(miss.reshape(-1, n).any(0))
            if int(obs.sum()) == 0:
                raise Discard("no observed entry left after masking the union over the batch")
            idx = torch.nonzero(obs).reshape(-1)
            mean_w, cov_w, kappa, _ = G.dense_conditional(Kxx[..., idx, :][..., :, idx], Kxs[..., idx, :], Kss, mx[..., idx], ms,
                                                          sd[..., idx], y[..., idx])
            return mean_w.expand(*bshape, ns), cov_w.expand(*bshape, ns, ns), kappa
        means, covs, kap = [], [], 0.0
        flat = miss.reshape(-1, n)
        KxxE, KxsE, KssE = Kxx.expand(*bshape, n, n).reshape(-1, n, n), Kxs.expand(*bshape, n, ns).reshape(-1, n, ns), Kss.expand(*bshape, ns, ns).reshape(-1, ns, ns)
        mxE, msE, sdE, yE = mx.expand(*bshape, n).reshape(-1, n), ms.expand(*bshape, ns).reshape(-1, ns), sd.expand(*bshape, n).reshape(-1, n), y.expand(*bshape, n).reshape(-1, n)
        for b in range(flat.shape[0]):
            idx = torch.nonzero(~flat[b]).reshape(-1)
            m_, c_, k_, _ = G.dense_conditional(KxxE[b][idx][:, idx], KxsE[b][idx], KssE[b], mxE[b][idx], msE[b], sdE[b][idx], yE[b][idx])
            means.append(m_)
            covs.append(c_)
            kap = max(kap, k_)
        return torch.stack(means).reshape(*bshape, ns), torch.stack(covs).reshape(*bshape, ns, ns), kap

    n_missing = int(miss.sum())
    n_obs_any = int((~miss).sum())
    changed = False
    for pi, policy in enumerate(case["policies"]):
        mean_w, cov_w, kappa = oracle(policy)
        tol = max(G.chol_tol(kappa, kern.smooth_at_zero(case["kernel"])), 1e-9)
        scale = max(1.0, float(cov_w.abs().max()), float(mean_w.abs().max()))
        with ctx.observing(f"predict.{policy}"):
            with S.observation_nan_policy(policy), S.fast_pred_var(case["fpv"]), S.detach_test_caches(case["detach"]), S.lazily_evaluate_kernels(case["lazy"]), torch.no_grad():
                out = model(Xs)
                gm, gc, gv = out.mean, out.covariance_matrix, out.variance
                pred = lik(out, noise=T(test_noise)) if test_noise is not None else lik(out)
                pm, pc = pred.mean, pred.covariance_matrix
        tag = f"{policy}" + (".after_switch" if pi > 0 and case["policies"][pi - 1] != policy else "")
        for name, ten in (("mean", gm), ("cov", gc), ("variance", gv), ("lik.mean", pm), ("lik.cov", pc)):
            ctx.check(f"{tag}.no_nan.{name}", bool(torch.isfinite(ten).all()), f"non-finite values in the {name} under policy {policy}")
        ctx.close(f"{tag}.mean", gm, mean_w, rtol=tol, atol=tol, scale=scale)
        ctx.close(f"{tag}.cov", gc, cov_w, rtol=tol, atol=tol, scale=scale)
        # what deletion changes (non-triviality)
        if n_missing:
            full_mean, full_cov, _, _ = G.dense_conditional(Kxx, Kxs, Kss, mx, ms, sd, torch.nan_to_num(y, nan=0.0))
            if float((full_cov.expand_as(cov_w) - cov_w).abs().max()) > 1e-4:
                changed = True
    ctx.set_nontrivial(n_missing >= 1 and n_obs_any >= 1 and changed)
    ctx.label(f"lik={lk}", f"mb={case['mb']}", f"xb={case['xb']}", f"policies={'-'.join(case['policies'])}", f"fpv={int(case['fpv'])}",
              f"lazy={int(case['lazy'])}", f"missing={'0' if n_missing == 0 else ('1' if n_missing == 1 else '2+')}")


# ---------------------------------------------------------------------------------------------------
# MLL under the policies
# ---------------------------------------------------------------------------------------------------
@st.composite
def mll_case(draw):
    case = draw(G.exact_case(depth=1, nmax=6, nsmax=1, lik_kinds=("Gaussian", "Gaussian", "FixedNoise", "FixedNoise+"), test_batches=False))
    yb = case["mb"] if case["mb"] else case["xb"]
    case["missing"] = draw(_mask_strategy(list(yb) + [case["n"]]))
    case["policy"] = draw(st.sampled_from(["mask", "mask", "mask", "fill"]))
    return case


def run_mll(case, ctx: Ctx):
    ctx.cls = f"mll|{case['lik']['l']}|mb{case['mb']}|xb{case['xb']}|{case['policy']}"
    X, y = T(case["X"]), T(case["y"])
    n = case["n"]
    miss = torch.tensor(case["missing"], dtype=torch.bool)
    ynan = _apply_nan(y, miss)
    with ctx.observing("build"):
        model, lik = G.build_exact(case)
        model.set_train_data(targets=ynan, strict=False)
        model.train()
        lik.train()
    bshape = torch.broadcast_shapes(torch.Size(case["mb"]), torch.Size(case["xb"]))
    if case["policy"] == "fill":
        try:
            with S.observation_nan_policy("fill"):
                mll = gpytorch.mlls.ExactMarginalLogLikelihood(lik, model)
                mll(model(X), ynan)
            ctx.fail("fill.rejected", "invariant", "ExactMarginalLogLikelihood accepted nan policy 'fill' (documented as unsupported: ValueError expected)")
        except ValueError:
            pass
        except Exception as e:  # noqa: BLE001
            ctx.fail("fill.rejected", "exception", f"expected the documented ValueError, got {type(e).__name__}: {str(e)[:200]}")
        ctx.label("policy=fill")
        ctx.set_nontrivial(bool(miss.any()))
        return
    obs = ~(miss.reshape(-1, n).any(0))
    idx = torch.nonzero(obs).reshape(-1)
    if len(idx) == 0:
        raise Discard("no observed entry left after masking the union over the batch")
    with ctx.observing("own_prior"):
        with torch.no_grad(), S.lazily_evaluate_kernels(False):
            Kxx = model.covar_module(X).to_dense()
            mx = model.mean_module(X)
    sd = G.ref_noise_diag(case["lik"], n, bshape)
    A = Kxx[..., idx, :][..., :, idx].expand(*bshape, len(idx), len(idx)) + torch.diag_embed(sd[..., idx].expand(*bshape, len(idx)))
    sv = torch.linalg.svdvals(A)
    kappa = float((sv[..., 0] / sv[..., -1]).max())
    if not math.isfinite(kappa) or kappa > 1e8:
        raise Discard("ill-conditioned (kappa>1e8)")
    r = (y[..., idx] - mx[..., idx]).expand(*bshape, len(idx))
    logp = -0.5 * ((r * torch.linalg.solve(A, r.unsqueeze(-1)).squeeze(-1)).sum(-1) + torch.linalg.slogdet(A)[1] + len(idx) * math.log(2 * math.pi))
    with ctx.observing("mll.mask"):
        with S.observation_nan_policy("mask"), torch.no_grad():
            mll = gpytorch.mlls.ExactMarginalLogLikelihood(lik, model)
            got = mll(model(X), ynan)
    ctx.check("mask.no_nan", bool(torch.isfinite(got).all()), "non-finite MLL under policy mask")
    tol = max(G.chol_tol(kappa, kern.smooth_at_zero(case["kernel"])), 1e-9)
    # the count used for the rescaling: the property's wording admits the number of observed values or (as the pinned tree does) the
    # total event size; anything else is a violation
    ok_total = torch.allclose(got * n, logp.expand_as(got), rtol=tol, atol=tol * max(1.0, float(logp.abs().max())))
    ok_obs = torch.allclose(got * len(idx), logp.expand_as(got), rtol=tol, atol=tol * max(1.0, float(logp.abs().max())))
    ctx.check("mask.value", ok_total or ok_obs, f"mll*N_total={(got * n).tolist()} / mll*N_obs={(got * len(idx)).tolist()} vs log N(y_obs)={logp.tolist()}", kind="value")
    ctx.label("policy=mask", f"normalised_by={'total' if ok_total else ('observed' if ok_obs else 'neither')}")
    ctx.set_nontrivial(bool(miss.any()) and len(idx) >= 1)


# ---------------------------------------------------------------------------------------------------
# expected_log_prob / log_marginal terms
# ---------------------------------------------------------------------------------------------------
@st.composite
def terms_case(draw):
    n = draw(st.integers(1, 5))
    batch = draw(st.sampled_from([[], [], [2]]))
    A_ = draw(kern.arr(batch + [n, n], kern.REAL))
    return {
        "n": n, "batch": batch, "mean": draw(kern.arr(batch + [n], kern.REAL)), "root": A_, "jitter": draw(kern.pos(0.05, 1.0)),
        "noise": draw(kern.pos(0.02, 2.0)), "y": draw(kern.arr(batch + [n], kern.REAL)), "missing": draw(_mask_strategy(batch + [n])),
        "policy": draw(st.sampled_from(["mask", "fill"])),
    }


def run_terms(case, ctx: Ctx):
    ctx.cls = f"terms|b{case['batch']}|{case['policy']}"
    n = case["n"]
    R = T(case["root"])
    C = R @ R.transpose(-1, -2) + case["jitter"] * torch.eye(n)
    m, y = T(case["mean"]), T(case["y"])
    miss = torch.tensor(case["missing"], dtype=torch.bool)
    ynan = _apply_nan(y, miss)
    s2 = case["noise"]
    with ctx.observing("build"):
        lik = gpytorch.likelihoods.GaussianLikelihood()
        lik.noise = T([s2])
        dist = gpytorch.distributions.MultivariateNormal(m, C)
    var = C.diagonal(dim1=-1, dim2=-2)
    elp_w = -0.5 * (math.log(2 * math.pi * s2) + ((y - m) ** 2 + var) / s2)
    lm_w = -0.5 * (torch.log(2 * math.pi * (var + s2)) + (y - m) ** 2 / (var + s2))
    with ctx.observing("terms"):
        with S.observation_nan_policy(case["policy"]), torch.no_grad():
            elp = lik.expected_log_prob(ynan, dist)
            lmg = lik.log_marginal(ynan, dist)
    for name, got, want in (("expected_log_prob", elp, elp_w), ("log_marginal", lmg, lm_w)):
        ctx.check(f"{case['policy']}.{name}.no_nan", bool(torch.isfinite(got).all()), "non-finite term")
        if case["policy"] == "mask":
            obs = ~(miss.reshape(-1, n).any(0))
            ctx.close(f"mask.{name}", got, want[..., obs], rtol=1e-9, atol=1e-11)
        else:
            ctx.close(f"fill.{name}", got, torch.where(miss, torch.zeros_like(want), want), rtol=1e-9, atol=1e-11)
    ctx.set_nontrivial(bool(miss.any()))
    ctx.label(f"terms.policy={case['policy']}", f"terms.batch={case['batch']}")


# ---------------------------------------------------------------------------------------------------
# multitask: NaNs in individual (point, task) entries
# ---------------------------------------------------------------------------------------------------
@st.composite
def multitask_case(draw):
    case = draw(MT.multitask_case(nmax=4, nsmax=2, test_batches=False))
    case["missing"] = draw(_mask_strategy([case["n"] * case["t"]]))
    case["rows"] = draw(st.integers(0, 3)) == 0  # additionally a whole row missing
    case["policies"] = draw(st.lists(st.sampled_from(["mask", "fill"]), min_size=1, max_size=2))
    return case


def run_multitask(case, ctx: Ctx):
    t, n, ns = case["t"], case["n"], case["ns"]
    ctx.cls = f"multitask|{MT.cell(case)}|{'-'.join(case['policies'])}"
    X, y, Xs = T(case["X"]), T(case["y"]), T(case["Xs"])
    miss = torch.tensor(case["missing"], dtype=torch.bool).reshape(n, t).clone()
    if case["rows"] and n >= 2:
        miss[0, :] = True
        if bool(miss.all()):
            miss[-1, -1] = False
    ynan = _apply_nan(y, miss)
    with ctx.observing("build"):
        model, lik = MT.build_multitask(dict(case, y=ynan.tolist()))
        model.eval()
        lik.eval()
    with ctx.observing("own_prior"):
        Kxx, Kxs, Kss, mx, ms = G.own_prior_blocks(model, X, Xs)
        mx, ms = mx.reshape(-1), ms.reshape(-1)
    Sfull = MT.ref_noise(case, n)
    idx = torch.nonzero(~miss.reshape(-1)).reshape(-1)
    mean_w, cov_w, kappa, _ = G.dense_conditional(Kxx[idx][:, idx], Kxs[idx], Kss, mx[idx], ms, None, y.reshape(-1)[idx], smat=Sfull[idx][:, idx])
    tol = max(G.chol_tol(kappa, kern.smooth_at_zero(case["kernel"])), 1e-9)
    scale = max(1.0, float(cov_w.abs().max()), float(mean_w.abs().max()))
    for policy in case["policies"]:
        with ctx.observing(f"predict.{policy}"):
            with S.observation_nan_policy(policy), torch.no_grad():
                out = model(Xs)
                gm, gc = out.mean, out.covariance_matrix
        ctx.check(f"{policy}.no_nan", bool(torch.isfinite(gm).all() and torch.isfinite(gc).all()), "non-finite posterior")
        ctx.close(f"{policy}.mean", gm, mean_w.reshape(ns, t), rtol=tol, atol=tol, scale=scale)
        ctx.close(f"{policy}.cov", gc, cov_w, rtol=tol, atol=tol, scale=scale)
    ctx.set_nontrivial(bool(miss.any()))
    ctx.label("multitask", f"mt.policies={'-'.join(case['policies'])}", f"mt.rows={case['rows']}", MT.cell(case))


RULE = ("exact-GP recipes (single output with model/data batch; Kronecker multitask) x NaN pattern over the targets (none, one, random subset, "
        "all-but-one, per batch element, per (point, task) entry, whole rows) x policy sequence over {mask, fill} on the same model object x "
        "fast_pred_var / detach / lazy. Oracle: dense conditional / log density after deleting the missing entries (union over the batch for "
        "'mask' as documented, per element for 'fill'). Non-trivial: >= 1 missing and >= 1 observed entry, and deleting changes the posterior "
        "covariance by > 1e-4; distinct = distinct canonical case.")

SUBCHECKS = [
    Subcheck("nan.posterior", run_posterior, strategy=posterior_case, quick=800, thorough=25000, min_shard=40),
    Subcheck("nan.mll", run_mll, strategy=mll_case, quick=500, thorough=12000, min_shard=40),
    Subcheck("nan.likelihood_terms", run_terms, strategy=terms_case, quick=800, thorough=40000, min_shard=100),
    Subcheck("nan.multitask", run_multitask, strategy=multitask_case, quick=400, thorough=10000, min_shard=40),
]

SPEC = PropertySpec(
    pid="C16",
    rule=RULE,
    assumptions=[
        "float64, CPU, Cholesky-backed paths",
        "'mask' deletes an observation for the whole batch if it is NaN in any batch element (documented); 'fill' deletes per batch element",
        "MLL under 'mask': either normalisation (observed count, or total event size as the pinned tree does) is accepted",
    ],
    subchecks=SUBCHECKS,
)

"""C07 - every covariance handed out is a valid covariance.

(a) gram.*      Gram matrices K(x, x) of every kernel that is positive definite on its documented domain, on inputs with
                exact duplicates, rows eps apart (1e-12 ... 1e-3) and clusters, hyper-parameters over 1e-3 ... 1e3:
                symmetric and lambda_min >= -tau * lambda_max with a *modelled* rounding tolerance tau (below).
(b) exact.covariances / variational.covariances
                prior, posterior (all C01 settings), variational q(f) (eval mode) and marginal likelihood(.) covariances
                are symmetric and PSD within the kappa-scaled tolerance of DESIGN 1.4.
(c) exact.covariances (prior - posterior PSD) and cond.nested (adding observations never increases a posterior variance).
(d) variance.floor   variance / stddev are finite, real and >= settings.min_variance.value(dtype), default and inside a
                generated block, float32 and float64, including raw diagonals that are slightly negative.
(e) noise.constraint / noise.fixed   likelihood.noise >= the constraint's lower bound for raw values over the float range;
                FixedGaussianNoise clamps to settings.min_fixed_noise.value(dtype).

The rounding model for (a).  The library evaluates squared scaled distances by quadratic expansion after centring
(gpytorch.kernels.kernel.sq_dist: |a|^2 + |b|^2 - 2 a.b with a = (x - xbar) / lengthscale), so a squared scaled distance
carries an absolute error delta ~ 8 eps R^2, R = max_i |(x_i - xbar) / lengthscale|.  A kernel that is smooth in r^2 (RBF,
RQ, Matern-5/2, RBF derivative kernels) turns that into a relative entry error e = delta; a kernel with a kink at r = 0
(Matern-1/2, -3/2, piecewise polynomial, cosine, the Hessian block of the Matern-5/2 derivative kernel) into e = sqrt(delta),
because r = sqrt(r^2).  Entry errors of size e * scale move eigenvalues by at most N e scale, and lambda_max >= scale, hence
    tau = 100 N (eps + e)                     (N = matrix size, 100 = safety factor of the design).
Kernels that do not go through sq_dist get their own e from the same kind of argument (see `model_error`): inner-product
kernels and explicit feature maps (Linear, Polynomial, SpectralDelta, RFF, Index, Hamming) e = 0; Periodic (1-d distances
through sq_dist, then sin^2 / lengthscale) e = sum_k 16 eps (pi R_k / p_k)^2 / l_k; SpectralMixture (differences of rounded
products x * mu, x * sigma) e = 20 eps sum_k max|x_k| max_q (mu_qk + sigma_qk).  Sums add the e of their parts (lambda_max
of a sum of PSD matrices dominates every part), products as well (first order), ScaleKernel leaves e unchanged.
Symmetry is asserted at 1e-12 * scale + 2 e * scale: the quadratic expansion accumulates |a|^2 + |b|^2 - 2 a.b in a
different order for (i, j) and (j, i), so K - K^T carries the same entry error e (it is 0 for R = O(1))."""
from __future__ import annotations

import math

import torch
from hypothesis import strategies as st

import gpytorch
from gpytorch import kernels as K
from gpytorch import settings as S
from gpytorch.distributions import MultitaskMultivariateNormal, MultivariateNormal

from pbt import gpmodel as G
from pbt import kern
from pbt import var_model as VM
from pbt import var_oracle as VO
from pbt.core import Ctx, Discard, PropertySpec, Subcheck

T = torch.tensor
EPS = 2.220446049250313e-16
F64, F32 = torch.float64, torch.float32
DT = {"float64": F64, "float32": F32}
NEAR = [1e-12, 1e-11, 1e-10, 1e-9, 1e-8, 1e-7, 1e-6, 1e-5, 1e-4, 1e-3]


def _target(value: float, label: str):
    """hypothesis.target, silently skipped outside a Hypothesis test (replay / enumeration)."""
    import hypothesis

    try:
        in_test = hypothesis.currently_in_test_context()
    except Exception:  # noqa: BLE001
        in_test = False
    if in_test and math.isfinite(value):
        hypothesis.target(float(value), label=label)


# ====================================================================================================
# generators: inputs with duplicates / near-duplicates / clusters, wide hyper-parameter ranges
# ====================================================================================================
@st.composite
def clustered(draw, n, d):
    """n rows in [-3, 3]^d: m <= n distinct centres (lattice + general floats); every further row is attached to an
    existing row - an exact copy, or that row + eps * u with eps in 1e-12 ... 1e-3 (chains of those form clusters)"""
    m = draw(st.integers(1, n))
    rows = [list(r) for r in draw(kern.points(m, d))]
    while len(rows) < n:
        j = draw(st.integers(0, len(rows) - 1))
        if draw(st.integers(0, 3)) == 0:
            rows.append(list(rows[j]))
        else:
            e = draw(st.sampled_from(NEAR))
            u = draw(st.lists(st.sampled_from([-1.0, 0.0, 1.0, 0.5]), min_size=d, max_size=d))
            if not any(u):
                u[0] = 1.0
            rows.append([a + e * b for a, b in zip(rows[j], u)])
    perm = draw(st.permutations(list(range(n))))
    return [rows[i] for i in perm]


def geometry(X):
    """(#pairs of identical rows, #pairs of distinct rows closer than 2e-3 in max-norm)"""
    D = (X.unsqueeze(-2) - X.unsqueeze(-3)).abs().amax(-1)
    iu = torch.triu_indices(X.shape[-2], X.shape[-2], 1)
    Dp = D[iu[0], iu[1]]
    return int((Dp == 0).sum()), int(((Dp > 0) & (Dp <= 2e-3)).sum())


def wide(lo, hi, mid=None):
    """positive hyper-parameter over [lo, hi]: moderate values (keeps tau near 100 N eps for most cases), round decades, and
    log-uniform floats with 4 significant digits"""
    decades = [v for v in (1e-3, 1e-2, 0.03, 0.1, 1.0, 10.0, 30.0, 100.0, 1e3) if lo <= v <= hi]
    mid = mid if mid is not None else kern.pos(max(lo, 0.3), min(hi, 5.0))
    logu = st.floats(math.log10(lo), math.log10(hi), allow_nan=False).map(lambda e: min(hi, max(lo, float(f"{10.0 ** e:.4g}"))))
    return st.one_of(mid, mid, st.sampled_from(decades), logu)


SMOOTH_STAT = ["RBF", "RQ", "Matern2.5"]
KINK_STAT = ["Matern0.5", "Matern1.5", "PP0", "PP1", "PP2", "PP3"]
LEAVES = kern.BASIC  # 9 stationary + Periodic, Linear, Poly1-3, Cosine (on one dimension), SM1, SM2, Constant


@st.composite
def wide_leaf(draw, d_in, names=None, allow_ad=True):
    """a non-composite kernel recipe (format of pbt.kern) with hyper-parameters over the wide ranges"""
    name = draw(st.sampled_from(names or LEAVES))
    ad, d = None, d_in
    if name == "Cosine" and d_in >= 2:
        ad = [draw(st.integers(0, d_in - 1))]  # positive definite on 1-d inputs only
        d = 1
    elif allow_ad and d_in >= 2 and draw(st.integers(0, 3)) == 0:
        k = draw(st.integers(1, d_in - 1))
        ad = draw(st.permutations(list(range(d_in))).map(lambda p: sorted(p[:k])))
        d = k
    r = {"k": name, "batch": [], "ad": ad, "d": d, "p": {}}
    ard = False
    if name in kern.STATIONARY or name in ("Periodic", "Linear"):
        ard = draw(st.booleans()) if d >= 2 else draw(st.integers(0, 3)) == 0
    r["ard"] = ard
    ld = d if ard else 1
    if name in kern.STATIONARY:
        r["p"]["lengthscale"] = draw(kern.arr([1, ld], wide(1e-3, 1e3)))
        if name == "RQ":
            r["p"]["alpha"] = draw(kern.arr([1], wide(0.05, 50.0)))
    elif name == "Periodic":
        r["p"]["lengthscale"] = draw(kern.arr([1, ld], wide(1e-3, 1e3)))
        r["p"]["period_length"] = draw(kern.arr([1, ld], wide(0.05, 50.0)))
    elif name == "Linear":
        r["p"]["variance"] = draw(kern.arr([1, ld], wide(1e-3, 1e3)))
    elif name.startswith("Poly"):
        r["p"]["offset"] = draw(kern.arr([1], wide(1e-3, 1e3)))
    elif name == "Cosine":
        r["p"]["period_length"] = draw(kern.arr([1, 1], wide(0.05, 50.0)))
    elif name.startswith("SM"):
        q = int(name[2:])
        r["p"]["mixture_weights"] = draw(kern.arr([q], kern.pos(0.1, 2.0)))
        r["p"]["mixture_means"] = draw(kern.arr([q, 1, d], wide(1e-2, 10.0, kern.pos(0.05, 1.0))))
        r["p"]["mixture_scales"] = draw(kern.arr([q, 1, d], wide(1e-2, 10.0, kern.pos(0.05, 1.0))))
    elif name == "Constant":
        r["p"]["constant"] = draw(wide(1e-3, 1e3))
    return r


@st.composite
def wide_tree(draw, d_in, depth=2, top=True):
    kinds = ["scale", "add", "prod"] if top else ["base", "base", "scale", "add", "prod"]
    kind = draw(st.sampled_from(kinds)) if depth > 0 else "base"
    if kind == "base":
        return draw(wide_leaf(d_in))
    if kind == "scale":
        return {"k": "Scale", "batch": [], "base": draw(wide_tree(d_in, depth - 1, False)), "p": {"outputscale": draw(wide(1e-3, 1e3))}}
    parts = [draw(wide_tree(d_in, depth - 1, False)) for _ in range(draw(st.integers(2, 3)))]
    if kind == "add":
        # at most one bare LinearKernel summand (see pbt.kern.kernel_tree: the dependency adds two low-rank roots through an
        # SVD that fails on rank-deficient data, which is exactly the data generated here)
        seen = False
        for i, p_ in enumerate(parts):
            if p_["k"] == "Linear":
                if seen:
                    parts[i] = {"k": "Poly1", "batch": [], "ad": p_["ad"], "d": p_["d"], "ard": False, "p": {"offset": [draw(wide(1e-3, 1e3))]}}
                seen = True
    return {"k": "Add" if kind == "add" else "Prod", "parts": parts, "batch": []}


# ====================================================================================================
# the modelled entry error e (see module docstring); all from the recipe's public values and the inputs
# ====================================================================================================
def _sqdist_error(Xs, kink):
    """Xs: centred-able scaled inputs (n, d) as the library passes them to sq_dist"""
    R = float((Xs - Xs.mean(-2, keepdim=True)).norm(dim=-1).max())
    delta = 8 * EPS * R * R
    return math.sqrt(delta) if kink else delta


def model_error(r, X):
    name = r["k"]
    if name == "Scale":
        return model_error(r["base"], X)
    if name in ("Add", "Prod"):
        return sum(model_error(p, X) for p in r["parts"])
    if r.get("ad") is not None:
        X = X[..., r["ad"]]
    p = {k: kern._t(v) for k, v in r["p"].items()}
    if name in kern.STATIONARY:
        return _sqdist_error(X / p["lengthscale"], name in KINK_STAT)
    if name == "Cosine":
        return _sqdist_error(X / p["period_length"], True)
    if name == "Periodic":
        Xc = (X - X.mean(-2, keepdim=True)).abs().amax(-2)  # per dimension
        Rk = math.pi * Xc / p["period_length"].reshape(-1)
        return float((16 * EPS * Rk.pow(2) / p["lengthscale"].reshape(-1)).sum())
    if name.startswith("SM"):
        xmax = X.abs().amax(-2)  # (d,)
        per = (p["mixture_means"] + p["mixture_scales"]).amax(0).reshape(-1)  # max over mixtures, (d,)
        return float(20 * EPS * (xmax * per).sum())
    if name.startswith("Poly"):
        return int(name[4:]) * EPS
    return 0.0  # Linear, Constant: inner products / constants


# ====================================================================================================
# judging a Gram matrix
# ====================================================================================================
def judge_gram(ctx: Ctx, Kd, e, classes, nontrivial, search=False):
    """Kd: dense (N, N) float64 Gram matrix as returned by the library; e: modelled relative entry error"""
    N = Kd.shape[-1]
    if not ctx.check("gram.finite", bool(torch.isfinite(Kd).all()), f"non-finite entries in K(x,x): {Kd.reshape(-1)[:6].tolist()}"):
        return
    scale = float(Kd.abs().max())
    asym = float((Kd - Kd.transpose(-1, -2)).abs().max())
    # 1e-12 * scale (design) plus the modelled entry error: sq_dist accumulates (i, j) and (j, i) in different orders
    ctx.check("gram.symmetric", asym <= (1e-12 + 2 * e) * scale, f"max|K - K^T| = {asym:.3e} at scale {scale:.3e} (modelled e = {e:.2e})")
    ev = torch.linalg.eigvalsh(0.5 * (Kd + Kd.transpose(-1, -2)))
    lmin, lmax = float(ev[0]), float(ev[-1])
    tau = 100 * N * (EPS + e)
    ratio = (-lmin / lmax) if lmax > 0 else (0.0 if lmin >= 0 else math.inf)
    ctx.check("gram.psd", lmin >= -tau * max(lmax, 0.0), f"lambda_min = {lmin:.6e}, lambda_max = {lmax:.6e}: -lmin/lmax = {ratio:.3e} > tau = {tau:.3e} (N = {N}, e = {e:.2e})")
    if search:
        # only the gram.search.* sub-checks steer Hypothesis: its hill-climbing phase spends about half of the budget on
        # variations of the current worst case, which would empty the class histogram of the coverage sub-checks
        _target(max(min(ratio, 1.0), -1.0), "-lambda_min/lambda_max")
    ctx.notes["c07"] = {"classes": list(classes), "ratio": ratio, "tau": tau, "asym": asym / scale if scale > 0 else 0.0, "e": e}
    ctx.set_nontrivial(nontrivial)


def extreme(vals, lo=0.03, hi=30.0):
    return any(v <= lo or v >= hi for v in vals)


def _flat(v):
    return [float(x) for x in torch.as_tensor(v, dtype=F64).reshape(-1)]


def recipe_extreme(r):
    if r["k"] == "Scale":
        return recipe_extreme(r["base"])
    if r["k"] in ("Add", "Prod"):
        return any(recipe_extreme(p) for p in r["parts"])
    return any(extreme(_flat(v)) for k, v in r["p"].items() if k in ("lengthscale", "period_length"))


# ====================================================================================================
# (a1) basic kernels and compositions
# ====================================================================================================
@st.composite
def gram_basic_case(draw, composed=False):
    d = draw(st.integers(1, 3))
    n = draw(st.integers(2, 12))
    r = draw(wide_tree(d)) if composed else draw(wide_leaf(d))
    return {"d": d, "n": n, "kernel": r, "X": draw(clustered(n, d)), "lazy": draw(st.booleans()),
            "req_grad": draw(st.integers(0, 4)) == 0}


def _tree_classes(r):
    out = {l["k"] for l in kern.leaves(r)}
    def walk(q):
        if q["k"] in ("Scale", "Add", "Prod"):
            out.add(q["k"])
            for c in ([q["base"]] if q["k"] == "Scale" else q["parts"]):
                walk(c)
    walk(r)
    return sorted(out)


def run_gram_basic(case, ctx: Ctx):
    r = case["kernel"]
    ctx.cls = kern.describe(r)
    X = T(case["X"], dtype=F64)
    e = model_error(r, X)
    with ctx.observing("build"):
        k = kern.build_kernel(r)
    x = X.clone().requires_grad_(True) if case["req_grad"] else X
    with ctx.observing("evaluate"):
        with S.lazily_evaluate_kernels(case["lazy"]):
            Kx = k(x).to_dense()
        Kd = Kx.detach()
        grad = None
        if case["req_grad"] and Kx.requires_grad:
            n = Kd.shape[-1]
            i = torch.arange(n, dtype=F64)
            W = 1.0 + ((3 * i.unsqueeze(-1) + 5 * i.unsqueeze(-2)) % 7)  # a fixed non-symmetric weighting
            (Kx * W).sum().backward()
            grad = x.grad
    dups, near = geometry(X)
    classes = _tree_classes(r)
    judge_gram(ctx, Kd, e, classes, dups + near > 0 or recipe_extreme(r), case.get("search", False))
    if grad is not None:
        # a covariance that is differentiated w.r.t. its inputs (as in acquisition optimisation) must not produce NaN on
        # coincident rows: `dist` guards sqrt(0) with clamp_min(1e-30)
        ctx.check("gram.input_grad_finite", bool(torch.isfinite(grad).all()), f"d sum(W*K) / dx has non-finite entries: {grad.reshape(-1)[:6].tolist()}")
    ctx.label(*[f"class={c}" for c in classes], f"dups={min(dups, 3)}", f"near={min(near, 3)}", f"extreme={recipe_extreme(r)}",
              f"req_grad={case['req_grad']}")


# ====================================================================================================
# (a2) structured / exotic kernels
# ====================================================================================================
SPECIAL = ["Cylindrical", "HammingIMQ", "Index", "Multitask", "LCM", "Arc", "AdditiveStructure", "ProductStructure", "SpectralDelta", "RFF"]
STRUCT_BASE = ["RBF", "Matern0.5", "Matern1.5", "Matern2.5", "RQ", "PP0", "PP1", "PP2"]


@st.composite
def task_part(draw, t):
    rank = draw(st.integers(1, t))
    return {"rank": rank, "covar_factor": draw(kern.arr([t, rank], kern.REAL)), "var": draw(kern.arr([t], wide(1e-4, 10.0, kern.pos(0.05, 2.0))))}


@st.composite
def gram_special_case(draw, names=None):
    name = draw(st.sampled_from(names or SPECIAL))
    case = {"k": name, "torch_seed": draw(st.integers(0, 2**31 - 1)), "lazy": draw(st.booleans())}
    if name == "HammingIMQ":
        V, L = draw(st.integers(2, 4)), draw(st.integers(1, 4))
        n = draw(st.integers(2, 12))
        m = draw(st.integers(1, n))
        seqs = [draw(st.lists(st.integers(0, V - 1), min_size=L, max_size=L)) for _ in range(m)]
        rows = list(seqs)
        while len(rows) < n:  # duplicates, and copies differing in one position
            s = list(rows[draw(st.integers(0, len(rows) - 1))])
            if draw(st.booleans()):
                s[draw(st.integers(0, L - 1))] = draw(st.integers(0, V - 1))
            rows.append(s)
        case.update(n=n, V=V, L=L, seqs=rows, alpha=draw(wide(1e-3, 1e3)), beta=draw(wide(1e-2, 100.0)))
        return case
    if name == "Index":
        t = draw(st.integers(1, 4))
        n = draw(st.integers(2, 12))
        case.update(n=n, t=t, task=draw(task_part(t)), idx=draw(st.lists(st.integers(0, t - 1), min_size=n, max_size=n)))
        return case
    d = draw(st.integers(2, 3)) if name in ("AdditiveStructure", "ProductStructure") else draw(st.integers(1, 3))
    n = draw(st.integers(2, 12 if name not in ("Multitask", "LCM") else 8))
    case.update(n=n, d=d, X=draw(clustered(n, d)))
    if name == "Cylindrical":
        P = draw(st.integers(1, 4))
        case.update(P=P, weights=draw(kern.arr([P], kern.pos(0.05, 3.0))), alpha=draw(kern.pos(0.3, 3.0)), beta=draw(kern.pos(0.3, 3.0)),
                    radial=draw(wide_leaf(1, names=SMOOTH_STAT + ["Matern0.5", "Matern1.5"], allow_ad=False)),
                    radius=draw(st.sampled_from([0.99, 0.5, 0.1])))
        # into the unit ball: the generated rows lie in [-3, 3]^d
        s = case["radius"] / (3.0 * math.sqrt(d))
        case["X"] = [[v * s for v in row] for row in case["X"]]
    elif name == "Arc":
        case.update(base=draw(st.sampled_from(["Matern2.5", "RBF", "Matern0.5", "Matern1.5"])),
                    angle=draw(kern.arr([1, d], st.sampled_from([0.15, 0.25, 0.5, 0.75, 0.85]))),
                    radius=draw(kern.arr([1, d], wide(1e-2, 1e2))), lengthscale=draw(kern.arr([1, d], wide(1e-3, 1e3))))
    elif name in ("AdditiveStructure", "ProductStructure"):
        case.update(base=draw(wide_leaf(1, names=STRUCT_BASE, allow_ad=False)))
        case["base"]["ard"] = False
        case["base"]["p"]["lengthscale"] = [[case["base"]["p"]["lengthscale"][0][0]]]
    elif name == "SpectralDelta":
        nd = draw(st.integers(1, 6))
        case.update(num_deltas=nd, Z=draw(kern.arr([nd, d], wide(1e-2, 10.0))), lengthscale=draw(wide(1e-3, 1e3)))
    elif name == "RFF":
        case.update(num_samples=draw(st.integers(1, 6)), lengthscale=draw(wide(1e-3, 1e3)))
    elif name == "Multitask":
        t = draw(st.integers(2, 3))
        case.update(t=t, data=draw(wide_leaf(d, names=kern.STATIONARY + ["Periodic", "Linear"])), task=draw(task_part(t)))
    elif name == "LCM":
        t = draw(st.integers(2, 3))
        nb = draw(st.integers(1, 3))
        rank = draw(st.integers(1, t))
        case.update(t=t, rank=rank, bases=[draw(wide_leaf(d, names=kern.STATIONARY + ["Periodic"])) for _ in range(nb)],
                    tasks=[{"rank": rank, "covar_factor": draw(kern.arr([t, rank], kern.REAL)),
                            "var": draw(kern.arr([t], wide(1e-4, 10.0, kern.pos(0.05, 2.0))))} for _ in range(nb)])
    return case


def _set_task(index_kernel, task):
    index_kernel.initialize(covar_factor=T(task["covar_factor"], dtype=F64))
    index_kernel.var = T(task["var"], dtype=F64)


def build_special(case):
    """(kernel, input tensor, modelled e, matrix-size factor, kink?)"""
    name = case["k"]
    torch.manual_seed(case["torch_seed"])  # SpectralDelta / RFF draw their frequencies in the constructor
    if name == "HammingIMQ":
        k = K.HammingIMQKernel(vocab_size=case["V"])
        k.alpha, k.beta = T([case["alpha"]]), T([case["beta"]])
        s = T(case["seqs"], dtype=torch.long)
        x = torch.nn.functional.one_hot(s, case["V"]).to(F64).reshape(s.shape[0], -1)
        return k, x, 0.0
    if name == "Index":
        k = K.IndexKernel(num_tasks=case["t"], rank=case["task"]["rank"])
        _set_task(k, case["task"])
        return k, T(case["idx"], dtype=torch.long).unsqueeze(-1), 0.0
    X = T(case["X"], dtype=F64)
    if name == "Cylindrical":
        k = K.CylindricalKernel(num_angular_weights=case["P"], radial_base_kernel=kern.build_kernel(case["radial"]))
        k.angular_weights, k.alpha, k.beta = T(case["weights"]), T([case["alpha"]]), T([case["beta"]])
        # the radial kernel sees the 1-d points kuma(|x|) in [0, 1]: R <= 1 / lengthscale; the angular part is a polynomial
        # with positive coefficients in a Gram matrix of unit vectors (P rounding errors)
        ls = float(T(case["radial"]["p"]["lengthscale"]).min())
        delta = 8 * EPS / ls**2
        e = (math.sqrt(delta) if case["radial"]["k"] in KINK_STAT else delta) + case["P"] * EPS
        return k, X, e
    if name == "Arc":
        base = kern.build_kernel({"k": case["base"], "batch": [], "ad": None, "d": 2 * case["d"], "ard": False, "p": {}})
        k = K.ArcKernel(base, ard_num_dims=case["d"])
        k.angle, k.radius, k.lengthscale = T(case["angle"]), T(case["radius"]), T(case["lengthscale"])
        # the base kernel (lengthscale 1) sees the embedded points (radius sin, radius cos): |e_i - ebar| <= 2 |radius|_2
        R = 2 * float(T(case["radius"]).norm())
        delta = 8 * EPS * R * R
        return k, X, (math.sqrt(delta) if case["base"] in KINK_STAT else delta)
    if name in ("AdditiveStructure", "ProductStructure"):
        base = kern.build_kernel(case["base"])
        k = (K.AdditiveStructureKernel if name == "AdditiveStructure" else K.ProductStructureKernel)(base, num_dims=case["d"])
        ls = float(T(case["base"]["p"]["lengthscale"]).reshape(-1)[0])
        e = sum(_sqdist_error(X[:, j:j + 1] / ls, case["base"]["k"] in KINK_STAT) for j in range(case["d"]))
        return k, X, e
    if name == "SpectralDelta":
        k = K.SpectralDeltaKernel(num_dims=case["d"], num_deltas=case["num_deltas"])
        k.Z = T(case["Z"], dtype=F64)
        k.lengthscale = case["lengthscale"]
        return k, X, 0.0
    if name == "RFF":
        k = K.RFFKernel(num_samples=case["num_samples"], num_dims=case["d"])
        k.lengthscale = case["lengthscale"]
        return k, X, 0.0
    if name == "Multitask":
        k = K.MultitaskKernel(kern.build_kernel(case["data"]), num_tasks=case["t"], rank=case["task"]["rank"])
        _set_task(k.task_covar_module, case["task"])
        return k, X, model_error(case["data"], X)
    if name == "LCM":
        k = K.LCMKernel([kern.build_kernel(b) for b in case["bases"]], num_tasks=case["t"], rank=case["rank"])
        for sub, task in zip(k.covar_module_list, case["tasks"]):
            _set_task(sub.task_covar_module, task)
        return k, X, sum(model_error(b, X) for b in case["bases"])
    raise KeyError(name)


def special_extreme(case):
    vals = []
    for key in ("lengthscale", "alpha", "beta"):
        if key in case:
            vals += _flat(case[key])
    sub = [case[k] for k in ("radial", "base", "data") if isinstance(case.get(k), dict)] + list(case.get("bases", []))
    return extreme(vals) or any(recipe_extreme(r) for r in sub)


def run_gram_special(case, ctx: Ctx):
    name = case["k"]
    sub = case.get("radial") or (case.get("base") if isinstance(case.get("base"), dict) else None) or case.get("data")
    ctx.cls = name + (f"[{sub['k']}]" if sub else (f"[{case['base']}]" if name == "Arc" else ""))
    if name == "LCM" and any(b.get("ad") is not None for b in case["bases"]):
        ctx.cls += "/ad"  # component kernels with active_dims (see out/proposed_known/C07.json)
    with ctx.observing("build"):
        k, x, e = build_special(case)
    with ctx.observing("evaluate"):
        with S.lazily_evaluate_kernels(case["lazy"]), torch.no_grad():
            Kd = k(x).to_dense()
    if name == "HammingIMQ":
        s = T(case["seqs"])
        dups, near = int(((s.unsqueeze(0) != s.unsqueeze(1)).sum(-1) == 0).sum() - s.shape[0]) // 2, 0
    elif name == "Index":
        dups, near = case["n"] - len(set(case["idx"])), 0
    else:
        dups, near = geometry(x)
    judge_gram(ctx, Kd, e, [name], dups + near > 0 or special_extreme(case), case.get("search", False))
    ctx.label(f"class={name}", f"dups={min(dups, 3)}", f"near={min(near, 3)}", f"extreme={special_extreme(case)}")


# ====================================================================================================
# (a3) derivative kernels
# ====================================================================================================
DERIV = ["RBFGrad", "Matern52Grad", "PolyGrad", "RBFGradGrad"]


@st.composite
def gram_deriv_case(draw):
    name = draw(st.sampled_from(DERIV))
    d = draw(st.integers(1, 2))
    n = draw(st.integers(2, 12))
    case = {"k": name, "d": d, "n": n, "X": draw(clustered(n, d)), "lazy": draw(st.booleans())}
    if name == "PolyGrad":
        case.update(power=draw(st.integers(1, 4)), offset=draw(wide(1e-3, 1e2)))
        if draw(st.integers(0, 2)) == 0:
            # engineered like the coincident rows of the stationary kernels: an offset > 0 for which x_i . x_j + offset
            # vanishes for one pair (lattice inputs: the products are exact)
            X = case["X"]
            neg = [-sum(a * b for a, b in zip(X[i], X[j])) for i in range(n) for j in range(i)]
            neg = sorted({v for v in neg if 1e-3 <= v <= 1e2})
            if neg:
                case["offset"] = draw(st.sampled_from(neg))
                case["zero_base"] = True
    else:
        ard = d >= 2 and draw(st.booleans())
        case.update(ard=ard, lengthscale=draw(kern.arr([1, d if ard else 1], wide(1e-3, 1e3))))
    return case


def run_gram_deriv(case, ctx: Ctx):
    name, d = case["k"], case["d"]
    ctx.cls = name + ("/ard" if case.get("ard") else "") + ("/p1" if case.get("power") == 1 else "")
    X = T(case["X"], dtype=F64)
    with ctx.observing("build"):
        if name == "PolyGrad":
            k = K.PolynomialKernelGrad(power=case["power"])
            k.offset = T([case["offset"]])
            e = case["power"] * EPS
        else:
            cls = {"RBFGrad": K.RBFKernelGrad, "Matern52Grad": K.Matern52KernelGrad, "RBFGradGrad": K.RBFKernelGradGrad}[name]
            k = cls(ard_num_dims=d if case["ard"] else None)
            k.lengthscale = T(case["lengthscale"])
            # value block through sq_dist on the scaled inputs; the derivative blocks multiply it by polynomials in the exact
            # differences (x - x') / l^2, so the entry error stays e relative to lambda_max >= 1 / l_min^2.  The Hessian block of
            # the Matern-5/2 derivative kernel is linear in r near 0 (kink): sqrt(delta).
            e = _sqdist_error(X / T(case["lengthscale"]), name == "Matern52Grad")
    with ctx.observing("evaluate"):
        with S.lazily_evaluate_kernels(case["lazy"]), torch.no_grad():
            Kd = k(X).to_dense()
    per = (2 * d + 1) if name == "RBFGradGrad" else (d + 1)
    ctx.check("gram.shape", tuple(Kd.shape) == (case["n"] * per,) * 2, f"shape {tuple(Kd.shape)}, expected {(case['n'] * per,) * 2}", kind="shape")
    dups, near = geometry(X)
    ext = extreme(_flat(case["lengthscale"])) if "lengthscale" in case else False
    judge_gram(ctx, Kd, e, [name], dups + near > 0 or ext, case.get("search", False))
    ctx.label(f"class={name}", f"dups={min(dups, 3)}", f"near={min(near, 3)}", f"extreme={ext}",
              *([f"polygrad.power={case['power']}", f"polygrad.zero_base={case.get('zero_base', False)}"] if name == "PolyGrad" else []))


# ====================================================================================================
# (b), (c) exact GP: prior, posterior (C01 settings), marginal; prior - posterior
# ====================================================================================================
def psd_report(ctx: Ctx, name, C, tol, scale):
    """symmetric and lambda_min >= -tol * scale for a (batch of) dense covariance(s)"""
    C = C.detach().to(F64)
    if not ctx.check(f"{name}.finite", bool(torch.isfinite(C).all()), f"non-finite entries: {C.reshape(-1)[:6].tolist()}"):
        return None
    asym = float((C - C.transpose(-1, -2)).abs().max())
    ctx.check(f"{name}.symmetric", asym <= tol * scale, f"max|C - C^T| = {asym:.3e} > {tol:.1e} * {scale:.3g}")
    ev = torch.linalg.eigvalsh(0.5 * (C + C.transpose(-1, -2)))
    lmin = float(ev[..., 0].min())
    ctx.check(f"{name}.psd", lmin >= -tol * scale, f"lambda_min = {lmin:.6e} < -{tol:.1e} * {scale:.3g} (lambda_max = {float(ev[..., -1].max()):.4e})")
    return lmin


@st.composite
def exact_cov_case(draw):
    case = draw(G.exact_case())
    case["settings"] = draw(G.pred_settings(case["n"] + case["ns"], allow_skip=False))
    if G.uses_lanczos(case["settings"]) and case["n"] < 3:
        case["settings"]["max_chol"] = 800  # the dependency's Lanczos needs at least a 3x3 matrix
    case["torch_seed"] = draw(st.integers(0, 2**31 - 1))
    return case


def exact_tolerance(case, model, X, y, Xs, ctx):
    """kappa-scaled tolerance of DESIGN 1.4 (as in C01), discarding what that section puts outside the domain"""
    s = case["settings"]
    n, ns = case["n"], case["ns"]
    with ctx.observing("own_prior"):
        Kxx, Kxs, Kss, mx, ms = G.own_prior_blocks(model, X, Xs)
    bshape = torch.broadcast_shapes(torch.Size(case["mb"]), torch.Size(case["xb"]), torch.Size(case["tb"]))
    sdiag = G.ref_noise_diag(case["lik"], n, bshape)
    kmax = 1e5 if G.is_iterative(s) else 1e8
    mean_w, cov_w, kappa, A = G.dense_conditional(Kxx, Kxs, Kss, mx, ms, sdiag, y, kappa_max=kmax)
    if G.uses_lanczos(s):
        ev = torch.linalg.eigvalsh(A)
        gap = float(((ev[..., 1:] - ev[..., :-1]) / ev[..., -1:]).min()) if A.shape[-1] > 1 else 1.0
        if gap < 1e-3 or kappa > 1e4:
            raise Discard("lanczos path: clustered spectrum (relative gap < 1e-3) or kappa > 1e4")
        tol = 2e-3
    elif G.is_iterative(s):
        G.cg_calibration(A, torch.cat([(y - mx).expand(*A.shape[:-1]).unsqueeze(-1), Kxs.expand(*A.shape[:-2], n, ns)], -1), s)
        tol = 1e-4
    else:
        tol = G.chol_tol(kappa, kern.smooth_at_zero(case["kernel"]))
    if kern._contains(case["kernel"], "Prod") and kern._contains(case["kernel"], "Linear"):
        # a product kernel with a LinearKernel factor is evaluated through root decompositions of its factors (Cholesky with the
        # dependency's 1e-8 .. 1e-6 jitter on rank-deficient factors, Lanczos above max_cholesky_size): as in C01
        tol = max(tol, 2e-3 if (s["max_chol"] == 0 and s["fc"][0]) else 1e-6)
    return tol, cov_w, Kss, bshape


def run_exact_cov(case, ctx: Ctx):
    s = case["settings"]
    ctx.cls = f"{case['lik']['l']}{'+' if case['lik'].get('learn') else ''}|mb{case['mb']}|tb{case['tb']}|{'iter' if G.is_iterative(s) else 'chol'}|fpv{int(s['fpv'])}"
    X, y, Xs = T(case["X"]), T(case["y"]), T(case["Xs"])
    with ctx.observing("build"):
        model, lik = G.build_exact(case)
        model.eval()
        lik.eval()
    tol, cov_w, Kss, bshape = exact_tolerance(case, model, X, y, Xs, ctx)
    test_noise = case.get("test_noise")
    with ctx.observing("predict"):
        torch.manual_seed(case["torch_seed"])
        with G.settings_ctx(s), torch.no_grad():
            with S.prior_mode(True):
                pc = model(Xs).covariance_matrix
            out = model(Xs)
            gc = out.covariance_matrix
            pred = lik(out, noise=T(test_noise)) if test_noise is not None else lik(out)
            mc = pred.covariance_matrix
    scale = max(1.0, float(Kss.abs().max()))
    psd_report(ctx, "prior", pc, tol, scale)
    psd_report(ctx, "posterior", gc, tol, scale)
    psd_report(ctx, "marginal", mc, tol, max(scale, float(mc.abs().max())))
    # conditioning never adds uncertainty: prior - posterior is PSD (both as handed out by the library)
    red = psd_report(ctx, "prior_minus_posterior", pc - gc, tol, scale)
    shrink = float((Kss - cov_w).diagonal(dim1=-1, dim2=-2).max())
    ctx.set_nontrivial(case["n"] >= 2 and case["ns"] >= 2 and shrink > 1e-3 * scale)
    ctx.label("dist=exact", G.settings_label(s).split(",")[2], f"chol={s['max_chol']}", f"fpv={int(s['fpv'])}", f"lazy={int(s['lazy'])}",
              f"lik={case['lik']['l']}{'+' if case['lik'].get('learn') else ''}", f"batch={bool(case['mb'] or case['tb'])}", f"iter={G.is_iterative(s)}")


# ----------------------------------------------------------------------------------------------------
# (c) nested data sets
# ----------------------------------------------------------------------------------------------------
@st.composite
def nested_case(draw):
    d = draw(st.integers(1, 3))
    n = draw(st.integers(1, 5))
    m = draw(st.integers(1, 3))
    ns = draw(st.integers(1, 4))
    case = {
        "d": d, "n": n, "m": m, "ns": ns, "mb": [], "xb": [], "tb": [],
        "mean": draw(kern.mean_recipe(d, [])),
        "kernel": draw(kern.kernel_tree(d, [], depth=1, psd_only=True)),
        "lik": draw(G.likelihood_recipe([], [], n + m, ("Gaussian", "Gaussian", "FixedNoise", "FixedNoise+"))),
        "X": draw(kern.points(n + m, d)), "y": draw(kern.arr([n + m], kern.REAL)), "Xs": draw(kern.points(ns, d)),
    }
    st_ = draw(G.pred_settings(n + m + ns, allow_skip=False))
    st_["max_chol"] = 800  # dense paths: the comparison of two models must not be blurred by two CG runs
    case["settings"] = st_
    # test points at / next to an appended point, sometimes
    mode = draw(st.sampled_from(["free", "free", "at_new", "at_old"]))
    if mode != "free":
        case["Xs"][0] = list(case["X"][n if mode == "at_new" else 0])
    case["xs_mode"] = mode
    return case


def run_nested(case, ctx: Ctx):
    n, m, ns = case["n"], case["m"], case["ns"]
    s = case["settings"]
    ctx.cls = f"{case['lik']['l']}{'+' if case['lik'].get('learn') else ''}|fpv{int(s['fpv'])}"
    Xall, yall, Xs = T(case["X"]), T(case["y"]), T(case["Xs"])
    outs, kappas = [], []
    for size in (n, n + m):
        sub = dict(case, X=case["X"][:size], y=case["y"][:size], n=size)
        if case["lik"]["l"] == "FixedNoise":
            sub["lik"] = dict(case["lik"], noise=case["lik"]["noise"][:size])
        with ctx.observing("build"):
            model, lik = G.build_exact(sub)
            model.eval()
            lik.eval()
        with ctx.observing("own_prior"):
            Kxx, Kxs, Kss, mx, ms = G.own_prior_blocks(model, Xall[:size], Xs)
        sd = G.ref_noise_diag(sub["lik"], size, torch.Size([]))
        _, cov_w, kappa, _ = G.dense_conditional(Kxx, Kxs, Kss, mx, ms, sd, yall[:size])
        with ctx.observing("predict"):
            with G.settings_ctx(s), torch.no_grad():
                out = model(Xs)
                outs.append((out.variance, out.covariance_matrix, cov_w))
        kappas.append(kappa)
    tol = G.chol_tol(max(kappas), kern.smooth_at_zero(case["kernel"]))
    (v0, c0, w0), (v1, c1, w1) = outs
    scale = max(1.0, float(c0.abs().max()))
    worst = float((v1 - v0).max())
    ctx.check("nested.variance_not_increased", worst <= tol * scale, f"max(var_D' - var_D) = {worst:.3e} > {tol:.1e} * {scale:.3g}: var_D = {v0.tolist()[:4]}, var_D' = {v1.tolist()[:4]}")
    psd_report(ctx, "nested.cov_D_minus_cov_D'", c0 - c1, tol, scale)
    gain = float((w0 - w1).diagonal().max())
    ctx.set_nontrivial(gain > 1e-3 * scale)
    ctx.label("dist=nested", f"nested.lik={case['lik']['l']}{'+' if case['lik'].get('learn') else ''}", f"nested.xs={case['xs_mode']}")


# ====================================================================================================
# (b) variational q(f) and its marginal
# ====================================================================================================
@st.composite
def var_cov_case(draw):
    strategy = draw(st.sampled_from(["Variational", "Variational", "Unwhitened"]))
    dist = draw(st.sampled_from(VO.DISTS))
    d = draw(st.integers(1, 2))
    M = draw(st.integers(1, 5))
    n = draw(st.integers(1, 6))
    model = {"strategy": strategy, "Z": draw(VM.inducing(M, d)), "learn_z": draw(st.booleans()),
             "jitter": draw(st.sampled_from(VM.JITTERS + [None])), "dist": dist, "vb": [],
             "mean": draw(kern.mean_recipe(d, [])), "kernel": draw(VM.svgp_kernel(d, []))}
    X = draw(kern.points(n, d))
    xmode = draw(st.sampled_from(["free", "free", "touch", "near"]))
    if xmode == "touch":
        X[0] = list(model["Z"][0])
    elif xmode == "near":
        X[0] = [v + 1e-6 for v in model["Z"][0]]
    return {"d": d, "M": M, "n": n, "model": model, "X": X, "xmode": xmode, "q": draw(VM.q_params(M, [])),
            "noise": draw(kern.pos(0.01, 2.0)), "torch_seed": draw(st.integers(0, 2**31 - 1))}


def run_var_cov(case, ctx: Ctx):
    r = case["model"]
    strat, dist = r["strategy"], r["dist"]
    ctx.cls = f"{strat}|{dist}"
    X = T(case["X"], dtype=F64)
    jit = 1e-6 if r["jitter"] is None else float(r["jitter"])  # documented default of variational_cholesky_jitter (double)
    m, Sq = VM.q_tensors(case["q"])
    blk = VO.prior_blocks(r["kernel"], r["mean"], r["Z"], X, jit, [])
    if blk.kappa > 1e8:
        raise Discard("ill-conditioned Kzz (kappa > 1e8)")
    tol = G.chol_tol(max(blk.kappa, VO.cond(Sq)), kern.smooth_at_zero(r["kernel"]))
    Zt = T(r["Z"], dtype=F64)
    if strat == "Unwhitened" and dist == "Delta" and tuple(X.shape) == tuple(Zt.shape) and torch.equal(X, Zt):
        # the unwhitened strategy returns q(u) itself at x == Z and refuses (RuntimeError) when q(u) is a point mass: no covariance (as in C14)
        raise Discard("x == Z with a Delta q(u) on the unwhitened strategy (a point mass at u: no Gaussian to return)")
    with ctx.observing("build"):
        model = VM.RecipeSVGP(r)
        VM.set_q(VM.base_strategy(model), VO.encode(dist, m, Sq), mark=True)
        lik = gpytorch.likelihoods.GaussianLikelihood()
        lik.noise = T([case["noise"]])
        model.eval()
        lik.eval()
    with ctx.observing("forward"):
        torch.manual_seed(case["torch_seed"])
        with torch.no_grad():
            out = model(X)
            qc = out.covariance_matrix
            qv = out.variance
            mc = lik(out).covariance_matrix
            pc = model(X, prior=True).covariance_matrix
    scale = max(1.0, float(blk.Kxx.abs().max()), float(Sq.abs().max()))
    psd_report(ctx, "q_f", qc, tol, scale)
    psd_report(ctx, "marginal", mc, tol, scale + case["noise"])
    psd_report(ctx, "prior", pc, tol, scale)
    minv = S.min_variance.value(qv.dtype)
    ctx.check("q_f.variance_floor", bool((qv >= minv).all()) and bool(torch.isfinite(qv).all()), f"variance {qv.tolist()[:4]} below min_variance {minv}")
    ctx.set_nontrivial(VM.q_is_nontrivial(m, Sq) and case["n"] >= 2)
    ctx.label("dist=variational", f"cell={strat}/{dist}", f"xmode={case['xmode']}")


# ====================================================================================================
# (d) reported variances respect settings.min_variance
# ====================================================================================================
MINVAR_DEFAULT = {"float32": 1e-6, "float64": 1e-10}  # documented defaults (settings.min_variance docstring)
FLOORS = [1e-12, 1e-10, 1e-8, 1e-6, 1e-4, 1e-2, 0.5]


@st.composite
def block_values(draw):
    """None (no block) or the (float_value, double_value) of a generated block; either may be None (= leave that field)"""
    if draw(st.integers(0, 2)) == 0:
        return None
    fv = draw(st.one_of(st.none(), st.sampled_from(FLOORS)))
    dv = draw(st.one_of(st.none(), st.sampled_from(FLOORS)))
    return {"float": fv, "double": dv}


def expected_floor(block, dtype_name, defaults):
    if block is None:
        return defaults[dtype_name]
    v = block["float" if dtype_name == "float32" else "double"]
    return defaults[dtype_name] if v is None else v


class maybe_block:
    def __init__(self, setting, block):
        self.cm = None if block is None else setting(float_value=block["float"], double_value=block["double"])

    def __enter__(self):
        if self.cm is not None:
            self.cm.__enter__()
        return self

    def __exit__(self, *a):
        if self.cm is not None:
            return self.cm.__exit__(*a)
        return False


@st.composite
def variance_case(draw):
    kind = draw(st.sampled_from(["mvn", "mvn", "mtmvn", "exact", "exact", "svgp"]))
    dtype = draw(st.sampled_from(["float64", "float64", "float32"] if kind != "exact" else ["float64", "float32"]))
    block = draw(block_values())
    case = {"kind": kind, "dtype": dtype, "block": block}
    floor = expected_floor(block, dtype, MINVAR_DEFAULT)
    if kind in ("mvn", "mtmvn"):
        n = draw(st.integers(1, 5))
        t = draw(st.integers(1, 3)) if kind == "mtmvn" else 1
        rep = draw(st.sampled_from(["dense", "lazy_dense", "lazy_diag", "lazy_sum"]))
        if rep == "dense":
            # a covariance given as a tensor goes through torch's constructor, which factorises it: positive definite only
            vals = [1e-30, 1e-12, floor / 2, floor * 0.999, floor, floor * 1.001, 2 * floor, 1.0, 1e6]
            off = 0.0
        else:
            vals = [-1e-3, -1e-8, -1e-12, -0.0, 0.0, 1e-300, 1e-12, floor / 2, floor * 0.999, floor, floor * 1.001, 2 * floor, 1.0, 1e6]
            off = draw(st.sampled_from([0.0, 0.0, 1e-12, -1e-3]))
        case.update(n=n, t=t, diag=draw(st.lists(st.sampled_from(vals), min_size=n * t, max_size=n * t)), off=off, rep=rep,
                    batch=draw(st.sampled_from([[], [], [2]])))
        return case
    if kind == "exact":
        d = draw(st.sampled_from([1, 1, 2]))
        n = draw(st.integers(4, 8))
        # lattice inputs (repeated rows allowed) and lengthscales of 2 ... 6: a nearly singular K with tiny noise
        case.update(d=d, n=n, X=draw(kern.arr([n, d], st.sampled_from([-2.0, -1.5, -1.0, -0.5, 0.0, 0.5, 1.0, 1.5, 2.0]))), y=draw(kern.arr([n], kern.REAL)),
                    kernel=draw(VM.svgp_kernel(d, [], names=["RBF", "Matern2.5", "Matern1.5", "RQ"], ls=(2.0, 6.0))),
                    # noise 1e-6 at the training points: the raw posterior variance there is ~ noise +- kappa * eps
                    # (measured on the unchanged tree: the Cholesky path keeps these variances positive, the CG path at its default
                    # tolerance returns slightly negative ones in 10-70 % of such cases)
                    noise=draw(st.sampled_from([1e-6, 1e-6, 1e-8, 1e-10, 1e-5] if dtype == "float64" else [1e-6, 1e-6, 1e-5, 1e-4, 1e-3])),
                    at=draw(st.lists(st.integers(0, n - 1), min_size=1, max_size=4)), off=draw(st.sampled_from([0.0, 0.0, 1e-9, 1e-6])),
                    fpv=draw(st.sampled_from([False, False, True])), max_chol=draw(st.sampled_from([0, 0, 0, 800])), torch_seed=draw(st.integers(0, 2**31 - 1)))
        return case
    d = draw(st.integers(1, 2))
    M = draw(st.integers(1, 4))
    case.update(d=d, M=M, model={"strategy": draw(st.sampled_from(["Variational", "Unwhitened"])), "Z": draw(VM.inducing(M, d)), "learn_z": True,
                                 "jitter": draw(st.sampled_from([1e-10, 1e-8, 1e-6, None])), "dist": draw(st.sampled_from(["Cholesky", "MeanField"])), "vb": [],
                                 "mean": {"m": "Zero", "batch": [], "p": {}}, "kernel": draw(VM.svgp_kernel(d, []))},
                q=draw(VM.q_params(M, [])), qscale=draw(st.sampled_from([1.0, 1e-3, 1e-6])), extra=draw(kern.points(draw(st.integers(0, 2)), d)))
    return case


def run_variance(case, ctx: Ctx):
    kind, dtn, block = case["kind"], case["dtype"], case["block"]
    dt = DT[dtn]
    ctx.cls = f"{kind}|{dtn}|{'block' if block else 'default'}" + (f"|{case['rep']}" if "rep" in case else "") + (f"|chol{case['max_chol']}" if "max_chol" in case else "")
    floor = expected_floor(block, dtn, MINVAR_DEFAULT)
    obs = {}
    with ctx.observing("inside_block"):
        with maybe_block(S.min_variance, block), torch.no_grad():
            obs["setting"] = S.min_variance.value(dt)
            if kind in ("mvn", "mtmvn"):
                N = case["n"] * case["t"]
                C = torch.full((N, N), case["off"], dtype=dt)
                C = C - torch.diag_embed(C.diagonal()) + torch.diag_embed(T(case["diag"], dtype=dt))
                if case["batch"]:
                    C = C.expand(*case["batch"], N, N).clone()
                from linear_operator import to_linear_operator
                from linear_operator.operators import DiagLinearOperator

                rep = case["rep"]
                if rep == "dense":
                    cov = C
                elif rep == "lazy_dense":
                    cov = to_linear_operator(C)
                elif rep == "lazy_diag":
                    cov = DiagLinearOperator(C.diagonal(dim1=-1, dim2=-2).clone())
                else:  # the difference of two operators, as the posterior covariance is
                    half = 0.5 * C.diagonal(dim1=-1, dim2=-2).abs() + 1.0
                    cov = to_linear_operator(C + torch.diag_embed(half)) + DiagLinearOperator(-half)
                mean = torch.zeros(*case["batch"], N, dtype=dt)
                if kind == "mtmvn":
                    dist = MultitaskMultivariateNormal(mean.reshape(*case["batch"], case["n"], case["t"]), cov)
                else:
                    dist = MultivariateNormal(mean, cov)
                raw = dist.lazy_covariance_matrix.to_dense().diagonal(dim1=-1, dim2=-2)
                dists = [("dist", dist, raw)]
            elif kind == "exact":
                X = T(case["X"], dtype=dt)
                y = T(case["y"], dtype=dt)
                lik = gpytorch.likelihoods.GaussianLikelihood(noise_constraint=gpytorch.constraints.GreaterThan(1e-12))
                lik.noise = T([case["noise"]])
                model = G.RecipeGP(X, y, lik, gpytorch.means.ZeroMean(), kern.build_kernel(case["kernel"]))
                model = model.to(dt)
                lik = model.likelihood
                model.eval()
                lik.eval()
                Xs = X[case["at"]] + case["off"]
                torch.manual_seed(case["torch_seed"])
                with S.fast_pred_var(case["fpv"]), S.max_cholesky_size(case["max_chol"]):
                    out = model(Xs)
                    raw = out.covariance_matrix.diagonal(dim1=-1, dim2=-2)
                    pred = lik(out)
                dists = [("posterior", out, raw), ("marginal", pred, pred.covariance_matrix.diagonal(dim1=-1, dim2=-2))]
            else:
                r = case["model"]
                m, Sq = VM.q_tensors(case["q"])
                Sq = Sq * case["qscale"]
                model = VM.RecipeSVGP(r)
                VM.set_q(VM.base_strategy(model), VO.encode(r["dist"], m, Sq), mark=True)
                model = model.to(dt)
                model.eval()
                Z = T(r["Z"], dtype=dt)
                Xq = torch.cat([Z, T(case["extra"], dtype=dt).reshape(-1, case["d"])], 0)
                out = model(Xq)
                dists = [("q_f", out, out.covariance_matrix.diagonal(dim1=-1, dim2=-2))]
            for name, dist_, raw in dists:
                obs[name] = (dist_.variance, dist_.stddev, raw)
    ctx.equal("min_variance.value_inside", obs["setting"], floor)
    floor_t = torch.tensor(floor, dtype=dt)
    clamped = negative = False
    for name, val in obs.items():
        if name == "setting":
            continue
        var, std, raw = val
        ctx.check(f"{name}.variance.real_dtype", var.dtype == dt and std.dtype == dt and not var.is_complex(), f"variance dtype {var.dtype}, stddev dtype {std.dtype}, expected {dt}")
        ctx.check(f"{name}.variance.finite", bool(torch.isfinite(var).all()), f"variance {var.reshape(-1)[:6].tolist()}")
        ctx.check(f"{name}.variance.floor", bool((var >= floor_t).all()), f"min variance {float(var.min()):.6e} < settings.min_variance.value({dtn}) = {floor:g} (raw diagonal min {float(raw.min()):.3e})")
        ctx.check(f"{name}.stddev.finite", bool(torch.isfinite(std).all()), f"stddev {std.reshape(-1)[:6].tolist()} (raw diagonal min {float(raw.min()):.3e})")
        # sqrt is monotone and correctly rounded: stddev >= sqrt(floor) up to one rounding
        ctx.check(f"{name}.stddev.floor", bool((std >= floor_t.sqrt() * (1 - 4 * torch.finfo(dt).eps)).all()), f"min stddev {float(std.min()):.6e} < sqrt({floor:g})")
        clamped = clamped or bool((raw < 10 * floor_t).any())
        negative = negative or bool((raw < 0).any())
    ctx.equal("min_variance.restored", S.min_variance.value(dt), MINVAR_DEFAULT[dtn])
    ctx.set_nontrivial(clamped)
    ctx.label(f"var.kind={kind}", f"var.dtype={dtn}", f"var.block={'none' if block is None else 'f' + str(int(block['float'] is not None)) + 'd' + str(int(block['double'] is not None))}",
              f"var.clamped={clamped}", f"var.raw_negative[{kind}]={negative}", *([f"var.rep={case['rep']}"] if "rep" in case else []))


# ====================================================================================================
# (e) noise floors
# ====================================================================================================
RAW_SPECIAL = [-1.7e308, -1e308, -1e30, -800.0, -745.2, -100.0, -40.0, -36.8, -20.0, -1.0, -1e-300, -0.0, 0.0, 1e-300, 1e-8, 1.0, 20.0, 40.0,
               88.8, 709.0, 800.0, 1e30, 1e308, 1.7e308]
RAWS = st.one_of(st.sampled_from(RAW_SPECIAL), st.floats(allow_nan=False, allow_infinity=False), st.floats(-50, 50, allow_nan=False))
LOWER = [0.0, 1e-12, 1e-8, 1e-6, 1e-4, 1e-2, 1.0, 37.5]
NOISE_DEFAULT_LB = 1e-4  # _HomoskedasticNoiseBase: noise_constraint = GreaterThan(1e-4)


@st.composite
def noise_constraint_case(draw):
    lik = draw(st.sampled_from(["Gaussian", "Gaussian", "FixedNoise+", "Multitask.noise", "Multitask.task_noises", "Heteroskedastic"]))
    con = draw(st.sampled_from(["default", "default", "GreaterThan", "GreaterThan", "GreaterThan/exp", "Positive", "Interval"]))
    dtype = draw(st.sampled_from(["float64", "float64", "float32"]))
    batch = draw(st.sampled_from([[], [], [2]]))
    t = draw(st.integers(2, 3))
    lb = NOISE_DEFAULT_LB if con == "default" else (0.0 if con == "Positive" else draw(st.sampled_from(LOWER)))
    case = {"lik": lik, "con": con, "dtype": dtype, "batch": batch, "t": t, "lb": lb, "n": draw(st.integers(1, 4))}
    if con == "Interval":
        case["ub"] = lb + draw(st.sampled_from([1e-6, 1e-3, 1.0, 1e3]))
    k = t if lik == "Multitask.task_noises" else (case["n"] if lik == "Heteroskedastic" else 1)
    if dtype == "float32":
        raws = st.one_of(st.sampled_from([v for v in RAW_SPECIAL if abs(v) < 3e38]), st.floats(width=32, allow_nan=False, allow_infinity=False), st.floats(-50, 50, allow_nan=False, width=32))
    else:
        raws = RAWS
    case["raw"] = draw(kern.arr(batch + [k], raws))
    return case


def _constraint(case):
    from gpytorch import constraints as CN

    con, lb = case["con"], case["lb"]
    if con == "default":
        return None
    if con == "GreaterThan":
        return CN.GreaterThan(lb)
    if con == "GreaterThan/exp":
        return CN.GreaterThan(lb, transform=torch.exp, inv_transform=torch.log)
    if con == "Positive":
        return CN.Positive()
    return CN.Interval(lb, case["ub"])


class _RawNoiseModel(torch.nn.Module):
    """a 'noise model' whose prediction is a fixed mean: what HeteroskedasticNoise transforms into noise levels"""

    def __init__(self, mean):
        super().__init__()
        self.mean = mean

    def forward(self, *x):
        n = self.mean.shape[-1]
        return MultivariateNormal(self.mean, torch.eye(n, dtype=self.mean.dtype).expand(*self.mean.shape[:-1], n, n))


def run_noise_heteroskedastic(case, ctx: Ctx, dt, raw):
    from gpytorch.likelihoods.noise_models import HeteroskedasticNoise

    n = case["n"]
    kw = {} if case["con"] == "default" else {"noise_constraint": _constraint(case)}
    with ctx.observing("build"):
        hn = HeteroskedasticNoise(_RawNoiseModel(raw), **kw)
        if kw:
            hn._noise_constraint.to(dt)
    with ctx.observing("noise"):
        with torch.no_grad():
            X = torch.zeros(*raw.shape[:-1], n, 1, dtype=dt)
            noise = hn(X).to_dense().diagonal(dim1=-1, dim2=-2)
    lb_t = torch.tensor(case["lb"], dtype=dt)
    ctx.check("noise.not_nan", not bool(torch.isnan(noise).any()), f"noise {noise.reshape(-1)[:4].tolist()} for raw {raw.reshape(-1)[:4].tolist()}")
    # (a float64 bound applied to float32 predictions is compared in float32)
    ctx.check("noise.lower_bound", bool((noise.to(dt) >= lb_t).all()), f"noise {noise.reshape(-1)[:4].tolist()} < lower bound {case['lb']:g} for raw {raw.reshape(-1)[:4].tolist()}")
    sat = bool((noise <= lb_t * (1 + 1e-6) + 1e-300).any())
    ctx.set_nontrivial(sat or bool((raw.abs() > 30).any()))
    ctx.label("noise.lik=Heteroskedastic", f"noise.con={case['con']}", f"noise.dtype={case['dtype']}", f"noise.at_bound={sat}")


def run_noise_constraint(case, ctx: Ctx):
    dt = DT[case["dtype"]]
    lk, n, t = case["lik"], case["n"], case["t"]
    ctx.cls = f"{lk}|{case['con']}|{case['dtype']}|b{case['batch']}"
    bs = torch.Size(case["batch"])
    raw = T(case["raw"], dtype=dt)
    if lk == "Heteroskedastic":
        return run_noise_heteroskedastic(case, ctx, dt, raw)
    kw = {} if case["con"] == "default" else {"noise_constraint": _constraint(case)}
    with ctx.observing("build"):
        if lk == "Gaussian":
            lik = gpytorch.likelihoods.GaussianLikelihood(batch_shape=bs, **kw)
            holder, pname = lik.noise_covar, "raw_noise"
        elif lk == "FixedNoise+":
            lik = gpytorch.likelihoods.FixedNoiseGaussianLikelihood(noise=torch.full((n,), 0.25), learn_additional_noise=True, batch_shape=bs, **kw)
            holder, pname = lik.second_noise_covar, "raw_noise"
        elif lk == "Multitask.noise":
            lik = gpytorch.likelihoods.MultitaskGaussianLikelihood(num_tasks=t, rank=0, has_global_noise=True, has_task_noise=False, batch_shape=bs, **kw)
            holder, pname = lik, "raw_noise"
        else:
            lik = gpytorch.likelihoods.MultitaskGaussianLikelihood(num_tasks=t, rank=0, has_global_noise=False, has_task_noise=True, batch_shape=bs, **kw)
            holder, pname = lik, "raw_task_noises"
        lik = lik.to(dt)
        holder = lik.noise_covar if lk == "Gaussian" else (lik.second_noise_covar if lk == "FixedNoise+" else lik)
        # the raw parameter is written the way a state dict / an optimiser writes it
        with torch.no_grad():
            getattr(holder, pname).copy_(raw.reshape(getattr(holder, pname).shape))
        lik.eval()
    with ctx.observing("noise"):
        with torch.no_grad():
            if lk == "Gaussian":
                noise = lik.noise
            elif lk == "FixedNoise+":
                noise = lik.second_noise
            elif lk == "Multitask.noise":
                noise = lik.noise
            else:
                noise = lik.task_noises
    lb_t = torch.tensor(case["lb"], dtype=dt)
    ctx.check("noise.not_nan", not bool(torch.isnan(noise).any()), f"noise {noise.reshape(-1)[:4].tolist()} for raw {raw.reshape(-1)[:4].tolist()}")
    ctx.check("noise.lower_bound", bool((noise >= lb_t).all()), f"noise {noise.reshape(-1)[:4].tolist()} < lower bound {case['lb']:g} for raw {raw.reshape(-1)[:4].tolist()}")
    # the noise the likelihood adds to a distribution: marginal of a zero-covariance latent
    if bool(torch.isfinite(noise).all()):
        from linear_operator import to_linear_operator

        with ctx.observing("marginal"):
            with torch.no_grad():
                if lk.startswith("Multitask"):
                    latent = MultitaskMultivariateNormal(torch.zeros(*bs, n, t, dtype=dt), to_linear_operator(torch.zeros(*bs, n * t, n * t, dtype=dt)))
                else:
                    latent = MultivariateNormal(torch.zeros(*bs, n, dtype=dt), to_linear_operator(torch.zeros(*bs, n, n, dtype=dt)))
                added = lik(latent).covariance_matrix.diagonal(dim1=-1, dim2=-2)
        want = lb_t + (0.25 if lk == "FixedNoise+" else 0.0)
        ctx.check("added_noise.lower_bound", bool((added >= want * (1 - 4 * torch.finfo(dt).eps)).all()) and not bool(torch.isnan(added).any()),
                  f"noise added to a zero-covariance latent: {added.reshape(-1)[:4].tolist()} < {float(want):g}")
    sat = bool((noise <= lb_t * (1 + 1e-6) + 1e-300).any())
    ctx.set_nontrivial(sat or bool((raw.abs() > 30).any()))
    ctx.label(f"noise.lik={lk}", f"noise.con={case['con']}", f"noise.dtype={case['dtype']}", f"noise.at_bound={sat}")


FIXED_DEFAULT = {"float32": 1e-4, "float64": 1e-6}  # documented defaults (settings.min_fixed_noise docstring)


@st.composite
def noise_fixed_case(draw):
    dtype = draw(st.sampled_from(["float64", "float64", "float32"]))
    block = draw(block_values())
    floor = expected_floor(block, dtype, FIXED_DEFAULT)
    n = draw(st.integers(1, 5))
    vals = [-1.0, -1e-9, -0.0, 0.0, 1e-300, 1e-12, floor / 2, floor * 0.999, floor, floor * 1.001, 2 * floor, 0.3, 1.0, 1e6]
    return {"dtype": dtype, "block": block, "n": n, "noise": draw(kern.arr(draw(st.sampled_from([[], [], [2]])) + [n], st.sampled_from(vals))),
            "learn": draw(st.integers(0, 3)) == 0, "via": draw(st.sampled_from(["likelihood", "likelihood", "noise_module", "exact_gp"]))}


def run_noise_fixed(case, ctx: Ctx):
    dtn, block, n = case["dtype"], case["block"], case["n"]
    dt = DT[dtn]
    ctx.cls = f"{case['via']}|{dtn}|{'block' if block else 'default'}|learn{int(case['learn'])}"
    floor = expected_floor(block, dtn, FIXED_DEFAULT)
    noise_in = T(case["noise"], dtype=dt)
    obs = {}
    from gpytorch.likelihoods.noise_models import FixedGaussianNoise
    from linear_operator import to_linear_operator

    with ctx.observing("inside_block"):
        with maybe_block(S.min_fixed_noise, block), torch.no_grad():
            obs["setting"] = S.min_fixed_noise.value(dt)
            bs = noise_in.shape[:-1]
            latent = MultivariateNormal(torch.zeros(*bs, n, dtype=dt), to_linear_operator(torch.zeros(*bs, n, n, dtype=dt)))
            if case["via"] == "noise_module":
                nm = FixedGaussianNoise(noise_in)
                obs["noise"] = nm.noise
                obs["added"] = nm(shape=torch.Size([*bs, n])).to_dense().diagonal(dim1=-1, dim2=-2)
            else:
                lik = gpytorch.likelihoods.FixedNoiseGaussianLikelihood(noise=noise_in, learn_additional_noise=case["learn"])
                lik = lik.to(dt)
                lik.eval()
                obs["noise"] = lik.noise
                if case["via"] == "exact_gp":
                    # the noise an exact GP's marginal adds to its training covariance
                    X = torch.linspace(0, 1, n, dtype=dt).unsqueeze(-1).expand(*bs, n, 1)
                    model = G.RecipeGP(X, torch.zeros(*bs, n, dtype=dt), lik, gpytorch.means.ZeroMean(), K.RBFKernel()).to(dt)
                    model.train()
                    prior = model(X)
                    obs["added"] = (lik(prior, X).covariance_matrix - prior.covariance_matrix).diagonal(dim1=-1, dim2=-2)
                    obs["slack"] = 8 * torch.finfo(dt).eps  # (k + s) - k
                else:
                    obs["added"] = lik(latent).covariance_matrix.diagonal(dim1=-1, dim2=-2)
    ctx.equal("min_fixed_noise.value_inside", obs["setting"], floor)
    floor_t = torch.tensor(floor, dtype=dt)
    lo = floor_t + (torch.tensor(NOISE_DEFAULT_LB, dtype=dt) if case["learn"] and case["via"] != "noise_module" else 0.0)
    ctx.check("fixed.noise.floor", bool((obs["noise"] >= lo).all()) and not bool(torch.isnan(obs["noise"]).any()),
              f"noise {obs['noise'].reshape(-1)[:5].tolist()} < settings.min_fixed_noise.value({dtn}) = {floor:g} (given {noise_in.reshape(-1)[:5].tolist()})")
    slack = obs.get("slack", 0.0)
    ctx.check("fixed.added_noise.floor", bool((obs["added"] >= lo - slack).all()) and not bool(torch.isnan(obs["added"]).any()),
              f"added noise {obs['added'].reshape(-1)[:5].tolist()} < {float(lo):g} (given {noise_in.reshape(-1)[:5].tolist()})")
    ctx.equal("min_fixed_noise.restored", S.min_fixed_noise.value(dt), FIXED_DEFAULT[dtn])
    clamped = bool((noise_in < floor_t).any())
    ctx.set_nontrivial(clamped)
    ctx.label(f"fixed.via={case['via']}", f"fixed.dtype={dtn}", f"fixed.block={'none' if block is None else 'f' + str(int(block['float'] is not None)) + 'd' + str(int(block['double'] is not None))}",
              f"fixed.clamped={clamped}", f"fixed.learn={case['learn']}")


# ====================================================================================================
RULE = ("(a) kernel recipe (50 classes: 18 basic kernels with ARD / active_dims, Scale / Add / Prod trees, Cylindrical in the unit ball, HammingIMQ on "
        "one-hot rows, Index, Multitask, LCM, Arc, Additive/ProductStructure, SpectralDelta, RFF, RBFGrad, Matern52Grad, PolynomialGrad, RBFGradGrad; "
        "hyper-parameters 1e-3 ... 1e3) x inputs (n <= 12; exact duplicates, rows 1e-12 ... 1e-3 apart, clusters): symmetric, lambda_min >= -tau lambda_max "
        "with the modelled tau = 100 N (eps + e). Non-trivial: duplicate / near-duplicate rows or an extreme (<= 0.03 or >= 30) lengthscale. "
        "(b, c) exact-GP recipes x the C01 settings product and SVGP (whitened / unwhitened x 5 variational distributions): prior, posterior / q(f), "
        "marginal symmetric and PSD at the kappa-scaled tolerance, prior - posterior PSD, nested data sets never increase a variance; non-trivial: "
        "n, n* >= 2 and conditioning reduces a variance by > 1e-3. (d) variance / stddev >= settings.min_variance.value(dtype) (default and generated "
        "blocks, float32 / float64, dense / lazy / multitask / exact posterior at training points with noise 1e-6 / SVGP); non-trivial: a raw diagonal "
        "entry < 10 x floor. (e) noise >= constraint lower bound for raw values over the float range; FixedGaussianNoise >= settings.min_fixed_noise."
        "value(dtype); non-trivial: the bound / clamp is active. distinct = distinct canonical case.")

def searching(strategy):
    """the same cases, flagged so that the run reports -lambda_min/lambda_max to hypothesis.target"""
    return strategy.map(lambda c: dict(c, search=True))


SUBCHECKS = [
    Subcheck("gram.basic", run_gram_basic, strategy=lambda: gram_basic_case(False), quick=1500, thorough=50000, min_shard=100),
    Subcheck("gram.composed", run_gram_basic, strategy=lambda: gram_basic_case(True), quick=600, thorough=20000, min_shard=40),
    Subcheck("gram.special", run_gram_special, strategy=gram_special_case, quick=1000, thorough=30000, min_shard=60),
    Subcheck("gram.derivative", run_gram_deriv, strategy=gram_deriv_case, quick=400, thorough=12000, min_shard=30),
    # targeted search for the most negative relative eigenvalue (hypothesis.target), one search per group and shard
    Subcheck("gram.search.basic", run_gram_basic, strategy=lambda: searching(gram_basic_case(False)), quick=480, thorough=16000, min_shard=120),
    Subcheck("gram.search.composed", run_gram_basic, strategy=lambda: searching(gram_basic_case(True)), quick=320, thorough=10000, min_shard=80),
    Subcheck("gram.search.special", run_gram_special, strategy=lambda: searching(gram_special_case()), quick=480, thorough=16000, min_shard=120),
    Subcheck("gram.search.derivative", run_gram_deriv, strategy=lambda: searching(gram_deriv_case()), quick=240, thorough=8000, min_shard=80),
    Subcheck("exact.covariances", run_exact_cov, strategy=exact_cov_case, quick=700, thorough=20000, min_shard=40),
    Subcheck("variational.covariances", run_var_cov, strategy=var_cov_case, quick=500, thorough=15000, min_shard=30),
    Subcheck("cond.nested", run_nested, strategy=nested_case, quick=400, thorough=12000, min_shard=25),
    Subcheck("variance.floor", run_variance, strategy=variance_case, quick=800, thorough=25000, min_shard=50),
    Subcheck("noise.constraint", run_noise_constraint, strategy=noise_constraint_case, quick=800, thorough=25000, min_shard=50),
    Subcheck("noise.fixed", run_noise_fixed, strategy=noise_fixed_case, quick=500, thorough=15000, min_shard=30),
]

SPEC = PropertySpec(
    pid="C07",
    rule=RULE,
    assumptions=[
        "float64, CPU (float32 only where the property is about per-dtype constants: min_variance, min_fixed_noise, noise bounds)",
        "'up to rounding' for Gram matrices is the modelled tau = 100 N (eps + e) of the module docstring (e from the quadratic-expansion "
        "distance: 8 eps R^2, square-rooted for kernels with a kink at r = 0); symmetry at (1e-12 + 2 e) x scale",
        "CosineKernel on one input dimension, CylindricalKernel inside the unit ball (radius <= 0.99), HammingIMQ on one-hot rows, "
        "PolynomialKernel with integer power and offset > 0; GaussianSymmetrizedKLKernel is not claimed to be positive definite",
        "distribution checks: cases with cond(Kxx+S) > 1e8 (1e5 on iterative paths) are discarded; iterative paths at tolerance 1e-12",
        "the default lower bound of learned noise is GreaterThan(1e-4); the floors of FixedGaussianNoise apply at construction",
    ],
    subchecks=SUBCHECKS,
)

"""C20 - global settings are scoped: restored on exit (normal or exceptional), innermost block wins, documented
defaults outside all blocks, every field of multi-field settings restored.

Programs are trees of ``with Setting(args):`` blocks with observation points, ``raise`` items and ``try`` items.
The oracle is a reference interpreter holding an explicit stack of {field: value} frames; the visible value of a
field is that of the innermost active frame that mentions it, else the documented default (frozen table below,
copied from the docstrings - not read from the class attributes)."""
from __future__ import annotations

import itertools

import torch
from hypothesis import strategies as st

import gpytorch
from gpytorch import beta_features as B
from gpytorch import settings as S

from pbt.core import Ctx, PropertySpec, Subcheck

DT = {"float32": torch.float32, "float64": torch.float64, "float16": torch.float16}
DTN = {v: k for k, v in DT.items()}

# ---------------------------------------------------------------------------------------------------
# frozen table: name -> (kind, documented defaults)
# kinds: flag, value, dtype3, fpv (flag + num_probe_vectors), fc (three flags), ld (two dtype values), dtval (a dtype)
# ---------------------------------------------------------------------------------------------------
TABLE = {
    "_linalg_dtype_symeig": ("dtval", "float64"),
    "_linalg_dtype_cholesky": ("dtval", "float64"),
    "cg_tolerance": ("value", 1),
    "cholesky_jitter": ("dtype3", (1e-6, 1e-8, None)),
    "cholesky_max_tries": ("value", 3),
    "ciq_samples": ("flag", False),
    "debug": ("flag", True),
    "detach_test_caches": ("flag", True),
    "deterministic_probes": ("flag", False),
    "eval_cg_tolerance": ("value", 0.01),
    "fast_computations": ("fc", (True, True, True)),  # class attribute defaults; the "(except for solves)" remark in the dependency's docstring is stale
    "fast_pred_var": ("fpv", (False, 1)),
    "fast_pred_samples": ("flag", False),
    "lazily_evaluate_kernels": ("flag", True),
    "linalg_dtypes": ("ld", None),
    "max_eager_kernel_size": ("value", 512),
    "max_cholesky_size": ("value", 800),
    "max_cg_iterations": ("value", 1000),
    "max_lanczos_quadrature_iterations": ("value", 20),
    "max_preconditioner_size": ("value", 15),
    "max_root_decomposition_size": ("value", 100),
    "memory_efficient": ("flag", False),
    "min_preconditioning_size": ("value", 2000),
    "min_variance": ("dtype3", (1e-6, 1e-10, 1e-3)),
    "min_fixed_noise": ("dtype3", (1e-4, 1e-6, 1e-3)),
    "minres_tolerance": ("value", 1e-4),
    "num_contour_quadrature": ("value", 15),
    "num_gauss_hermite_locs": ("value", 20),
    "num_likelihood_samples": ("value", 10),
    "num_trace_samples": ("value", 10),
    "observation_nan_policy": ("policy", "ignore"),
    "preconditioner_tolerance": ("value", 1e-3),
    "prior_mode": ("flag", False),
    "sgpr_diagonal_correction": ("flag", True),
    "skip_logdet_forward": ("flag", False),
    "skip_posterior_variances": ("flag", False),
    "terminate_cg_by_size": ("flag", False),
    "trace_mode": ("flag", False),
    "tridiagonal_jitter": ("value", 1e-6),
    "use_keops": ("flag", True),
    "use_toeplitz": ("flag", True),
    "variational_cholesky_jitter": ("dtype3", (1e-4, 1e-6, None)),
    "verbose_linalg": ("flag", False),
    "checkpoint_kernel": ("value", 0),
    "default_preconditioner": ("flag", False),
}


def _resolve(name):
    if hasattr(S, name):
        return getattr(S, name)
    return getattr(B, name)


def subjects():
    """All exported settings (run-time enumeration) - anything not in the frozen table is a harness error."""
    names = list(S.__all__) + list(B.__all__)
    for extra in dir(S):
        obj = getattr(S, extra)
        if isinstance(obj, type) and hasattr(obj, "__enter__") and not extra.startswith("_") and extra not in names:
            names.append(extra)
    return names


SUBJECTS = subjects()
for _n in SUBJECTS:
    assert _n in TABLE, f"settings class {_n} is not in the frozen table of pbt/props/c20.py"


# ---- fields ----------------------------------------------------------------------------------------
def fields_of(name):
    kind, dflt = TABLE[name]
    if kind == "flag":
        return {f"{name}.state": dflt}
    if kind in ("value", "policy", "dtval"):
        return {f"{name}.value": dflt}
    if kind == "dtype3":
        return {f"{name}.float": dflt[0], f"{name}.double": dflt[1], f"{name}.half": dflt[2]}
    if kind == "fpv":
        return {f"{name}.state": dflt[0], f"{name}.num_probe_vectors": dflt[1]}
    if kind == "fc":
        return {
            "fast_computations.covar_root_decomposition": dflt[0],
            "fast_computations.log_prob": dflt[1],
            "fast_computations.solves": dflt[2],
        }
    if kind == "ld":
        return {}
    raise KeyError(kind)


DEFAULTS = {}
for _n in SUBJECTS:
    DEFAULTS.update(fields_of(_n))


def read_field(field):
    name, f = field.rsplit(".", 1)
    if name == "fast_computations":
        return getattr(S.fast_computations, f).on()
    cls = _resolve(name)
    kind = TABLE[name][0]
    if f == "state":
        on, off = cls.on(), cls.off()
        if on == off:
            return ("inconsistent on/off", on, off)
        return on
    if f == "num_probe_vectors":
        return cls.num_probe_vectors()
    if kind == "dtype3":
        return cls.value({"float": torch.float32, "double": torch.float64, "half": torch.float16}[f])
    v = cls.value()
    if kind == "dtval":
        return DTN.get(v, str(v))
    return v


def frame_of(block):
    """The fields a block mentions, as the documentation describes its constructor."""
    name, a = block["s"], block["args"]
    kind = TABLE[name][0]
    if kind == "flag":
        return {f"{name}.state": a.get("state", True)}
    if kind in ("value", "policy", "dtval"):
        return {f"{name}.value": a["value"]}
    if kind == "dtype3":
        return {f"{name}.{k}": a[f"{k}_value"] for k in ("float", "double", "half") if a.get(f"{k}_value") is not None}
    if kind == "fpv":
        return {f"{name}.state": a.get("state", True), f"{name}.num_probe_vectors": a.get("num_probe_vectors", 1)}
    if kind == "fc":
        return {f"fast_computations.{k}": a.get(k, True) for k in ("covar_root_decomposition", "log_prob", "solves")}
    if kind == "ld":
        d = a.get("default", "float64")
        return {
            "_linalg_dtype_symeig.value": a.get("symeig") or d,
            "_linalg_dtype_cholesky.value": a.get("cholesky") or d,
        }
    raise KeyError(kind)


def construct(block):
    name, a = block["s"], dict(block["args"])
    kind = TABLE[name][0]
    cls = _resolve(name)
    if kind == "dtval":
        return cls(DT[a["value"]])
    if kind == "ld":
        return cls(**{k: DT[v] for k, v in a.items() if v is not None})
    if kind in ("value", "policy"):
        return cls(a["value"])
    if kind == "flag" and not a:
        return cls()
    return cls(**{k: v for k, v in a.items() if v is not None})


class Marker(Exception):
    pass


# ---- harness reset: the process-global state is put back to its import-time content before every case, so that a leak
# found in one case cannot make later cases fail (the leak itself is reported by the case that caused it).
_RAW_ATTRS = ("_state", "_global_value", "_global_float_value", "_global_double_value", "_global_half_value", "_num_probe_vectors")


def _raw_classes():
    out = [_resolve(n) for n in SUBJECTS if TABLE[n][0] not in ("fc", "ld")]
    out += [S.fast_computations.covar_root_decomposition, S.fast_computations.log_prob, S.fast_computations.solves]
    return out


_SNAPSHOT = [(c, a, c.__dict__[a]) for c in _raw_classes() for a in _RAW_ATTRS if a in c.__dict__]
_INHERITED = [(c, a) for c in _raw_classes() for a in _RAW_ATTRS if a not in c.__dict__ and hasattr(c, a)]


def reset_globals():
    for c, a, v in _SNAPSHOT:
        setattr(c, a, v)
    for c, a in _INHERITED:
        if a in c.__dict__:
            delattr(c, a)


def run(case, ctx: Ctx):
    prog = case["prog"]
    observe_all = case.get("observe_all", False)
    stack = []
    involved = set()

    def walk(items):
        for it in items:
            if isinstance(it, dict) and "s" in it:
                involved.update(frame_of(it).keys())
                walk(it["body"])
            elif isinstance(it, dict) and "try" in it:
                walk(it["try"])

    walk(prog)
    obs_count = [0]
    depth_max = [0]
    flags = dict(exc=False, same_nested=False, interleaved=False, refused_entry=False)

    def visible(field):
        for fr in reversed(stack):
            if field in fr:
                return fr[field]
        return DEFAULTS[field]

    def observe(where, fields=None):
        obs_count[0] += 1
        ctx.comparisons += 1
        for f in (fields if fields is not None else sorted(involved)):
            got = read_field(f)
            want = visible(f)
            if got != want:
                ctx.fail("scoped", "value", f"{f} reads {got!r} {where}, model says {want!r} (stack depth {len(stack)})", cls=f)

    def exec_items(items, path):
        for i, it in enumerate(items):
            if it == "obs":
                observe(f"at {path}/{i}")
            elif it == "raise":
                flags["exc"] = True
                raise Marker()
            elif "try" in it:
                depth = len(stack)
                try:
                    exec_items(it["try"], f"{path}/{i}t")
                except Marker:
                    pass
                if len(stack) != depth:  # model bookkeeping (cannot happen)
                    raise AssertionError("model stack not unwound")
                if observe_all:
                    observe(f"after try {path}/{i}")
            else:
                fr = frame_of(it)
                if any(set(fr) & set(s) for s in stack):
                    flags["same_nested"] = True
                elif stack:
                    flags["interleaved"] = True
                with ctx.observing("construct", cls=it["s"]):
                    cm = construct(it)
                raised = False
                swallowed = False
                entered = False
                try:
                    with cm:
                        entered = True
                        stack.append(fr)
                        depth_max[0] = max(depth_max[0], len(stack))
                        try:
                            if observe_all:
                                observe(f"on entry of {path}/{i}:{it['s']}")
                            exec_items(it["body"], f"{path}/{i}")
                            if observe_all:
                                observe(f"at end of body {path}/{i}:{it['s']}")
                        except Marker:
                            raised = True
                            raise
                        finally:
                            stack.pop()
                    if raised:
                        swallowed = True
                except Marker:
                    if observe_all:
                        observe(f"after exceptional exit of {path}/{i}:{it['s']}")
                    raise
                except Warning:
                    # a warning escalated to an error (the program runs under simplefilter("error")) raised by the block's
                    # own entry: the block was never entered, so it must not have changed anything
                    if entered:
                        raise
                    flags["exc"] = True
                    flags["refused_entry"] = True
                    observe(f"after the entry of {path}/{i}:{it['s']} raised a warning-as-error", fields=sorted(DEFAULTS))
                    raise Marker()
                if swallowed:
                    ctx.fail("exception-propagates", "invariant", f"{it['s']}.__exit__ swallowed the exception", cls=it["s"])
                    raise Marker()
                if observe_all:
                    observe(f"after exit of {path}/{i}:{it['s']}")

    ctx.cls = "program"
    reset_globals()
    observe("before the program", fields=sorted(DEFAULTS))
    import warnings

    with warnings.catch_warnings():
        # the runner silences warnings; programs run either that way or with warnings escalated to errors
        warnings.simplefilter("error" if case.get("warnings_as_errors") else "ignore")
        try:
            exec_items(prog, "")
        except Marker:
            pass
    # at the end every field of every exported setting must read its documented default
    assert not stack
    observe("after the program", fields=sorted(DEFAULTS))
    reset_globals()
    ctx.label(f"depth={min(depth_max[0], 4)}", f"exc={flags['exc']}", f"same_nested={flags['same_nested']}",
              f"interleaved={flags['interleaved']}", f"warnings_as_errors={bool(case.get('warnings_as_errors'))}", f"refused_entry={flags['refused_entry']}")
    ctx.set_nontrivial(flags["exc"] or flags["same_nested"] or flags["interleaved"])


# ---- generators ------------------------------------------------------------------------------------
NUMS = st.sampled_from([0, 1, 2, 3, 7, 50, 0.5, 1e-3, 1e-12, 1234])
DTS = st.sampled_from(["float32", "float64"])


def args_strategy(name):
    kind = TABLE[name][0]
    if kind == "flag":
        return st.one_of(st.just({}), st.builds(lambda b: {"state": b}, st.booleans()))
    if kind == "value":
        return st.builds(lambda v: {"value": v}, NUMS)
    if kind == "policy":
        return st.builds(lambda v: {"value": v}, st.sampled_from(["ignore", "mask", "fill"]))
    if kind == "dtval":
        return st.builds(lambda v: {"value": v}, DTS)
    if kind == "dtype3":
        opt = st.one_of(st.none(), st.sampled_from([1e-9, 1e-5, 0.01, 0.25]))
        return st.builds(lambda a, b, c: {k: v for k, v in zip(("float_value", "double_value", "half_value"), (a, b, c)) if v is not None},
                         opt, opt, opt)
    if kind == "fpv":
        return st.one_of(
            st.just({}),
            st.builds(lambda s: {"state": s}, st.booleans()),
            st.builds(lambda s, n: {"state": s, "num_probe_vectors": n}, st.booleans(), st.integers(1, 9)),
        )
    if kind == "fc":
        ob = st.one_of(st.none(), st.booleans())
        return st.builds(lambda a, b, c: {k: v for k, v in zip(("covar_root_decomposition", "log_prob", "solves"), (a, b, c)) if v is not None},
                         ob, ob, ob)
    if kind == "ld":
        od = st.one_of(st.none(), DTS)
        return st.builds(lambda a, b, c: {k: v for k, v in zip(("default", "symeig", "cholesky"), (a, b, c)) if v is not None}, od, od, od)
    raise KeyError(kind)


def program_strategy():
    name_pool = st.shared(st.lists(st.sampled_from(SUBJECTS), min_size=1, max_size=3, unique=True), key="c20pool")

    def block(children):
        return name_pool.flatmap(
            lambda pool: st.sampled_from(pool).flatmap(
                lambda n: st.builds(lambda a, body: {"s": n, "args": a, "body": body}, args_strategy(n), children)
            )
        )

    def items(children):
        return st.lists(st.one_of(st.just("obs"), children, st.just("obs")), max_size=4)

    leaf_body = st.lists(st.sampled_from(["obs", "raise", "obs", "obs"]), max_size=2)
    node = st.recursive(
        block(leaf_body),
        lambda ch: st.one_of(
            block(st.lists(st.one_of(st.just("obs"), ch, st.just("raise"), st.builds(lambda t: {"try": t}, st.lists(ch, min_size=1, max_size=2))),
                           max_size=4)),
        ),
        max_leaves=8,
    )
    top = st.lists(st.one_of(st.just("obs"), node, st.builds(lambda t: {"try": t}, st.lists(st.one_of(node, st.just("raise")), min_size=1, max_size=3))),
                   min_size=1, max_size=5)
    return st.builds(lambda p, oa, we: {"prog": p, "observe_all": oa, "warnings_as_errors": we}, top, st.booleans(), st.integers(0, 3).map(lambda v: v == 0))


# ---- exhaustive tiers ------------------------------------------------------------------------------
REDUCED = [
    {"s": "debug", "args": {"state": True}},
    {"s": "debug", "args": {"state": False}},
    {"s": "max_cholesky_size", "args": {"value": 3}},
    {"s": "max_cholesky_size", "args": {"value": 7}},
    {"s": "min_variance", "args": {"float_value": 0.125}},
    {"s": "min_variance", "args": {"double_value": 0.25, "half_value": 0.375}},
    {"s": "variational_cholesky_jitter", "args": {"half_value": 0.5}},
    {"s": "variational_cholesky_jitter", "args": {"float_value": 0.125}},
    {"s": "fast_pred_var", "args": {"state": True}},
    {"s": "fast_pred_var", "args": {"state": False, "num_probe_vectors": 5}},
    {"s": "fast_pred_var", "args": {"state": True, "num_probe_vectors": 3}},
    {"s": "fast_computations", "args": {"covar_root_decomposition": False}},
    {"s": "fast_computations", "args": {"log_prob": False, "solves": True}},
    {"s": "linalg_dtypes", "args": {"default": "float32"}},
    {"s": "linalg_dtypes", "args": {"symeig": "float32"}},
    {"s": "_linalg_dtype_symeig", "args": {"value": "float32"}},
    {"s": "observation_nan_policy", "args": {"value": "mask"}},
]

# ordered forests with k nodes, as nested lists of node indices (children lists)
SHAPES = {
    1: [[(0, [])]],
    2: [[(0, []), (1, [])], [(0, [(1, [])])]],
    3: [
        [(0, []), (1, []), (2, [])],
        [(0, [(1, [])]), (2, [])],
        [(0, []), (1, [(2, [])])],
        [(0, [(1, []), (2, [])])],
        [(0, [(1, [(2, [])])])],
    ],
}


def _build(forest, symbols, raise_at, try_at):
    """forest: list of (idx, children).  raise_at: node index whose body ends with a raise (or None);
    try_at: node index wrapped in a try (or None = exception propagates to the top)."""

    def mk(node):
        idx, ch = node
        body = [mk(c) for c in ch]
        if raise_at == idx:
            body = body + ["raise"]
        blk = {"s": symbols[idx]["s"], "args": symbols[idx]["args"], "body": body}
        if try_at == idx:
            return {"try": [blk]}
        return blk

    return [mk(n) for n in forest]


def _ancestors(forest):
    anc = {}

    def rec(node, path):
        idx, ch = node
        anc[idx] = path + [idx]
        for c in ch:
            rec(c, path + [idx])

    for n in forest:
        rec(n, [])
    return anc


def enumerate_reduced(tier):
    kmax = 3
    for k in range(1, kmax + 1):
        for forest in SHAPES[k]:
            anc = _ancestors(forest)
            placements = [(None, None)]
            for r in range(k):
                placements.append((r, None))
                for t in anc[r]:
                    placements.append((r, t))
            for symbols in itertools.product(REDUCED, repeat=k):
                for raise_at, try_at in placements:
                    yield {"prog": _build(forest, symbols, raise_at, try_at), "observe_all": True}


def _arg_variants(name):
    kind = TABLE[name][0]
    if kind == "flag":
        return [{}, {"state": False}]
    if kind == "value":
        return [{"value": 3}, {"value": 0.5}]
    if kind == "policy":
        return [{"value": "mask"}, {"value": "fill"}]
    if kind == "dtval":
        return [{"value": "float32"}]
    if kind == "dtype3":
        return [{"float_value": 0.125}, {"double_value": 0.25}, {"half_value": 0.5}, {"float_value": 0.3, "double_value": 0.2, "half_value": 0.1}]
    if kind == "fpv":
        return [{}, {"state": False, "num_probe_vectors": 4}]
    if kind == "fc":
        return [{"covar_root_decomposition": False}, {"log_prob": False, "solves": True}]
    if kind == "ld":
        return [{"default": "float32"}, {"cholesky": "float32"}]
    raise KeyError(kind)


def enumerate_all_classes(tier):
    """Every exported class: all depth <= 2 programs with itself, and with each other class (one representative
    argument for the partner in quick; all variants in thorough)."""
    for name in SUBJECTS:
        va = _arg_variants(name)
        partners = SUBJECTS
        for other in partners:
            vb = _arg_variants(other) if (tier == "thorough" or other == name) else _arg_variants(other)[:1]
            for a in va:
                for b in vb:
                    syms = [{"s": name, "args": a}, {"s": other, "args": b}]
                    for forest in SHAPES[2]:
                        anc = _ancestors(forest)
                        placements = [(None, None)] + [(r, t) for r in range(2) for t in [None] + anc[r]]
                        for raise_at, try_at in placements:
                            yield {"prog": _build(forest, syms, raise_at, try_at), "observe_all": True}
                    if other == name or name in B.__all__ or other in B.__all__:
                        # the same programs with warnings escalated to errors (entries that warn then raise at the block boundary)
                        for forest in SHAPES[2]:
                            yield {"prog": _build(forest, syms, None, None), "observe_all": True, "warnings_as_errors": True}
                    if other == name:
                        yield {"prog": _build(SHAPES[1][0], syms[:1], None, None), "observe_all": True, "warnings_as_errors": True}
                        yield {"prog": _build(SHAPES[1][0], syms[:1], None, None), "observe_all": True}
                        yield {"prog": _build(SHAPES[1][0], syms[:1], 0, None), "observe_all": True}
                        yield {"prog": _build(SHAPES[1][0], syms[:1], 0, 0), "observe_all": True}


RULE = ("programs = trees of with-blocks over the exported settings with observation points, raise and try items; "
        "generated by Hypothesis (recursive strategy, up to ~12 blocks over 1-3 settings so that same-setting nesting is common) "
        "and enumerated exhaustively (all programs of <=3 blocks over a 17-symbol alphabet x exception placement; every exported "
        "class with itself and every other class at depth <=2). Non-trivial = the program nests a setting inside a block touching "
        "the same field, or interleaves different settings, or takes an exception path; distinct = distinct canonical program.")

SPEC = PropertySpec(
    pid="C20",
    rule=RULE,
    assumptions=[
        "documented defaults are the frozen table in pbt/props/c20.py (copied from the docstrings at the pinned commit)",
        "only the documented form `with Setting(args):` (constructed and entered at the same program point) is exercised",
        "single thread",
    ],
    subchecks=[
        Subcheck("settings.reduced_exhaustive", run, enumerate=enumerate_reduced,
                 exhaustive_note="all programs of <=3 with-blocks (all 8 forest shapes) over a 17-symbol alphabet x every exception/try placement",
                 rule=RULE),
        Subcheck("settings.all_classes_exhaustive", run, enumerate=enumerate_all_classes,
                 exhaustive_note="every exported settings class x argument variants, nested in / following itself and every other class, x exception placement"),
        Subcheck("settings.generated", run, strategy=program_strategy, quick=6000, thorough=100000, min_shard=200),
    ],
)
